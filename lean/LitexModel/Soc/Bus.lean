import LitexModel.Soc.Region
/-
  C13 — `SoCBusHandler` (`add_region`, `alloc_region`, `check_region_is_io`, `add_master`, `add_slave`,
  `do_finalize`).  Names are an arbitrary type `ν` with decidable equality (the driver uses `Nat`).

  Python dictionaries keep insertion order and `add_region` only ever inserts *new* keys, so the dictionaries
  are association lists to which entries are appended.

  Deliberately outside the model (the harness never produces these calls):
  * `alloc_region(size = 0)`: the Python loop does not advance (`origin += 0`) and hangs as soon as the first
    candidate overlaps; the model rejects `size = 0` by a guard (`Err.sizeZero`).
  * `SoCIORegion(origin=None)`, `add_slave` with a `SoCIORegion`, `add_slave(name=None)` (generated name),
    `add_master(region=…)` (remapper hardware, no allocation), negative origins/sizes.
  * A rejected request raises `SoCError`, which aborts the build; the Python object may be left modified
    (`regions[name]` is written before the overlap check).  The model is transactional: a rejected operation
    leaves the state unchanged, and the harness restores the dictionaries of the real object after a rejection.
-/
namespace Litex.Soc

inductive Err
  | dupName        -- "already declared as Region"
  | ioOverlap      -- "IO Region overlap"
  | inIoCached     -- "Region in IO region, it can't be cached"
  | notIoUncached  -- "Region not in IO region, it must be cached"
  | overlap        -- "Region overlap"
  | noSpace        -- "Not enough Address Space to allocate Region"
  | sizeZero       -- guard of the model (see above)
  | fuel           -- never returned (`Soc.allocLoop_ne_outOfFuel`)
  | badArg         -- calls outside the modelled domain
  | dupMaster | dupSlave | noRegion
  | decodeOff      -- "Only one Region can be used when disabling Decoder"
  | unaligned      -- "Origin needs to be aligned on size"
  deriving Repr, DecidableEq

/-- A region request: `origin = none` asks for automatic allocation; `io` = `SoCIORegion`. -/
structure Req where
  io     : Bool := false
  origin : Option Nat
  size   : Nat
  cached : Bool := true
  linker : Bool := false
  decode : Bool := true
  deriving Repr, DecidableEq

/-- The region object carried by a request with a fixed origin. -/
def Req.region (q : Req) (o : Nat) : Region := ⟨o, q.size, q.cached, q.linker, q.decode⟩

/-- Automatically generated names: `"master{:d}".format(len(self.masters))` and
    `"slave{:d}".format(len(self.slaves))`.  Any naming scheme; generated names may collide with explicit ones
    (a client may call `add_master(name="master2")`), which is exactly what the theorems have to survive. -/
class AutoNames (ν : Type) where
  master : Nat → ν
  slave  : Nat → ν

/-- Driver / examples: explicit names are small numbers, `master<k>` is `1000+k`, `slave<k>` is `2000+k`. -/
instance : AutoNames Nat := ⟨(1000 + ·), (2000 + ·)⟩

structure BusH (ν : Type) where
  aw        : Nat                    -- address_width
  dw        : Nat                    -- data_width
  regions   : List (ν × Region) := []
  ioRegions : List (ν × Region) := []
  ioCheck   : Bool := true           -- io_regions_check
  masters   : List ν := []
  slaves    : List ν := []
  deriving Repr, DecidableEq

/-- The candidate built by `alloc_region`: `SoCRegion(origin=origin, size=size, cached=cached)` — the `linker`
    and `decode` flags of the request are *not* carried over (defaults). -/
def cand (origin size : Nat) (cached : Bool) : Region :=
  { origin := origin, size := size, cached := cached, linker := false, decode := true }

inductive Loop
  | found (origin : Nat)
  | exhausted
  | outOfFuel
  deriving Repr, DecidableEq

/-- The `while (origin + size) < (search_region.origin + search_region.size_pow2)` loop of `alloc_region`
    for one search region with end `limit`; `fuel` bounds the number of iterations (structural recursion). -/
def allocLoop (regs : List Region) (size : Nat) (cached : Bool) (limit : Nat) : Nat → Nat → Loop
  | 0, _ => .outOfFuel
  | fuel + 1, origin =>
    if origin + size < limit then
      if origin % pow2ceil size ≠ 0 then
        -- "Align Origin on Size": origin += size_pow2 - origin % size_pow2; continue
        allocLoop regs size cached limit fuel (origin + (pow2ceil size - origin % pow2ceil size))
      else if regs.any (fun a => overlapPair a (cand origin size cached)) then
        -- overlap with an allocated region: origin += size
        allocLoop regs size cached limit fuel (origin + size)
      else .found origin
    else .exhausted

/-- Iterations never exceed `limit - origin + 1` when `size > 0` (proved: `Soc.allocLoop_ne_outOfFuel`). -/
def allocFuel (sr : Region) : Nat := sr.p2 + 1

/-- `for _, search_region in search_regions.items(): …` -/
def allocSearch (regs : List Region) (size : Nat) (cached : Bool) : List Region → Except Err Nat
  | [] => .error .noSpace
  | sr :: rest =>
    match allocLoop regs size cached (sr.origin + sr.p2) (allocFuel sr) sr.origin with
    | .found o => .ok o
    | .exhausted => allocSearch regs size cached rest
    | .outOfFuel => .error .fuel

/-- `{"main": SoCRegion(origin=0, size=2**address_width - 1)}` -/
def mainRegion (aw : Nat) : Region := { origin := 0, size := 2 ^ aw - 1 }

namespace BusH
variable {ν : Type} [DecidableEq ν]

def regs (s : BusH ν) : List Region := s.regions.map (·.2)
def ios (s : BusH ν) : List Region := s.ioRegions.map (·.2)

def hasName (s : BusH ν) (n : ν) : Bool :=
  s.regions.any (·.1 == n) || s.ioRegions.any (·.1 == n)

/-- `check_region_is_io` -/
def isIo (s : BusH ν) (r : Region) : Bool := s.ios.any (regionIsIn r)

def searchRegions (s : BusH ν) (cached : Bool) : List Region :=
  if cached then [mainRegion s.aw] else s.ios

/-- `alloc_region(name, size, cached)` -/
def allocRegion (s : BusH ν) (size : Nat) (cached : Bool) : Except Err Region :=
  if size = 0 then .error .sizeZero
  else match allocSearch s.regs size cached (s.searchRegions cached) with
    | .ok o => .ok (cand o size cached)
    | .error e => .error e

/-- `add_region(name, region)` -/
def addRegion (s : BusH ν) (name : ν) (q : Req) : Except Err (BusH ν) :=
  if s.hasName name then .error .dupName
  else if q.io then
    match q.origin with
    | none => .error .badArg
    | some o =>
      -- `self.io_regions[name] = region`, then `check_regions_overlap(self.io_regions)`
      if anyOverlap ((s.ioRegions ++ [(name, q.region o)]).map (·.2)) then .error .ioOverlap
      else .ok { s with ioRegions := s.ioRegions ++ [(name, q.region o)] }
  else
    match q.origin with
    | none =>
      match s.allocRegion q.size q.cached with
      | .ok r => .ok { s with regions := s.regions ++ [(name, r)] }
      | .error e => .error e
    | some o =>
      if s.ioCheck && s.isIo (q.region o) && q.cached then .error .inIoCached
      else if s.ioCheck && !s.isIo (q.region o) && !q.cached then .error .notIoUncached
      -- `self.regions[name] = region`, then `check_regions_overlap(self.regions)` over all pairs
      else if anyOverlap ((s.regions ++ [(name, q.region o)]).map (·.2)) then .error .overlap
      else .ok { s with regions := s.regions ++ [(name, q.region o)] }

/-- `add_master(name, master)` with an interface that needs no adaptation. -/
def addMaster (s : BusH ν) (name : ν) : Except Err (BusH ν) :=
  if s.masters.contains name then .error .dupMaster else .ok { s with masters := s.masters ++ [name] }

/-- First half of `add_slave(name, slave, region)`: `q = none` looks the region up by name, otherwise
    `add_region(name, region)` runs (before the duplicate-slave test, as in the Python code). -/
def slaveStage (s : BusH ν) (name : ν) : Option Req → Except Err (BusH ν)
  | none => if s.regions.any (·.1 == name) then .ok s else .error .noRegion
  | some q => if q.io then .error .badArg else s.addRegion name q

/-- `add_slave(name, slave, region)` with an interface that needs no adaptation. -/
def addSlave (s : BusH ν) (name : ν) (q : Option Req) : Except Err (BusH ν) :=
  match s.slaveStage name q with
  | .error e => .error e
  | .ok s1 =>
    if s1.slaves.contains name then .error .dupSlave else .ok { s1 with slaves := s1.slaves ++ [name] }

def regionOf (s : BusH ν) (n : ν) : Option Region := (s.regions.find? (·.1 == n)).map (·.2)

/-- The regions whose decoders `do_finalize` hands to the interconnect, in slave order. -/
def slaveRegions (s : BusH ν) : List (ν × Region) :=
  s.slaves.filterMap (fun n => (s.regionOf n).map (fun r => (n, r)))

/-- `do_finalize` produces a point-to-point interconnect (no decoder is built, no check is made): one master,
    one slave, and the *slave's own* region starts at 0 (`self.regions[next(iter(self.slaves))].origin == 0`;
    a slave always has a region, `BusH.Inv.slaves_have`). -/
def isP2P (s : BusH ν) : Bool :=
  s.masters.length == 1 && s.slaves.length == 1 &&
    (match s.slaves with
     | [] => false
     | n :: _ => match s.regionOf n with | some r => r.origin == 0 | none => false)

/-- The checks of `do_finalize`: `ok` iff the interconnect is built without `SoCError`. -/
def finalize (s : BusH ν) : Except Err Unit :=
  if s.masters.isEmpty || s.slaves.isEmpty then .ok ()
  else if s.isP2P then .ok ()
  else if decide (s.regions.length > 1) && s.regions.any (fun p => !p.2.decode) then .error .decodeOff
  else if s.slaveRegions.all (fun p => p.2.aligned) then .ok ()
  else .error .unaligned

/-- Does `do_finalize` build the point-to-point interconnect (observable: the class of `_interconnect`)? -/
def buildsP2P (s : BusH ν) : Bool := !(s.masters.isEmpty || s.slaves.isEmpty) && s.isP2P

/-- Which word addresses reach (select) a slave with region `r` in the interconnect that `do_finalize` builds:
    a point-to-point interconnect has no decoder (`master.connect(slave)`: every address reaches the slave);
    a shared/crossbar interconnect selects by `SoCRegion.decoder`. -/
def selects (s : BusH ν) (r : Region) (a : Nat) : Bool :=
  s.buildsP2P || decoderAccepts s.aw s.dw r a

end BusH

/-- Operations of a call history on a bus handler. -/
inductive BusOp (ν : Type)
  | addRegion (name : ν) (q : Req)
  | addSlave (name : Option ν) (q : Option Req)   -- `name = none`: automatic name `slave<len(slaves)>`
  | addMaster (name : Option ν)                   -- `name = none`: automatic name `master<len(masters)>`
  | setIoCheck (b : Bool)          -- `soc.bus.io_regions_check = False` (done by `add_cpu` for `CPUNone`)
  deriving Repr

namespace BusH
variable {ν : Type} [DecidableEq ν] [AutoNames ν]

/-- The name is fixed (explicit or generated from the current number of masters/slaves) *before* the
    "already declared" test, as in the Python code; `add_slave()` without name and region is refused. -/
def apply (s : BusH ν) : BusOp ν → Except Err (BusH ν)
  | .addRegion n q => s.addRegion n q
  | .addSlave n q =>
    if n.isNone && q.isNone then .error .badArg
    else s.addSlave (n.getD (AutoNames.slave s.slaves.length)) q
  | .addMaster n => s.addMaster (n.getD (AutoNames.master s.masters.length))
  | .setIoCheck b => .ok { s with ioCheck := b }

/-- One step of a history: a rejected request leaves the handler unchanged. -/
def step (s : BusH ν) (op : BusOp ν) : BusH ν :=
  match s.apply op with
  | .ok s' => s'
  | .error _ => s

/-- State after a call history (rejected requests are skipped; a history of successful requests is the
    special case in which no step is skipped). -/
def run (s : BusH ν) (ops : List (BusOp ν)) : BusH ν := ops.foldl step s

/-- Per-operation verdicts of a history. -/
def verdicts (s : BusH ν) : List (BusOp ν) → List (Option Err)
  | [] => []
  | op :: ops =>
    match s.apply op with
    | .ok s' => none :: verdicts s' ops
    | .error e => some e :: verdicts s ops

end BusH
end Litex.Soc
