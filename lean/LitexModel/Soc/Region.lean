/-
  C13 — SoC bus regions (`litex/soc/integration/soc.py`: `SoCRegion`, `SoCIORegion`, `SoCRegion.decoder`,
  `SoCBusHandler.check_regions_overlap`, `check_region_is_in`).  Core Lean only.

  Addresses, sizes and origins are unbounded naturals exactly as the Python integers are (nothing in the
  Python code truncates to the bus width; that is part of what the theorems have to show).
-/
namespace Litex.Soc

/-- Migen `log2_int(n, need_pow2=False)`: bit length of `n - 1`, and `0` for `n = 0`. -/
def clog2 (n : Nat) : Nat := if n ≤ 1 then 0 else (n - 1).log2 + 1

/-- `2**log2_int(size, False)` — `SoCRegion.size_pow2`.  Note `pow2ceil 0 = 1`. -/
def pow2ceil (n : Nat) : Nat := 2 ^ clog2 n

/-- `SoCRegion` / `SoCIORegion` (the `mode` string and `type` are irrelevant to allocation and not modelled). -/
structure Region where
  origin : Nat
  size   : Nat
  cached : Bool := true
  linker : Bool := false
  decode : Bool := true
  deriving Repr, DecidableEq, Inhabited

namespace Region

/-- `size_pow2`: the size of the decoded window. -/
def p2 (r : Region) : Nat := pow2ceil r.size

/-- Byte address `x` lies in the decoded (power-of-two) window of `r`. -/
def InWindow (r : Region) (x : Nat) : Prop := r.origin ≤ x ∧ x < r.origin + r.p2

/-- Byte address `x` lies in the declared extent `[origin, origin+size)` of `r`. -/
def InExtent (r : Region) (x : Nat) : Prop := r.origin ≤ x ∧ x < r.origin + r.size

/-- `(origin & (size_pow2 - 1)) == 0`, written with `%` (equal for a power of two, `Soc.land_pow2_pred`). -/
def aligned (r : Region) : Bool := r.origin % r.p2 == 0

end Region

/-- One pair test of `check_regions_overlap(..., check_linker=False)`: `true` iff the pair is reported. -/
def overlapPair (r0 r1 : Region) : Bool :=
  if r0.linker || r1.linker then false
  else if r0.origin ≥ r1.origin + r1.p2 then false
  else if r1.origin ≥ r0.origin + r0.p2 then false
  else true

/-- `check_regions_overlap(regions) is not None`: the Python loop compares every pair `(i, j)`, `i < j`, in
    insertion order and returns the first hit; only whether there is one is observable to the callers. -/
def anyOverlap : List Region → Bool
  | [] => false
  | r :: rs => rs.any (overlapPair r) || anyOverlap rs

/-- `check_region_is_in(region, container)` — on the *declared* sizes. -/
def regionIsIn (r c : Region) : Bool :=
  decide (c.origin ≤ r.origin) && decide (r.origin + r.size ≤ c.origin + c.size)

/-- `int(math.log2(data_width//8))` for the supported data widths (powers of two ≥ 8). -/
def wordShift (dw : Nat) : Nat := (dw / 8).log2

/-- The predicate returned by `SoCRegion.decoder(bus)` applied to the *word* address `a`
    (the alignment check that precedes it is `Region.aligned`, see `BusH.finalize`).
    `a[k:] == c` on an address signal holding `a` evaluates to `a >>> k == c` (unbounded comparison). -/
def decoderAccepts (aw dw : Nat) (r : Region) (a : Nat) : Bool :=
  if !r.decode || (r.origin == 0 && r.p2 == 2 ^ aw) then true
  else
    let sh := wordShift dw
    let origin := r.origin >>> sh
    let size := r.p2 >>> sh
    let k := clog2 size
    (a >>> k) == (origin >>> k)

end Litex.Soc
