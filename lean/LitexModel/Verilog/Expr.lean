import LitexModel.Fhdl.IntBits
/-
  C01 — the Verilog expression subset emitted by `litex/gen/fhdl/expression.py`, with the expression sizing
  and signedness rules of IEEE 1364-2005 §5.4 (Table 5-22) and §5.5.  TRUSTED: there is no Verilog simulator
  in the sandbox, this file *is* the Verilog semantics used by the check.

  * `selfWidth` / `selfSigned` : self-determined bit length and type of an expression (§5.4.1, §5.5.1)
  * `evalV ρ W sg e`           : value (in `[0, 2^W)`) of `e` evaluated in a context of `W ≥ selfWidth e`
                                  bits whose propagated type is signed iff `sg` (§5.4.2, §5.5.2–5.5.4: the
                                  context size and type are pushed down to the context-determined operands,
                                  a primary is extended to the context size, sign-extended only if the
                                  propagated type is signed)
  * `ideal ρ e`                : the same expression read over unbounded integers (no wrap-around; the
                                  condition of `?:` is a self-determined boundary and is tested on its
                                  `selfWidth` low bits, which is exactly what Verilog tests)
  * `fitsV ρ e W sg`           : at every self-determined boundary of `e` the unbounded value is representable
                                  in the width/type Verilog gives it — the side condition under which
                                  `evalV ρ W sg e = ideal ρ e mod 2^W` (proved in LitexProofs/Verilog)
  Signals hold bit vectors: identifier `i` of declared width `w` has the bits `ρ i mod 2^w`.
-/
namespace Litex.C01

inductive VUn | neg | not
  deriving Repr, DecidableEq, Inhabited

/-- Binary operators emitted by the printer.  `shl`/`shr` are the arithmetic shifts `<<<` / `>>>`. -/
inductive VBin | add | sub | mul | shl | shr | and | xor | or | lt | le | eq | ne | gt | ge
  deriving Repr, DecidableEq, Inhabited

def VBin.isCmp : VBin → Bool
  | .lt | .le | .eq | .ne | .gt | .ge => true
  | _ => false

def VBin.isShift : VBin → Bool
  | .shl | .shr => true
  | _ => false

inductive VExpr
  | lit (w : Nat) (s : Bool) (v : Nat)     -- `w'd v` (s = false) / `w'sd v` (s = true)
  | id (i w : Nat) (s : Bool)              -- identifier with its declared width / `signed`
  | un (o : VUn) (a : VExpr)
  | bin (o : VBin) (a b : VExpr)
  | cond (c a b : VExpr)                   -- `c ? a : b`
  | psel (a : VExpr) (hi lo : Nat)         -- `a[hi:lo]`
  | bsel (a : VExpr) (i : Nat)             -- `a[i]`
  | concat (l : List VExpr)                -- `{l0, l1, ...}`: first element = MOST significant
  | repl (n : Nat) (a : VExpr)             -- `{n{a}}`
  | signed (a : VExpr)                     -- `$signed(a)`
  deriving Repr, Inhabited

mutual
/-- Self-determined bit length (Table 5-22). -/
def selfWidth : VExpr → Nat
  | .lit w _ _ => w
  | .id _ w _ => w
  | .un _ a => selfWidth a
  | .bin o a b => if o.isCmp then 1 else if o.isShift then selfWidth a else max (selfWidth a) (selfWidth b)
  | .cond _ a b => max (selfWidth a) (selfWidth b)
  | .psel _ hi lo => hi - lo + 1
  | .bsel _ _ => 1
  | .concat l => concatWidth l
  | .repl n a => n * selfWidth a
  | .signed a => selfWidth a
def concatWidth : List VExpr → Nat
  | [] => 0
  | e :: es => selfWidth e + concatWidth es
end

/-- Self-determined type (§5.5.1): part-selects, concatenations and comparison results are unsigned; an
    operator expression is signed iff all its context-determined operands are; `$signed()` is signed. -/
def selfSigned : VExpr → Bool
  | .lit _ s _ => s
  | .id _ _ s => s
  | .un _ a => selfSigned a
  | .bin o a b => if o.isCmp then false else if o.isShift then selfSigned a else selfSigned a && selfSigned b
  | .cond _ a b => selfSigned a && selfSigned b
  | .psel _ _ _ => false
  | .bsel _ _ => false
  | .concat _ => false
  | .repl _ _ => false
  | .signed _ => true

/-- Extension of a `w`-bit vector to `W ≥ w` bits: sign extension iff the propagated type is signed. -/
def ext (w W : Nat) (sg : Bool) (v : Int) : Int :=
  if sg && decide (p2 (w - 1) ≤ v) then v + (p2 W - p2 w) else v

def cmpV (o : VBin) (x y : Int) : Bool :=
  match o with
  | .lt => decide (x < y)
  | .le => decide (x ≤ y)
  | .eq => decide (x = y)
  | .ne => decide (x ≠ y)
  | .gt => decide (x > y)
  | .ge => decide (x ≥ y)
  | _ => false

/-- Context-determined arithmetic / bitwise operators on `W`-bit vectors. -/
def arithV (o : VBin) (W : Nat) (x y : Int) : Int :=
  match o with
  | .add => tn W (x + y)
  | .sub => tn W (x - y)
  | .mul => tn W (x * y)
  | .and => landI x y
  | .or => lorI x y
  | .xor => xorI x y
  | _ => 0

mutual
def evalV (ρ : Nat → Int) (W : Nat) (sg : Bool) : VExpr → Int
  | .lit w _ v => ext w W sg (tn w v)
  | .id i w _ => ext w W sg (tn w (ρ i))
  | .un .neg a => tn W (- evalV ρ W sg a)
  | .un .not a => p2 W - 1 - evalV ρ W sg a
  | .bin o a b =>
    if o.isCmp then
      -- operands sized to the larger of the two, signed comparison iff both are signed; result 1 bit unsigned
      let w' := max (selfWidth a) (selfWidth b)
      let sg' := selfSigned a && selfSigned b
      let x := evalV ρ w' sg' a
      let y := evalV ρ w' sg' b
      ext 1 W sg (b2i (if sg' then cmpV o (toS w' x) (toS w' y) else cmpV o x y))
    else if o.isShift then
      -- left operand context-determined, shift amount self-determined and always unsigned
      let x := evalV ρ W sg a
      let k := (evalV ρ (selfWidth b) (selfSigned b) b).toNat
      match o with
      | .shl => tn W (x * p2 k)
      | _ => if sg then tn W (toS W x / p2 k) else x / p2 k
    else arithV o W (evalV ρ W sg a) (evalV ρ W sg b)
  | .cond c a b =>
    if evalV ρ (selfWidth c) (selfSigned c) c ≠ 0 then evalV ρ W sg a else evalV ρ W sg b
  | .psel a hi lo => ext (hi - lo + 1) W sg (tn (hi - lo + 1) (evalV ρ (selfWidth a) (selfSigned a) a / p2 lo))
  | .bsel a i => ext 1 W sg (tn 1 (evalV ρ (selfWidth a) (selfSigned a) a / p2 i))
  | .concat l => ext (concatWidth l) W sg (evalConcat ρ l)
  | .repl n a => ext (n * selfWidth a) W sg (replV (selfWidth a) (evalV ρ (selfWidth a) (selfSigned a) a) n)
  | .signed a => ext (selfWidth a) W sg (evalV ρ (selfWidth a) (selfSigned a) a)
/-- `{e0, e1, …}`: every element self-determined, `e0` in the most significant position. -/
def evalConcat (ρ : Nat → Int) : List VExpr → Int
  | [] => 0
  | e :: es => evalV ρ (selfWidth e) (selfSigned e) e * p2 (concatWidth es) + evalConcat ρ es
end

/-- Self-determined evaluation. -/
@[inline] def evalSelf (ρ : Nat → Int) (e : VExpr) : Int := evalV ρ (selfWidth e) (selfSigned e) e

/-- Procedural / continuous assignment of `rhs` to a `lw`-bit target (§5.4.1: the right-hand side is evaluated
    in `max(lw, selfWidth rhs)` bits with its own type, then truncated). -/
def assignV (ρ : Nat → Int) (lw : Nat) (rhs : VExpr) : Int :=
  tn lw (evalV ρ (max lw (selfWidth rhs)) (selfSigned rhs) rhs)

/-! ### Unbounded reading -/

def idealBin (o : VBin) (x y : Int) : Int :=
  match o with
  | .add => x + y
  | .sub => x - y
  | .mul => x * y
  | .shl => shlI x y
  | .shr => shrI x y
  | .and => landI x y
  | .xor => xorI x y
  | .or => lorI x y
  | o => b2i (cmpV o x y)

mutual
def ideal (ρ : Nat → Int) : VExpr → Int
  | .lit w s v => truncS w s v
  | .id i w s => truncS w s (ρ i)
  | .un .neg a => - ideal ρ a
  | .un .not a => notI (ideal ρ a)
  | .bin o a b => idealBin o (ideal ρ a) (ideal ρ b)
  | .cond c a b => if tn (selfWidth c) (ideal ρ c) ≠ 0 then ideal ρ a else ideal ρ b
  | .psel a hi lo => tn (hi - lo + 1) (ideal ρ a / p2 lo)
  | .bsel a i => tn 1 (ideal ρ a / p2 i)
  | .concat l => idealConcat ρ l
  | .repl n a => replV (selfWidth a) (tn (selfWidth a) (ideal ρ a)) n
  | .signed a => toS (selfWidth a) (tn (selfWidth a) (ideal ρ a))
def idealConcat (ρ : Nat → Int) : List VExpr → Int
  | [] => 0
  | e :: es => tn (selfWidth e) (ideal ρ e) * p2 (concatWidth es) + idealConcat ρ es
end

/-! ### Side condition -/

/-- A `w`-bit operand of value `x` (unbounded reading) survives extension to the context `(W, sg)`. -/
def fitsAt (w W : Nat) (sg : Bool) (x : Int) : Bool := decide (0 < w) && (decide (W = w) || inRange w sg x)

mutual
def fitsV (ρ : Nat → Int) : VExpr → Nat → Bool → Bool
  | .lit w s v, W, sg => fitsAt w W sg (truncS w s v)
  | .id i w s, W, sg => fitsAt w W sg (truncS w s (ρ i))
  | .un _ a, W, sg => fitsV ρ a W sg
  | .bin o a b, W, sg =>
    if o.isCmp then
      let w' := max (selfWidth a) (selfWidth b)
      let sg' := selfSigned a && selfSigned b
      decide (0 < w') && fitsV ρ a w' sg' && fitsV ρ b w' sg' && inRange w' sg' (ideal ρ a) && inRange w' sg' (ideal ρ b)
        && fitsAt 1 W sg (idealBin o (ideal ρ a) (ideal ρ b))
    else if o.isShift then
      fitsV ρ a W sg && fitsV ρ b (selfWidth b) (selfSigned b) && inRange (selfWidth b) false (ideal ρ b)
        && (match o with | .shr => decide (0 < W) && inRange W sg (ideal ρ a) | _ => true)
    else fitsV ρ a W sg && fitsV ρ b W sg
  | .cond c a b, W, sg =>
    fitsV ρ c (selfWidth c) (selfSigned c) && fitsV ρ a W sg && fitsV ρ b W sg
  | .psel a hi lo, W, sg =>
    fitsV ρ a (selfWidth a) (selfSigned a) && decide (hi < selfWidth a) && decide (lo ≤ hi)
      && fitsAt (hi - lo + 1) W sg (tn (hi - lo + 1) (ideal ρ a / p2 lo))
  | .bsel a i, W, sg =>
    fitsV ρ a (selfWidth a) (selfSigned a) && decide (i < selfWidth a) && fitsAt 1 W sg (tn 1 (ideal ρ a / p2 i))
  | .concat l, W, sg => fitsConcat ρ l && fitsAt (concatWidth l) W sg (idealConcat ρ l)
  | .repl n a, W, sg =>
    fitsV ρ a (selfWidth a) (selfSigned a)
      && fitsAt (n * selfWidth a) W sg (replV (selfWidth a) (tn (selfWidth a) (ideal ρ a)) n)
  | .signed a, W, sg =>
    fitsV ρ a (selfWidth a) (selfSigned a) && fitsAt (selfWidth a) W sg (toS (selfWidth a) (tn (selfWidth a) (ideal ρ a)))
def fitsConcat (ρ : Nat → Int) : List VExpr → Bool
  | [] => true
  | e :: es => fitsV ρ e (selfWidth e) (selfSigned e) && fitsConcat ρ es
end

end Litex.C01
