import LitexModel.Verilog.Expr
/-
  C01 — the procedural subset of Verilog emitted by `litex/gen/fhdl/verilog.py`: non-blocking assignments to
  identifiers, bit/part selects and concatenations of those, `if`/`else`, `case` with `default`, inside
  `always @(*)` and `always @(posedge clk)` blocks, and continuous `assign`.  TRUSTED formalisation of
  IEEE 1364-2005 §9.2.2 (non-blocking assignment: right-hand sides are evaluated with the values at block
  entry, the updates are applied afterwards in the order they were scheduled), §9.4 (`if`: condition
  self-determined, true iff non-zero) and §9.5 (`case`: the case expression and all item expressions are
  brought to the size of the largest, signed only if all are signed; first match in source order wins).
-/
namespace Litex.C01

mutual
inductive VStmt
  | nba (l r : VExpr)                                     -- `l <= r;`
  | ite (c : VExpr) (t : VStmts) (hasElse : Bool) (f : VStmts)
  | case (test : VExpr) (items : VItems) (hasDflt : Bool) (dflt : VStmts)
inductive VStmts
  | nil
  | cons (s : VStmt) (ss : VStmts)
inductive VItems
  | nil
  | cons (k : VExpr) (body : VStmts) (rest : VItems)
end

instance : Inhabited VStmts := ⟨.nil⟩
instance : Inhabited VItems := ⟨.nil⟩

/-- A scheduled non-blocking update: bits `[lo, lo+len)` of signal `id` := low `len` bits of `bits`. -/
structure Upd where
  id : Nat
  lo : Nat
  len : Nat
  bits : Int
  deriving Repr, DecidableEq, Inhabited

/-- Scheduled updates, newest first. -/
abbrev Pending := List Upd

/-- Schedule an update of an identifier or a bit/part select of an identifier with the low bits of `v`. -/
def nbaLeaf : VExpr → Int → Pending → Pending
  | .id i w _, v, p => ⟨i, 0, w, tn w v⟩ :: p
  | .psel (.id i _ _) hi lo, v, p => ⟨i, lo, hi - lo + 1, tn (hi - lo + 1) v⟩ :: p
  | .bsel (.id i _ _) k, v, p => ⟨i, k, 1, tn 1 v⟩ :: p
  | .concat [.id i w _], v, p => ⟨i, 0, w, tn w v⟩ :: p          -- `{x}` (nested in a concatenation target)
  | _, _, p => p

/-- Elements of a concatenation target, least significant element first. -/
def nbaConcatL : List VExpr → Int → Pending → Pending
  | [], _, p => p
  | x :: xs, v, p => nbaConcatL xs (v / p2 (selfWidth x)) (nbaLeaf x v p)

/-- Schedule `lhs <= v`.  A concatenation target `{e0, …, ek}` (flat: identifiers and selects) receives the
    value split at the element widths, `ek` taking the least significant bits; the parts of one concatenation
    are scheduled from the least significant end (the standard leaves the order among the parts of a single
    lvalue open; it only matters if the same bits occur twice). -/
def nbaAssign : VExpr → Int → Pending → Pending
  | .concat l, v, p => nbaConcatL l.reverse v p
  | e, v, p => nbaLeaf e v p

/-- Size and type of a `case` statement: maximum width of the case expression and all items, signed iff
    all are signed. -/
def itemsWidth : VItems → Nat
  | .nil => 0
  | .cons k _ rest => max (selfWidth k) (itemsWidth rest)

def itemsSigned : VItems → Bool
  | .nil => true
  | .cons k _ rest => selfSigned k && itemsSigned rest

mutual
def execV (ρ : Nat → Int) : VStmt → Pending → Pending
  | .nba l r, p => nbaAssign l (assignV ρ (selfWidth l) r) p
  | .ite c t _ f, p =>
    if evalV ρ (selfWidth c) (selfSigned c) c ≠ 0 then execVs ρ t p else execVs ρ f p
  | .case test items hasD d, p =>
    let W := max (selfWidth test) (itemsWidth items)
    let sg := selfSigned test && itemsSigned items
    match execVItems ρ W sg (evalV ρ W sg test) items p with
    | some p' => p'
    | none => if hasD then execVs ρ d p else p
def execVs (ρ : Nat → Int) : VStmts → Pending → Pending
  | .nil, p => p
  | .cons s ss, p => execVs ρ ss (execV ρ s p)
def execVItems (ρ : Nat → Int) (W : Nat) (sg : Bool) (tv : Int) : VItems → Pending → Option Pending
  | .nil, _ => none
  | .cons k body rest, p =>
    if evalV ρ W sg k = tv then some (execVs ρ body p) else execVItems ρ W sg tv rest p
end

/-- New bits of a `w`-bit signal holding `cur` after update `u`. -/
def applyUpd1 (w : Nat) (cur : Int) (u : Upd) : Int :=
  tn w (cur - tn u.len (cur / p2 u.lo) * p2 u.lo + tn u.len u.bits * p2 u.lo)

/-- Bits of signal `i` (width `w`, current bits `cur`) after all scheduled updates, oldest first. -/
def applyPending (i w : Nat) (cur : Int) : Pending → Int
  | [] => cur
  | u :: p => if u.id = i then applyUpd1 w (applyPending i w cur p) u else applyPending i w cur p

end Litex.C01
