import LitexModel.Clock.Gowin
/-
  Model of `GW5APLL.compute_config` (litex/soc/cores/clock/gowin_gw5a.py) over exact rationals: the Python search with
  the floats replaced by their exact rational values, SAME iteration order

      for idiv in range(1, 64):            # skipped when clkin/idiv is outside the PFD window
        for fdiv in range(1, 64):
          for mdiv in range(2, 128):       # vco = clkin/idiv*fdiv*mdiv, tested against the VCO window FIRST
            for (f, p, m) in clkouts:      # odiv = round(vco/f) ... (no `break`: every output is always visited)

  followed by the best-of pass (first candidate, in iteration order, with the strictly smallest sum of `diff`).

  Exceptions.  `out_freq = vco_freq/odiv` raises ZeroDivisionError when `odiv = round(vco_freq/f) = 0` (and `vco_freq/f`
  itself raises it when `f = 0`; the model folds that case into "odiv = 0").  Python raises at the FIRST such
  (idiv, fdiv, mdiv, output) in iteration order; because nothing else can stop the loops, the whole call raises exactly
  when SOME in-window triple has SOME output with `odiv = 0`.  The model uses that simplification: `Res.crash` is an
  absorbing value of the fold accumulator, so `wSearch = .crash` iff such a triple exists (`wSearch_crash_iff`).
  No kept candidate: `Res.rejected` (ValueError "No PLL config found").  `Res.assertion` is never produced.

  The primitive's ODIVx_SEL range is 1..128 (`gw5aOdivMax`); `compute_config` never checks it
  (open finding C20-gw5a-odiv-unchecked), hence the two specification predicates `WValidNoOdiv` / `WValid`.
-/
namespace Litex.Clock

structure WDev where
  pfdMin : Q
  pfdMax : Q
  vcoMin : Q
  vcoMax : Q
  nmax   : Nat
deriving Repr, DecidableEq, Inhabited

structure WReq where
  clkin     : Q
  vcoMargin : Q
  outs      : List Out
deriving Repr, DecidableEq

/-- `config["odivN"]`, `config["diffN"]`, `config["peN"]`, `config["peN_fine"]`. -/
structure WOut where
  odiv   : Nat
  diff   : Q
  pe     : Int
  peFine : Int
deriving Repr, DecidableEq, Inhabited

structure WCfg where
  idiv : Nat
  fdiv : Nat
  mdiv : Nat
  outs : List WOut
deriving Repr, DecidableEq, Inhabited

/-- ODIVx_SEL of PLLA / PLL is 1..128 (UG306); never checked by `compute_config`. -/
def gw5aOdivMax : Nat := 128

/-- `vco_freq = clkin/idiv*fdiv*mdiv`. -/
@[inline] def wVco (clkin : Q) (idiv fdiv mdiv : Nat) : Q := ((clkin.divNat idiv).mulNat fdiv).mulNat mdiv

def WCfg.vco (r : WReq) (c : WCfg) : Q := wVco r.clkin c.idiv c.fdiv c.mdiv

/-- `odiv = round(vco_freq/f)` (Python round: ties to even; the value is non-negative).  `f = 0` (ZeroDivisionError
    of `vco_freq/f`) is mapped to 0, the value on which the model reports the ZeroDivisionError. -/
@[inline] def wOdiv (vco f : Q) : Nat := if f.num = 0 then 0 else (SQ.round (vco.div f).toSQ).toNat

/-- `diff = abs(vco_freq/odiv - f) / f`. -/
@[inline] def wDiff (vco : Q) (odiv : Nat) (f : Q) : Q := ((vco.divNat odiv).absDiff f).div f

/-- `p*odiv/360`. -/
@[inline] def wPhaseSteps (p : SQ) (odiv : Nat) : SQ := (p.mulNat odiv).divNat 360

/-- `abs((360.0 * pe / odiv) - p) / 360` with `pe = round(p*odiv/360)`:
    `360*pe/odiv - p = (360*pe*p.den - p.num*odiv) / (odiv*p.den)`. -/
@[inline] def wPhaseErr (p : SQ) (odiv : Nat) : Q :=
  let pe : Int := SQ.round (wPhaseSteps p odiv)
  ⟨(360 * pe * (p.den : Int) - p.num * (odiv : Int)).natAbs, odiv * p.den * 360⟩

/-- `int(p * odiv / 360)` (truncation toward zero). -/
@[inline] def wPe (p : SQ) (odiv : Nat) : Int := SQ.trunc (wPhaseSteps p odiv)

/-- `round(p * odiv * 8 / 360) % 8` (Python `%`: result in 0..7). -/
@[inline] def wPeFine (p : SQ) (odiv : Nat) : Int := SQ.round (((p.mulNat odiv).mulNat 8).divNat 360) % 8

/-- One output at one in-window VCO: `.crash` = ZeroDivisionError, `.rejected` = `okay = False`,
    `.ok` = the four config entries. -/
def wOut (vco : Q) (o : Out) : Res WOut :=
  let odiv := wOdiv vco o.freq
  if odiv = 0 then .crash else
  let diff := wDiff vco odiv o.freq
  if o.margin.lt (wPhaseErr o.phase odiv) || o.margin.lt diff then .rejected else
  .ok ⟨odiv, diff, wPe o.phase odiv, wPeFine o.phase odiv⟩

/-- Combination of one output with the remaining ones: an exception anywhere wins (there is no `break`), then
    `okay = False` anywhere, else the list of entries. -/
def Res.consW {α : Type} : Res α → Res (List α) → Res (List α)
  | .crash, _ => .crash
  | _, .crash => .crash
  | .ok a, .ok l => .ok (a :: l)
  | _, _ => .rejected

def wOuts (vco : Q) : List Out → Res (List WOut)
  | [] => .ok []
  | o :: os => (wOut vco o).consW (wOuts vco os)

/-- `curr_diff_sum = 0; curr_diff_sum += config["diffN"]` in output order. -/
def wSum (outs : List WOut) : Q := outs.foldl (fun s o => s.add o.diff) Q.zero

/-- One (idiv, fdiv, mdiv) whose PFD already passed; `lo`/`hi` are the VCO window bounds
    `vco_min*(1+vco_margin)`, `vco_max*(1-vco_margin)` (hoisted out of the loops).
    `.rejected` = nothing appended to `configs`, `.ok (config, diff sum)` = appended. -/
def wTry (r : WReq) (lo hi : Q) (idiv fdiv mdiv : Nat) : Res (WCfg × Q) :=
  let vco := wVco r.clkin idiv fdiv mdiv
  if lo.le vco && vco.le hi then
    match wOuts vco r.outs with
    | .ok outs => .ok (⟨idiv, fdiv, mdiv, outs⟩, wSum outs)
    | .crash => .crash
    | _ => .rejected
  else .rejected

/-- Accumulator update: `.rejected` = no candidate yet, `.ok best`, `.crash` absorbing.
    `curr_diff_sum < best_diff_sum` is strict: an equal later sum does not replace. -/
def wMerge (acc x : Res (WCfg × Q)) : Res (WCfg × Q) :=
  match acc with
  | .crash => .crash
  | .ok b =>
    match x with
    | .crash => .crash
    | .ok y => if y.2.lt b.2 then x else acc
    | _ => acc
  | _ =>
    match x with
    | .crash => .crash
    | .ok _ => x
    | _ => acc

/-- PFD test of one `idiv` (`continue` when it fails). -/
@[inline] def wPfdSkip (d : WDev) (r : WReq) (idiv : Nat) : Bool :=
  let pfd := r.clkin.divNat idiv
  pfd.lt d.pfdMin || d.pfdMax.lt pfd

@[inline] def wLo (d : WDev) (r : WReq) : Q := d.vcoMin.mul (Q.one.add r.vcoMargin)
@[inline] def wHi (d : WDev) (r : WReq) : Q := d.vcoMax.mul (Q.one.subT r.vcoMargin)

/-- The whole loop nest for one `idiv`, threading the accumulator. -/
def wIdiv (d : WDev) (r : WReq) (lo hi : Q) (acc : Res (WCfg × Q)) (idiv : Nat) : Res (WCfg × Q) :=
  if wPfdSkip d r idiv then acc else
  (pyRange 1 64).foldl (fun acc fdiv =>
    (pyRange 2 128).foldl (fun acc mdiv => wMerge acc (wTry r lo hi idiv fdiv mdiv)) acc) acc

/-- Accumulator after all loops (best candidate with its diff sum). -/
def wSearchAcc (d : WDev) (r : WReq) : Res (WCfg × Q) :=
  let lo := wLo d r
  let hi := wHi d r
  (pyRange 1 64).foldl (wIdiv d r lo hi) .rejected

def Res.mapW {α β : Type} (f : α → β) : Res α → Res β
  | .ok a => .ok (f a)
  | .rejected => .rejected
  | .assertion => .assertion
  | .crash => .crash

/-- `GW5APLL.compute_config`. -/
def wSearch (d : WDev) (r : WReq) : Res WCfg := (wSearchAcc d r).mapW (·.1)

/-- The (idiv, fdiv, mdiv) triples reaching the VCO test, in iteration order (specification device: the executable
    search folds the ranges directly, `wSearchAcc_eq_grid` ties the two). -/
def wGrid (d : WDev) (r : WReq) : List (Nat × Nat × Nat) :=
  (pyRange 1 64).flatMap fun idiv =>
    if wPfdSkip d r idiv then [] else
    (pyRange 1 64).flatMap fun fdiv => (pyRange 2 128).map fun mdiv => (idiv, fdiv, mdiv)

/-! ## Specification -/

/-- Per-output conclusion: a non-zero divider, `|vco/odiv - f| <= f*m`, the phase-step rounding error within the
    margin (the code's own test), and the recorded entries are the code's formulas. -/
def WOutOk (vco : Q) (o : Out) (w : WOut) : Prop :=
  1 ≤ w.odiv ∧ within (vco.divNat w.odiv) o = true ∧ o.margin.lt (wPhaseErr o.phase w.odiv) = false ∧
  w.diff = wDiff vco w.odiv o.freq ∧ w.pe = wPe o.phase w.odiv ∧ w.peFine = wPeFine o.phase w.odiv

instance (vco : Q) (o : Out) (w : WOut) : Decidable (WOutOk vco o w) := by
  unfold WOutOk; infer_instance

/-- IDIV/FBDIV in 1..63, MDIV in 2..127, PFD = clkin/idiv and VCO = clkin/idiv*fdiv*mdiv inside their windows, one
    entry per requested output, each `WOutOk`.  Everything except the ODIV range of the primitive. -/
def WValidNoOdiv (d : WDev) (r : WReq) (c : WCfg) : Prop :=
  c.idiv ∈ pyRange 1 64 ∧ c.fdiv ∈ pyRange 1 64 ∧ c.mdiv ∈ pyRange 2 128 ∧
  inRange d.pfdMin d.pfdMax (r.clkin.divNat c.idiv) = true ∧
  inRangeM d.vcoMin d.vcoMax r.vcoMargin (c.vco r) = true ∧
  c.outs.length = r.outs.length ∧
  ∀ p ∈ r.outs.zip c.outs, WOutOk (c.vco r) p.1 p.2

/-- … and every ODIV inside the primitive's 1..128. -/
def WValid (d : WDev) (r : WReq) (c : WCfg) : Prop :=
  WValidNoOdiv d r c ∧ ∀ o ∈ c.outs, o.odiv ≤ gw5aOdivMax

instance (d : WDev) (r : WReq) (c : WCfg) : Decidable (WValidNoOdiv d r c) := by
  unfold WValidNoOdiv; infer_instance
instance (d : WDev) (r : WReq) (c : WCfg) : Decidable (WValid d r c) := by
  unfold WValid; infer_instance

/-- GW5A-25 (`device.startswith('GW5A-')`): pfd 19e6..400e6, vco 800e6..1600e6, 7 outputs. -/
def gw5a25 : WDev := ⟨⟨19000000, 1⟩, ⟨400000000, 1⟩, ⟨800000000, 1⟩, ⟨1600000000, 1⟩, 7⟩

/-- GW5AT / GW5AST devices: pfd 10e6..400e6 and (the first `startswith('GW5A-')` branch does not match them)
    vco 800e6..2000e6. -/
def gw5at : WDev := ⟨⟨10000000, 1⟩, ⟨400000000, 1⟩, ⟨800000000, 1⟩, ⟨2000000000, 1⟩, 7⟩

/-- `fractions.Fraction(1e-2)`: the exact value of the default `margin=1e-2`. -/
def wMargin1e2 : Q := ⟨5764607523034235, 576460752303423488⟩

/-- Negative witness of C20-gw5a-odiv-unchecked: 50 MHz in, one 5 MHz output (phase 0, margin 1e-2), vco_margin 0 on a
    GW5A-25.  Every in-window VCO is >= 800 MHz, so `odiv = round(vco/5e6) >= 160 > 128`. -/
def wWitReq : WReq := ⟨⟨50000000, 1⟩, ⟨0, 1⟩, [⟨⟨5000000, 1⟩, ⟨0, 1⟩, wMargin1e2⟩]⟩
/-- What `compute_config` returns for `wWitReq`: idiv 1, fdiv 1, mdiv 16 (vco 800 MHz), ODIV0_SEL = 160. -/
def wWitCfg : WCfg := ⟨1, 1, 16, [⟨160, ⟨0, 800000000⟩, 0, 0⟩]⟩

/-- Non-vacuity: 50 MHz in, one 100 MHz output. -/
def wOkReq : WReq := ⟨⟨50000000, 1⟩, ⟨0, 1⟩, [⟨⟨100000000, 1⟩, ⟨0, 1⟩, wMargin1e2⟩]⟩
def wOkCfg : WCfg := ⟨1, 1, 16, [⟨8, ⟨0, 800000000⟩, 0, 0⟩]⟩

end Litex.Clock
