import LitexModel.Clock.Q
/-
  Model of `IntelClocking.compute_config` (intel_common.py; Cyclone IV / V / 10LP, MAX10, Stratix V), a
  best-of search:

      min_n = max(ceil(clkin/pfd_max), n_lo);  max_n = min(floor(clkin/pfd_min)+1, n_hi)
      for n in range(min_n, max_n):  for m in range(*m_div_range):
        vco = clkin*m/n;  if vmin*(1+vm) <= vco <= vmax*(1-vm):
          per output: best c (strictly smaller |vco/c - f| wins, must be <= f*margin)
          if all outputs valid: valid_configs[geometric_mean(diff/f)] = config      # same key: LAST wins
      best = smallest key
  In exact arithmetic the geometric means (same number of factors) are ordered like the products of the ratios.
-/
namespace Litex.Clock

structure ADev where
  nLo    : Nat
  nHi    : Nat
  mLo    : Nat
  mHi    : Nat
  cs     : DivRange
  pfdMin : Q
  pfdMax : Q
  vcoMin : Q
  vcoMax : Q
  nmax   : Nat
deriving Repr, DecidableEq, Inhabited

structure AReq where
  clkin     : Q
  vcoMargin : Q
  outs      : List Out
deriving Repr, DecidableEq

structure ACfg where
  n  : Nat
  m  : Nat
  cs : List Q
deriving Repr, DecidableEq

/-- The `for c in clkdiv_range_list` loop of one output: `acc` = (best c, its |vco/c - f|) so far; a candidate
    replaces it only when within margin AND strictly better, so the FIRST minimal one is kept. -/
def aBestGo (vco : Q) (o : Out) (lim : Q) : List Q → Option (Q × Q) → Option (Q × Q)
  | [], acc => acc
  | c :: rest, acc =>
    let diff := (vco.div c).absDiff o.freq
    let better := match acc with
      | none => true
      | some (_, bd) => diff.lt bd
    if diff.le lim && better then aBestGo vco o lim rest (some (c, diff)) else aBestGo vco o lim rest acc

/-- Best divider of one output: (c, diff/f). -/
def aBest (cs : List Q) (vco : Q) (o : Out) : Option (Q × Q) :=
  (aBestGo vco o (o.freq.mul o.margin) cs none).map fun (c, diff) => (c, diff.div o.freq)

def aOuts (cs : List Q) (vco : Q) : List Out → Option (List (Q × Q))
  | [] => some []
  | o :: os =>
    match aBest cs vco o with
    | none => none
    | some x => (aOuts cs vco os).map (x :: ·)

def aNRange (d : ADev) (r : AReq) : List Nat :=
  let minN := max ((r.clkin.div d.pfdMax).ceil) d.nLo
  let maxN := min ((r.clkin.div d.pfdMin).floor + 1) d.nHi
  pyRange minN maxN

def aTry (d : ADev) (r : AReq) (cs : List Q) (n m : Nat) : Option (ACfg × Q) :=
  let vco := (r.clkin.mulNat m).divNat n
  if inRangeM d.vcoMin d.vcoMax r.vcoMargin vco then
    (aOuts cs vco r.outs).map fun l => (⟨n, m, l.map (·.1)⟩, l.foldl (fun acc x => acc.mul x.2) Q.one)
  else none

/-- One step of the best-of fold: a later configuration with a smaller OR EQUAL key replaces the best so far. -/
def aStep (d : ADev) (r : AReq) (cs : List Q) (acc : Option (ACfg × Q)) (nm : Nat × Nat) : Option (ACfg × Q) :=
  match aTry d r cs nm.1 nm.2 with
  | none => acc
  | some (c, key) =>
    match acc with
    | none => some (c, key)
    | some (_, bk) => if key.le bk then some (c, key) else acc

def aGrid (d : ADev) (r : AReq) : List (Nat × Nat) :=
  (aNRange d r).flatMap fun n => (pyRange d.mLo d.mHi).map fun m => (n, m)

/-- `none` = `ValueError("No PLL config found")`. -/
def aSearch (d : ADev) (r : AReq) : Option ACfg :=
  ((aGrid d r).foldl (aStep d r d.cs.toList) none).map (·.1)

/-- VCO recomputed from a configuration: `clkin*m/n`. -/
def ACfg.vco (r : AReq) (c : ACfg) : Q := (r.clkin.mulNat c.m).divNat c.n

/-- `CLKn_PHASE_SHIFT = int((1e12/clk_freq)*phase/360)`: the phase as a fraction of THAT OUTPUT's period, in ps
    (truncated toward zero). -/
def aPhasePs (freq : Q) (phase : SQ) : Int :=
  SQ.trunc ⟨(10 ^ 12 * freq.den : Nat) * phase.num, freq.num * phase.den * 360⟩

/-- ALTPLL parameters: per output `CLKn_DIVIDE_BY = c*n`, `CLKn_MULTIPLY_BY = m`,
    `CLKn_PHASE_SHIFT` from the output's recomputed frequency `vco/c`. -/
def aParams (r : AReq) (c : ACfg) : List (Q × Nat × Int) :=
  (c.cs.zip r.outs).map fun (cv, o) => (cv.mulNat c.n, c.m, aPhasePs ((c.vco r).div cv) o.phase)

end Litex.Clock
