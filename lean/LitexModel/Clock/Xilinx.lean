import LitexModel.Clock.Q
/-
  Model of `XilinxClocking.compute_config` (xilinx_common.py; used by S6PLL, S6DCM, S7PLL, S7MMCM, USPLL, USMMCM,
  USPPLL) and of the overriding `USPMMCM.compute_config` (xilinx_usp.py), over exact rationals.

  Python (generic):
      for divclk_divide in range(*divclk_divide_range):
        for clkfbout_mult in reversed(range(*clkfbout_mult_frange)):
          vco = clkin*mult/divclk ; if vmin*(1+vm) <= vco <= vmax*(1-vm):
            for n,(f,p,m) in sorted(clkouts):  d_ranges = [clkout_divide_range] (+ [clkout{n}_divide_range])
              for d_range in d_ranges:
                for d in clkdiv_range(*d_range):
                  if abs(vco/d - f) <= f*m: record d; valid = True; break
                  if valid: break            # <- inside the inner loop: once an earlier range matched, only the
                                             #    HEAD of each later range is looked at (and overrides if it matches)
          if all valid: return config
      raise ValueError
  USPMMCM: multipliers x/8 (x = 16..1024, descending); dividers of output 0 are x/8 (x = 16..1024), of the others
  the common range (+ specific), scanned as one list; test `math.isclose(vco/d, f, rel_tol=m)`.
-/
namespace Litex.Clock

/-- Device table of one Xilinx clocking class / speed grade (regenerated into `Generated/ClockRanges.lean`). -/
structure XDev where
  divclkLo : Nat
  divclkHi : Nat
  mults    : DivRange                  -- iterated in DESCENDING order
  vcoMin   : Q
  vcoMax   : Q
  common   : DivRange                  -- clkout_divide_range
  specific : List (Option DivRange)    -- clkout{n}_divide_range, by output index
  out0     : Option DivRange           -- USPMMCM: replaces every range of output 0
  usp      : Bool                      -- USPMMCM flavour (isclose test, plain first match over the concatenation)
  nmax     : Nat
deriving Repr, DecidableEq, Inhabited

structure XReq where
  clkin     : Q
  vcoMargin : Q
  outs      : List Out
deriving Repr, DecidableEq

structure XCfg where
  divclk : Nat
  mult   : Q
  ds     : List Q
deriving Repr, DecidableEq

namespace XDev

def divclks (d : XDev) : List Nat := pyRange d.divclkLo d.divclkHi
def multList (d : XDev) : List Q := d.mults.toList.reverse

/-- The divider ranges scanned for output `n`, in scan order. -/
def rangesFor (d : XDev) (n : Nat) : List (List Q) :=
  match n, d.out0 with
  | 0, some r => [r.toList]
  | _, _ =>
    d.common.toList :: (match d.specific[n]? with
                        | some (some r) => [r.toList]
                        | _ => [])

/-- The per-divider acceptance test (`isclose (vco/d) o` for USPMMCM, `within (vco/d) o` otherwise; the
    thresholds that do not depend on the divider are computed once per output — see `ok_eq`). -/
def ok (d : XDev) (vco : Q) (o : Out) : Q → Bool :=
  if d.usp then
    let t := o.margin.mul o.freq
    fun dv =>
      let clk := vco.div dv
      let df := clk.absDiff o.freq
      df.le t || df.le (o.margin.mul clk)
  else
    let t := o.freq.mul o.margin
    fun dv => ((vco.div dv).absDiff o.freq).le t

theorem ok_eq (d : XDev) (vco : Q) (o : Out) (dv : Q) :
    d.ok vco o dv = (if d.usp then isclose (vco.div dv) o else within (vco.div dv) o) := by
  unfold ok isclose within
  cases d.usp <;> rfl

end XDev

/-- One `for d_range in d_ranges` iteration of the generic code, with its misplaced `if valid: break`. -/
def scanQuirk (ok : Q → Bool) (acc : Option Q) (r : List Q) : Option Q :=
  match acc with
  | none => r.find? ok
  | some d =>
    match r with
    | d0 :: _ => if ok d0 then some d0 else some d
    | [] => some d

/-- USPMMCM: one list, first match. -/
def scanPlain (ok : Q → Bool) (acc : Option Q) (r : List Q) : Option Q :=
  match acc with
  | none => r.find? ok
  | some d => some d

/-- The divider chosen for output `n` at this VCO frequency, if any. -/
def xOut (d : XDev) (vco : Q) (n : Nat) (o : Out) : Option Q :=
  let ok := d.ok vco o
  (d.rangesFor n).foldl (if d.usp then scanPlain ok else scanQuirk ok) none

/-- Dividers for outputs `n, n+1, …` (`none` as soon as one output has no divider). -/
def xOuts (d : XDev) (vco : Q) : Nat → List Out → Option (List Q)
  | _, [] => some []
  | n, o :: os =>
    match xOut d vco n o with
    | none => none
    | some dv => (xOuts d vco (n + 1) os).map (dv :: ·)

@[inline] def xVco (r : XReq) (divclk : Nat) (mult : Q) : Q := (r.clkin.mul mult).divNat divclk

@[inline] def xVcoOk (d : XDev) (r : XReq) (vco : Q) : Bool := inRangeM d.vcoMin d.vcoMax r.vcoMargin vco

/-- Body of the two outer loops. -/
def xTry (d : XDev) (r : XReq) (divclk : Nat) (mult : Q) : Option XCfg :=
  let vco := xVco r divclk mult
  if xVcoOk d r vco then (xOuts d vco 0 r.outs).map (fun ds => ⟨divclk, mult, ds⟩) else none

/-- `compute_config`: `none` = `ValueError("No PLL config found")`. -/
def xSearch (d : XDev) (r : XReq) : Option XCfg :=
  d.divclks.findSome? fun dc => d.multList.findSome? fun m => xTry d r dc m

/-- VCO and output frequencies recomputed from a configuration. -/
def XCfg.vco (r : XReq) (c : XCfg) : Q := xVco r c.divclk c.mult
def XCfg.freqs (r : XReq) (c : XCfg) : List Q := c.ds.map fun dv => (c.vco r).div dv

/-! ### Instance parameters (`do_finalize`) -/

/-- Which primitive family `do_finalize` emits. -/
inductive XPrim | pll | mmcm | s6pll | s6dcm
deriving Repr, DecidableEq

/-- Numeric parameters placed on the instance, as (name, value) pairs: multiplier, input divider and per output
    divider + phase.  PLL: `CLKFBOUT_MULT`, `DIVCLK_DIVIDE`, `CLKOUTn_DIVIDE`, `CLKOUTn_PHASE`;
    MMCM: `CLKFBOUT_MULT_F`, `CLKOUT0_DIVIDE_F`; S6DCM: `CLKFX_MULTIPLY`, `CLKFX_DIVIDE = clkout0_divide*divclk`. -/
def xParams (p : XPrim) (r : XReq) (c : XCfg) : List (String × SQ) :=
  match p with
  | .s6dcm =>
    [("CLKFX_MULTIPLY", c.mult.toSQ), ("CLKFX_DIVIDE", ((c.ds.headD Q.zero).mulNat c.divclk).toSQ)]
  | _ =>
    let multName := if p = .mmcm then "CLKFBOUT_MULT_F" else "CLKFBOUT_MULT"
    let outs := (c.ds.zip r.outs).zipIdx.flatMap fun ((dv, o), n) =>
      [((if p = .mmcm ∧ n = 0 then s!"CLKOUT{n}_DIVIDE_F" else s!"CLKOUT{n}_DIVIDE"), dv.toSQ),
       (s!"CLKOUT{n}_PHASE", o.phase)]
    [(multName, c.mult.toSQ), ("DIVCLK_DIVIDE", (Q.ofNat c.divclk).toSQ)] ++ outs

end Litex.Clock
