import LitexModel.Clock.Emit
import LitexModel.Clock.Gw5a
/-
  C20 — the PLLA / PLL instance emitted by `GW5APLL.do_finalize` (complete item list, see Emit.lean for conventions).
-/
namespace Litex.Clock

/-- items of output slot `n` (0..6): a requested output carries its ODIV, coarse/fine phase and port; an unused slot keeps
    the defaults (ODIV 8, disabled, open). -/
def wSlotItems (n : Nat) (w : Option WOut) : Emit :=
  [ (s!"p_ODIV{n}_SEL", match w with | some x => pvNat x.odiv | none => .int 8),
    (s!"p_CLKOUT{n}_EN", .str (if w.isSome then "TRUE" else "FALSE")),
    (s!"p_CLKOUT{n}_PE_COARSE", .int (match w with | some x => x.pe | none => 0)),
    (s!"p_CLKOUT{n}_PE_FINE", .int (match w with | some x => x.peFine | none => 0)),
    (s!"p_DYN_PE{n}_SEL", .str "FALSE"), (s!"p_DE{n}_EN", .str "FALSE"),
    (s!"o_CLKOUT{n}", .tok (if w.isSome then clkTok n else "open")) ] ++
  (if n < 4 then [ (s!"p_CLKOUT{n}_DT_DIR", .int 1), (s!"p_CLKOUT{n}_DT_STEP", .int 0) ] else []) ++
  (if n < 6 then [ (s!"p_CLK{n}_IN_SEL", .int 0), (s!"p_CLK{n}_OUT_SEL", .int 0) ] else [])

def wPllItems (n : Nat) : Emit :=
  [ (s!"p_DYN_ODIV{n}_SEL", .str "FALSE"), (s!"i_ODSEL{n}", .tok "c0w7"), (s!"i_ENCLK{n}", .tok "c1w1") ] ++
  (if n < 4 then [ (s!"p_DYN_DT{n}_SEL", .str "FALSE"), (s!"i_DT{n}", .tok "c0w4") ] else [])

/-- `device` is the constructor argument: GW5A-* / GW5AT-* use PLLA, the others (GW5AST-*) PLL. -/
def wEmit (device : String) (r : WReq) (c : WCfg) : Emit :=
  let plla := device.startsWith "GW5A-" || device.startsWith "GW5AT-"
  [ ("of", .str (if plla then "PLLA" else "PLL")), ("p_IDIV_SEL", pvNat c.idiv), ("p_FBDIV_SEL", pvNat c.fdiv),
    ("p_MDIV_SEL", pvNat c.mdiv), ("p_FCLKIN", .fstr ⟨r.clkin.num, r.clkin.den * 1000000⟩), ("p_ODIV0_FRAC_SEL", .int 0),
    ("p_MDIV_FRAC_SEL", .int 0), ("p_CLKFB_SEL", .str "INTERNAL"), ("p_DYN_DPA_EN", .str "FALSE"), ("p_RESET_I_EN", .str "FALSE"),
    ("p_RESET_O_EN", .str "FALSE"), ("p_SSC_EN", .str "FALSE"), ("i_CLKIN", .tok "clkin"), ("i_CLKFB", .tok "c0w1"),
    ("i_RESET", .tok "reset"), ("i_PLLPWD", .tok "c0w1"), ("i_RESET_I", .tok "c0w1"), ("i_RESET_O", .tok "c0w1"),
    ("i_PSDIR", .tok "c0w1"), ("i_PSSEL", .tok "c0w3"), ("i_PSPULSE", .tok "c0w1"), ("i_SSCPOL", .tok "c0w1"),
    ("i_SSCON", .tok "c0w1"), ("i_SSCMDSEL", .tok "c0w7"), ("i_SSCMDSEL_FRAC", .tok "c0w3"), ("o_LOCK", .tok "locked"),
    ("o_CLKFBOUT", .tok "open") ] ++
  ((List.range 7).flatMap fun n => wSlotItems n c.outs[n]?) ++
  (if plla then
    [ ("i_MDCLK", .tok "c0w1"), ("i_MDOPC", .tok "c0w2"), ("i_MDAINC", .tok "c0w1"), ("i_MDWDI", .tok "c0w8") ]
   else
    [ ("p_DYN_IDIV_SEL", .str "FALSE"), ("p_DYN_FBDIV_SEL", .str "FALSE"), ("p_DYN_ICP_SEL", .str "FALSE"),
      ("p_DYN_LPF_SEL", .str "FALSE"), ("i_FBDSEL", .tok "c0w6"), ("i_IDSEL", .tok "c0w6"), ("i_MDSEL", .tok "c0w7"),
      ("i_MDSEL_FRAC", .tok "c0w3"), ("i_ODSEL0_FRAC", .tok "c0w3"), ("i_ICPSEL", .tok "c0w6"), ("i_LPFRES", .tok "c0w3"),
      ("i_LPFCAP", .tok "c0w2") ] ++ ((List.range 7).flatMap wPllItems))

theorem wEmit_get (device : String) (r : WReq) (c : WCfg) :
    (wEmit device r c).get "p_IDIV_SEL" = some (.int (c.idiv : Int)) ∧
    (wEmit device r c).get "p_FBDIV_SEL" = some (.int (c.fdiv : Int)) ∧
    (wEmit device r c).get "p_MDIV_SEL" = some (.int (c.mdiv : Int)) :=
  ⟨rfl, rfl, rfl⟩

/-- every output slot `n < 7` is emitted: a requested one with ITS odiv / phase words on port CLKOUT<n>. -/
theorem wEmit_slots (device : String) (r : WReq) (c : WCfg) (n : Nat) (hn : n < 7) :
    ∀ kv ∈ wSlotItems n c.outs[n]?, kv ∈ wEmit device r c := by
  intro kv hkv
  unfold wEmit
  refine List.mem_append_left _ (List.mem_append_right _ (List.mem_flatMap.mpr ⟨n, List.mem_range.mpr hn, hkv⟩))

theorem wSlotItems_spec (n : Nat) (w : WOut) :
    (s!"p_ODIV{n}_SEL", PV.int (w.odiv : Int)) ∈ wSlotItems n (some w) ∧
    (s!"p_CLKOUT{n}_PE_COARSE", PV.int w.pe) ∈ wSlotItems n (some w) ∧
    (s!"p_CLKOUT{n}_PE_FINE", PV.int w.peFine) ∈ wSlotItems n (some w) ∧
    (s!"p_CLKOUT{n}_EN", PV.str "TRUE") ∈ wSlotItems n (some w) ∧
    (s!"o_CLKOUT{n}", PV.tok (clkTok n)) ∈ wSlotItems n (some w) := by
  simp [wSlotItems, pvNat]

end Litex.Clock
