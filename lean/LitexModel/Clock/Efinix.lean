import LitexModel.Clock.Gowin
/-
  Model of `EFINIXPLL.compute_config` (efinix.py; only the Trion family computes anything: `do_finalize` returns
  immediately unless `platform.family == "Trion"`, so TITANIUMPLL has no search to model), over exact rationals:
  the floats of the Python code are replaced by `Q`, the iteration order and the selection rule are kept.

  Statuses (`Res`): `ok` a configuration, `assertion` = `assert len(final_list) != 0`, `crash` = any other exception
  (KeyError of `get_c_range` for a phase that is not in the table, ZeroDivisionError of
  `vco_range[0] / (fpfd_tmp * oc_max)` when no (O, Cfbk) pair is acceptable, IndexError/KeyError of a feedback index
  without output).  `rejected` is not produced by `tSearch` (it is used internally as "this candidate is dropped").

  Assumptions on the device table (all true of the real TRIONPLL table, see `TWf` in the proofs): every divider of
  the table is positive (a zero divider would be a ZeroDivisionError of `fpll_tmp / cx` in Python, which the model
  does not reproduce) and the PFD window has non-zero bounds (`clk_in_freq / pfd_range[0]`).
-/
namespace Litex.Clock

structure TDev where
  vcoMin : Q
  vcoMax : Q
  pfdMin : Q
  pfdMax : Q
  pllMin : Q
  pllMax : Q
  /-- phase 0: `range(c0Lo, c0Hi)` (Trion: 1, 257). -/
  c0Lo   : Nat
  c0Hi   : Nat
  /-- the dict of `get_c_range` for non-zero phases, in source order. -/
  cPhase : List (Int × List Nat)
  nmax   : Nat
deriving Repr, DecidableEq, Inhabited

/-- One requested output (frequency, phase in degrees); the margin argument of `create_clkout` is not used by
    `compute_config` (frequencies must match exactly). -/
structure TOut where
  freq  : Q
  phase : SQ
deriving Repr, DecidableEq, Inhabited

/-- `fb` = `block["feedback"]`, the index of the output created with `is_feedback=True`. -/
structure TReq where
  clkin : Q
  outs  : List TOut
  fb    : Nat
deriving Repr, DecidableEq, Inhabited

/-- N, M, O, Cfbk and CLKOUTi_DIV. -/
structure TCfg where
  n   : Nat
  m   : Nat
  o   : Nat
  cfb : Nat
  cs  : List Nat
deriving Repr, DecidableEq, Inhabited

/-- `get_c_range(device, phase)`: `none` = KeyError.  (`phase == 0` for the value 0; a float key `90.0` finds the
    int key `90`: the phase must be the integer value of a key.) -/
def tCRange (d : TDev) (p : SQ) : Option (List Nat) :=
  if p.num = 0 then some (pyRange d.c0Lo d.c0Hi)
  else (d.cPhase.find? fun kv => decide (p.num = kv.1 * (p.den : Int))).map (·.2)

/-- The same as a list (empty for a missing key); used by the specification. -/
def tCRangeL (d : TDev) (p : SQ) : List Nat := (tCRange d p).getD []

/-- `O_fact` (post divider): O = 1 only with a single output. -/
def tOFact (nOut : Nat) : List Nat := if nOut > 1 then [2, 4, 8] else [1, 2, 4, 8]

@[inline] def tNMin (d : TDev) (r : TReq) : Nat := max 1 (r.clkin.div d.pfdMax).ceil
@[inline] def tNMax (d : TDev) (r : TReq) : Nat := min 15 (r.clkin.div d.pfdMin).floor

/-- `fpfd_tmp * m * o * c`. -/
@[inline] def tVco (r : TReq) (n m o c : Nat) : Q := (((r.clkin.divNat n).mulNat m).mulNat o).mulNat c

def TCfg.vco (r : TReq) (c : TCfg) : Q := tVco r c.n c.m c.o c.cfb
def TCfg.pll (r : TReq) (c : TCfg) : Q := (c.vco r).divNat c.o

/-- `oc_range`: all `[o, c]` (in order: c outer, o inner) with `ffb*c` inside the PLL window and `ffb*o*c` inside
    the VCO window. -/
def tOcRange (d : TDev) (nOut : Nat) (ffb : Q) (cr : List Nat) : List (Nat × Nat) :=
  cr.flatMap fun c =>
    let fpll := ffb.mulNat c
    if fpll.lt d.pllMin || d.pllMax.lt fpll then [] else
    (tOFact nOut).filterMap fun o =>
      if inRange d.vcoMin d.vcoMax (ffb.mulNat (o * c)) then some (o, c) else none

/-- `oc_max` (initial value 0) and `oc_min` (initial value 256*8). -/
def tOcMax (ocs : List (Nat × Nat)) : Nat := ocs.foldl (fun a p => max a (p.1 * p.2)) 0
def tOcMin (ocs : List (Nat × Nat)) : Nat := ocs.foldl (fun a p => min a (p.1 * p.2)) 2048

/-- The `cx` loops of one candidate: outputs in index order from index `i`; for the feedback output only `cx = c`
    is tried; the first `cx` of the range with `fpll/cx == freq` exactly is taken.
    `.rejected` = an output has no divider (candidate dropped), `.crash` = KeyError of `get_c_range`. -/
def tOuts (d : TDev) (fpll : Q) (c fb : Nat) : Nat → List TOut → Res (List Nat)
  | _, [] => .ok []
  | i, o :: os =>
    match tCRange d o.phase with
    | none => .crash
    | some cr =>
      match cr.find? (fun cx => (i != fb || cx == c) && (fpll.divNat cx).beq o.freq) with
      | none => .rejected
      | some cx => (tOuts d fpll c fb (i + 1) os).consPin cx

/-- Body of the three loops (n, m, [o, c]): `.rejected` = no candidate produced. -/
def tTry (d : TDev) (r : TReq) (n m : Nat) (oc : Nat × Nat) : Res TCfg :=
  let fvco := tVco r n m oc.1 oc.2
  if inRange d.vcoMin d.vcoMax fvco && decide (m * oc.1 * oc.2 ≤ 255) then
    match tOuts d (fvco.divNat oc.1) oc.2 r.fb 0 r.outs with
    | .ok cs => .ok ⟨n, m, oc.1, oc.2, cs⟩
    | .crash => .crash
    | _ => .rejected
  else .rejected

@[inline] def tIsRej {α : Type} : Res α → Bool
  | .rejected => true
  | _ => false
@[inline] def tIsCrash {α : Type} : Res α → Bool
  | .crash => true
  | _ => false
@[inline] def tOk? {α : Type} : Res α → Option α
  | .ok a => some a
  | _ => none

@[inline] def tMMin (d : TDev) (r : TReq) (n ocMax : Nat) : Nat :=
  max 1 (d.vcoMin.div ((r.clkin.divNat n).mulNat ocMax)).ceil
@[inline] def tMMax (d : TDev) (r : TReq) (n ocMin : Nat) : Nat :=
  min 255 (d.vcoMax.div ((r.clkin.divNat n).mulNat ocMin)).floor

/-- `params_list` in iteration order (entries `.ok cfg`), interleaved with the `.crash` markers of the KeyErrors
    reached on the way. -/
def tCands (d : TDev) (r : TReq) (ocs : List (Nat × Nat)) : List (Res TCfg) :=
  (pyRange (tNMin d r) (tNMax d r + 1)).flatMap fun n =>
    (pyRange (tMMin d r n (tOcMax ocs)) (tMMax d r n (tOcMin ocs) + 1)).flatMap fun m =>
      (ocs.map (tTry d r n m)).filter (fun t => !tIsRej t)

/-- State of the selection loop: `vco_max_freq`, `o_div_max`, `params_list2` (most recent first). -/
structure TSel where
  vmax : Q
  omax : Nat
  l2   : List TCfg
deriving Repr, DecidableEq

def tSelStep (r : TReq) (s : TSel) (p : TCfg) : TSel :=
  let fv := p.vco r
  let s1 : TSel := if s.vmax.lt fv then ⟨fv, 0, []⟩ else s
  if fv.beq s1.vmax then ⟨s1.vmax, max s1.omax p.o, p :: s1.l2⟩ else s1

/-- highest VCO, then highest O, then the first in iteration order. -/
def tSelect (r : TReq) (l : List TCfg) : Option TCfg :=
  let s := l.foldl (tSelStep r) ⟨Q.zero, 0, []⟩
  s.l2.reverse.find? fun p => p.o == s.omax

def tSearch (d : TDev) (r : TReq) : Res TCfg :=
  match r.outs[r.fb]? with
  | none => .crash
  | some fbo =>
    match tCRange d fbo.phase with
    | none => .crash
    | some cr =>
      let ocs := tOcRange d r.outs.length fbo.freq cr
      if tNMin d r ≤ tNMax d r ∧ ocs = [] then .crash      -- vco_range[0] / (fpfd_tmp * 0)
      else
        let cands := tCands d r ocs
        if cands.any tIsCrash then .crash
        else
          match tSelect r (cands.filterMap tOk?) with
          | none => .assertion
          | some c => .ok c

/-! ## Specification -/

/-- N in 1..15, M in 1..255, O a legal post divider, PFD = clkin/N, VCO = PFD*M*O*Cfbk and PLL = VCO/O inside
    their declared windows, M*O*Cfbk ≤ 255, one divider per output, each in the range of its phase and giving
    exactly the requested frequency, and the divider of the feedback output is Cfbk. -/
def TValid (d : TDev) (r : TReq) (c : TCfg) : Prop :=
  1 ≤ c.n ∧ c.n ≤ 15 ∧ 1 ≤ c.m ∧ c.m ≤ 255 ∧ c.o ∈ tOFact r.outs.length ∧
  inRange d.pfdMin d.pfdMax (r.clkin.divNat c.n) = true ∧
  inRange d.vcoMin d.vcoMax (c.vco r) = true ∧
  inRange d.pllMin d.pllMax (c.pll r) = true ∧
  c.m * c.o * c.cfb ≤ 255 ∧ c.cs.length = r.outs.length ∧
  (∀ p ∈ r.outs.zip c.cs, p.2 ∈ tCRangeL d p.1.phase ∧ ((c.pll r).divNat p.2).beq p.1.freq = true) ∧
  c.cs[r.fb]? = some c.cfb

instance (d : TDev) (r : TReq) (c : TCfg) : Decidable (TValid d r c) := by
  unfold TValid; infer_instance

/-- The declared TRIONPLL table. -/
def trionDev : TDev :=
  { vcoMin := ⟨500000000, 1⟩, vcoMax := ⟨3600000000, 1⟩, pfdMin := ⟨10000000, 1⟩, pfdMax := ⟨100000000, 1⟩,
    pllMin := ⟨62500000, 1⟩, pllMax := ⟨1800000000, 1⟩, c0Lo := 1, c0Hi := 257,
    cPhase := [(45, [4]), (90, [2, 4, 6]), (135, [4]), (180, [2]), (270, [2])], nmax := 3 }

end Litex.Clock
