import LitexModel.Clock.Xilinx
import LitexModel.Clock.Lattice
import LitexModel.Clock.Intel
import LitexModel.Clock.Gowin
/-
  C20 specification predicates: `…Valid dev req cfg` is the conclusion of the property for one vendor —
  "every requested output frequency, recomputed from the returned multipliers and dividers, is within its margin
  and every divider, multiplier, phase-detector and VCO frequency lies inside the declared device ranges".
  They are stated on the configuration alone (no reference to the search functions) and are decidable.
-/
namespace Litex.Clock

/-! ## Xilinx -/

/-- Dividers `ds` (for outputs `n, n+1, …`) are in a declared range of their output and meet the request at `vco`. -/
def XValidOuts (d : XDev) (vco : Q) : Nat → List Out → List Q → Prop
  | _, [], [] => True
  | n, o :: os, dv :: ds =>
    (∃ r ∈ d.rangesFor n, dv ∈ r) ∧
    (if d.usp then isclose (vco.div dv) o else within (vco.div dv) o) = true ∧
    XValidOuts d vco (n + 1) os ds
  | _, _, _ => False

/-- input divider and multiplier in their declared ranges, VCO = clkin*mult/divclk inside
    `[vco_min*(1+vco_margin), vco_max*(1-vco_margin)]`, one divider per requested output, each in range and giving
    `vco/d` within the output's margin. -/
def XValid (d : XDev) (r : XReq) (c : XCfg) : Prop :=
  c.divclk ∈ d.divclks ∧ c.mult ∈ d.multList ∧ xVcoOk d r (c.vco r) = true ∧
  XValidOuts d (c.vco r) 0 r.outs c.ds

/-! ## ECP5 -/

/-- CLKI/CLKFB/CLKO dividers in range, PFD = clkin/clki_div and VCO = PFD*clkfb_div*(divider of the feedback
    output) in range, the feedback output exists (one of the requested outputs, not dynamically phase-adjusted when
    DPA is exposed, or one spare output appended after them), at most `nmax` outputs used, and every requested
    output `vco/div_n` within its margin. -/
def EValid (d : EDev) (r : EReq) (c : ECfg) : Prop :=
  c.clkiDiv ∈ d.clkis ∧ inRange d.pfdMin d.pfdMax (ePfd r c.clkiDiv) = true ∧ c.clkfbDiv ∈ d.clkfbs ∧
  (∀ dv ∈ c.divs, dv ∈ d.clkos) ∧ c.clkfb < c.divs.length ∧ c.divs.length ≤ d.nmax ∧
  inRange d.vcoMin d.vcoMax (c.vco r) = true ∧
  (c.divs.length = r.outs.length ∨ (c.divs.length = r.outs.length + 1 ∧ c.clkfb = r.outs.length)) ∧
  (∀ p ∈ r.outs.zip c.divs, within ((c.vco r).divNat p.2) p.1.out = true) ∧
  (r.outs[c.clkfb]?.all fun o => !(o.dpa && r.dpaEn)) = true

instance (d : EDev) (r : EReq) (c : ECfg) : Decidable (EValid d r c) := by
  unfold EValid; infer_instance

/-! ## iCE40 -/

def IValid (d : IDev) (clkin : Q) (o : Out) (c : ICfg) : Prop :=
  c.divr ∈ pyRange d.divrLo d.divrHi ∧ c.divf ∈ pyRange d.divfLo d.divfHi ∧ c.divq ∈ pyRange d.divqLo d.divqHi ∧
  inRange d.vcoMin d.vcoMax (iVco clkin c.divr c.divf) = true ∧
  within ((iVco clkin c.divr c.divf).divNat (2 ^ c.divq)) o = true

instance (d : IDev) (clkin : Q) (o : Out) (c : ICfg) : Decidable (IValid d clkin o c) := by
  unfold IValid; infer_instance

/-! ## NX -/

/-- Everything except the phase-detector window. -/
def NValidNoPfd (d : NDev) (r : NReq) (c : NCfg) : Prop :=
  c.clkiDiv ∈ d.clkis ∧ c.clkfbDiv ∈ d.clkfbs ∧ (∀ dv ∈ c.divs, dv ∈ d.clkos) ∧
  inRange d.vcoMin d.vcoMax (c.vco r) = true ∧ c.divs.length = r.outs.length ∧
  (∀ p ∈ r.outs.zip c.divs, within ((c.vco r).divNat p.2) p.1 = true)

/-- … and the PFD frequency clkin/clki_div inside the declared `vco_in_freq_range`. -/
def NValid (d : NDev) (r : NReq) (c : NCfg) : Prop :=
  NValidNoPfd d r c ∧ inRange d.pfdMin d.pfdMax (r.clkin.divNat c.clkiDiv) = true

instance (d : NDev) (r : NReq) (c : NCfg) : Decidable (NValidNoPfd d r c) := by
  unfold NValidNoPfd; infer_instance
instance (d : NDev) (r : NReq) (c : NCfg) : Decidable (NValid d r c) := by
  unfold NValid; infer_instance

/-! ## Intel (ALTPLL) -/

/-- n, m inside the declared counter ranges, PFD = clkin/n and VCO = clkin*m/n inside their windows, one post-scale
    divider c per requested output, each inside the declared range and giving `vco/c` within the output's margin. -/
def AValid (d : ADev) (r : AReq) (c : ACfg) : Prop :=
  d.nLo ≤ c.n ∧ c.n < d.nHi ∧ c.m ∈ pyRange d.mLo d.mHi ∧
  inRange d.pfdMin d.pfdMax (r.clkin.divNat c.n) = true ∧
  inRangeM d.vcoMin d.vcoMax r.vcoMargin (c.vco r) = true ∧
  c.cs.length = r.outs.length ∧
  ∀ p ∈ r.outs.zip c.cs, p.2 ∈ d.cs.toList ∧ within ((c.vco r).div p.2) p.1 = true

/-! ## Gowin GW1N / GW2A (rPLL / PLLVR) -/

/-- Frequency on an output pin: CLKOUT / CLKOUTP = clkin*fdiv/idiv, CLKOUTD3 = that / 3, CLKOUTD = that / SDIV. -/
def gPinFreq (outF : Q) (sdiv : Nat) : Nat → Q
  | 2 => outF.divNat 3
  | 3 => outF.divNat sdiv
  | _ => outF

/-- IDIV/FBDIV in 1..63, ODIV one of the primitive's values, PFD = clkin/idiv and VCO = CLKOUT*odiv inside their
    windows, an even CLKOUTD divider, and every requested clock sits on a pin whose frequency passes the helper's own
    acceptance test `|obtained - requested| <= obtained*margin`. -/
def GValid (d : GDev) (r : GReq) (c : GCfg) : Prop :=
  c.idiv ∈ pyRange 1 64 ∧ c.fdiv ∈ pyRange 1 64 ∧ c.odiv ∈ gOdivs ∧
  (d.pfdMin.le (r.clkin.divNat c.idiv) && (r.clkin.divNat c.idiv).le d.pfdMax) = true ∧
  inRangeM d.vcoMin d.vcoMax r.vcoMargin ((gOutF r c.idiv c.fdiv).mulNat c.odiv) = true ∧
  c.sdiv % 2 = 0 ∧ c.pins.length = r.outs.length ∧
  ∀ p ∈ r.outs.zip c.pins, p.2 ≤ 3 ∧ gMiss (gPinFreq (gOutF r c.idiv c.fdiv) c.sdiv p.2) p.1 = false

end Litex.Clock
