import LitexModel.Clock.Xilinx
import LitexModel.Clock.Lattice
/-
  C20 specification predicates: `…Valid dev req cfg` is the conclusion of the property for one vendor —
  "every requested output frequency, recomputed from the returned multipliers and dividers, is within its margin
  and every divider, multiplier, phase-detector and VCO frequency lies inside the declared device ranges".
  They are stated on the configuration alone (no reference to the search functions) and are decidable.
-/
namespace Litex.Clock

/-! ## Xilinx -/

/-- Dividers `ds` (for outputs `n, n+1, …`) are in a declared range of their output and meet the request at `vco`. -/
def XValidOuts (d : XDev) (vco : Q) : Nat → List Out → List Q → Prop
  | _, [], [] => True
  | n, o :: os, dv :: ds =>
    (∃ r ∈ d.rangesFor n, dv ∈ r) ∧
    (if d.usp then isclose (vco.div dv) o else within (vco.div dv) o) = true ∧
    XValidOuts d vco (n + 1) os ds
  | _, _, _ => False

/-- input divider and multiplier in their declared ranges, VCO = clkin*mult/divclk inside
    `[vco_min*(1+vco_margin), vco_max*(1-vco_margin)]`, one divider per requested output, each in range and giving
    `vco/d` within the output's margin. -/
def XValid (d : XDev) (r : XReq) (c : XCfg) : Prop :=
  c.divclk ∈ d.divclks ∧ c.mult ∈ d.multList ∧ xVcoOk d r (c.vco r) = true ∧
  XValidOuts d (c.vco r) 0 r.outs c.ds

/-! ## ECP5 -/

/-- CLKI/CLKFB/CLKO dividers in range, PFD = clkin/clki_div and VCO = PFD*clkfb_div*(divider of the feedback
    output) in range, the feedback output exists (one of the requested outputs, not dynamically phase-adjusted when
    DPA is exposed, or one spare output appended after them), at most `nmax` outputs used, and every requested
    output `vco/div_n` within its margin. -/
def EValid (d : EDev) (r : EReq) (c : ECfg) : Prop :=
  c.clkiDiv ∈ d.clkis ∧ inRange d.pfdMin d.pfdMax (ePfd r c.clkiDiv) = true ∧ c.clkfbDiv ∈ d.clkfbs ∧
  (∀ dv ∈ c.divs, dv ∈ d.clkos) ∧ c.clkfb < c.divs.length ∧ c.divs.length ≤ d.nmax ∧
  inRange d.vcoMin d.vcoMax (c.vco r) = true ∧
  (c.divs.length = r.outs.length ∨ (c.divs.length = r.outs.length + 1 ∧ c.clkfb = r.outs.length)) ∧
  (∀ p ∈ r.outs.zip c.divs, within ((c.vco r).divNat p.2) p.1.out = true) ∧
  (r.outs[c.clkfb]?.all fun o => !(o.dpa && r.dpaEn)) = true

instance (d : EDev) (r : EReq) (c : ECfg) : Decidable (EValid d r c) := by
  unfold EValid; infer_instance

/-! ## iCE40 -/

def IValid (d : IDev) (clkin : Q) (o : Out) (c : ICfg) : Prop :=
  c.divr ∈ pyRange d.divrLo d.divrHi ∧ c.divf ∈ pyRange d.divfLo d.divfHi ∧ c.divq ∈ pyRange d.divqLo d.divqHi ∧
  inRange d.vcoMin d.vcoMax (iVco clkin c.divr c.divf) = true ∧
  within ((iVco clkin c.divr c.divf).divNat (2 ^ c.divq)) o = true

instance (d : IDev) (clkin : Q) (o : Out) (c : ICfg) : Decidable (IValid d clkin o c) := by
  unfold IValid; infer_instance

/-! ## NX -/

/-- Everything except the phase-detector window. -/
def NValidNoPfd (d : NDev) (r : NReq) (c : NCfg) : Prop :=
  c.clkiDiv ∈ d.clkis ∧ c.clkfbDiv ∈ d.clkfbs ∧ (∀ dv ∈ c.divs, dv ∈ d.clkos) ∧
  inRange d.vcoMin d.vcoMax (c.vco r) = true ∧ c.divs.length = r.outs.length ∧
  (∀ p ∈ r.outs.zip c.divs, within ((c.vco r).divNat p.2) p.1 = true)

/-- … and the PFD frequency clkin/clki_div inside the declared `vco_in_freq_range`. -/
def NValid (d : NDev) (r : NReq) (c : NCfg) : Prop :=
  NValidNoPfd d r c ∧ inRange d.pfdMin d.pfdMax (r.clkin.divNat c.clkiDiv) = true

instance (d : NDev) (r : NReq) (c : NCfg) : Decidable (NValidNoPfd d r c) := by
  unfold NValidNoPfd; infer_instance
instance (d : NDev) (r : NReq) (c : NCfg) : Decidable (NValid d r c) := by
  unfold NValid; infer_instance

end Litex.Clock
