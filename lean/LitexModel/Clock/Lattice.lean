import LitexModel.Clock.Q
/-
  Models of `ECP5PLL.compute_config` / `do_finalize` (lattice_ecp5.py, the tree with the `clkfb is None` fix),
  `iCE40PLL.compute_config` (lattice_ice40.py), `NXPLL.compute_config` / `do_finalize` and `NXOSCA.compute_divisor`
  (lattice_nx.py), over exact rationals.
-/
namespace Litex.Clock

/-! ## ECP5 -/

structure EDev where
  clkiLo  : Nat
  clkiHi  : Nat
  clkfbLo : Nat
  clkfbHi : Nat
  clkoLo  : Nat
  clkoHi  : Nat
  pfdMin  : Q
  pfdMax  : Q
  vcoMin  : Q
  vcoMax  : Q
  nmax    : Nat
deriving Repr, DecidableEq, Inhabited

/-- Output request + `uses_dpa`. -/
structure EOut where
  out : Out
  dpa : Bool
deriving Repr, DecidableEq

structure EReq where
  clkin : Q
  dpaEn : Bool
  outs  : List EOut
deriving Repr, DecidableEq

/-- `divs` has one entry per requested output, plus one more (index = number of requests) when a spare output
    was created for the feedback; `clkfb` is the index of the feedback output. -/
structure ECfg where
  clkiDiv  : Nat
  clkfbDiv : Nat
  clkfb    : Nat
  divs     : List Nat
deriving Repr, DecidableEq

namespace EDev
def clkis (d : EDev) : List Nat := pyRange d.clkiLo d.clkiHi
def clkfbs (d : EDev) : List Nat := pyRange d.clkfbLo d.clkfbHi
def clkos (d : EDev) : List Nat := pyRange d.clkoLo d.clkoHi
end EDev

@[inline] def ePfd (r : EReq) (clki : Nat) : Q := r.clkin.divNat clki
@[inline] def eVco (r : EReq) (clki fb ofb : Nat) : Q := ((r.clkin.divNat clki).mulNat fb).mulNat ofb

/-- First divider of the CLKO range that meets the request at this VCO. -/
def eOut (d : EDev) (vco : Q) (o : EOut) : Option Nat :=
  d.clkos.find? fun dv => within (vco.divNat dv) o.out

def eOuts (d : EDev) (vco : Q) : List EOut → Option (List Nat)
  | [] => some []
  | o :: os =>
    match eOut d vco o with
    | none => none
    | some dv => (eOuts d vco os).map (dv :: ·)

/-- Feedback selection: the LAST output (in index order) whose chosen divider equals `clkofb_div` and which is not
    a dynamically phase-adjusted output (`config["clkfb"] = n` is overwritten by later matches). -/
def eFbSel (r : EReq) (ofb : Nat) : Nat → List EOut → List Nat → Option Nat → Option Nat
  | n, o :: os, dv :: ds, acc =>
    eFbSel r ofb (n + 1) os ds (if dv = ofb ∧ ¬ (o.dpa ∧ r.dpaEn) then some n else acc)
  | _, _, _, acc => acc

/-- Body of the three loops (`clki_div`, `clkofb_div`, `clkfb_div`). -/
def eTry (d : EDev) (r : EReq) (clki ofb fb : Nat) : Option ECfg :=
  let vco := eVco r clki fb ofb
  if inRange d.vcoMin d.vcoMax vco then
    match eOuts d vco r.outs with
    | none => none
    | some ds =>
      match eFbSel r ofb 0 r.outs ds none with
      | some n => some ⟨clki, fb, n, ds⟩
      | none =>
        if r.outs.length = d.nmax then none            -- no output suitable for feedback and no spare
        else some ⟨clki, fb, r.outs.length, ds ++ [ofb]⟩   -- spare output created for the feedback
  else none

def eSearch (d : EDev) (r : EReq) : Option ECfg :=
  d.clkis.findSome? fun clki =>
    if inRange d.pfdMin d.pfdMax (ePfd r clki) then
      d.clkos.findSome? fun ofb => d.clkfbs.findSome? fun fb => eTry d r clki ofb fb
    else none

/-- VCO recomputed from a configuration: `clkin/clki_div * clkfb_div * (divider of the feedback output)`. -/
def ECfg.vco (r : EReq) (c : ECfg) : Q := eVco r c.clkiDiv c.clkfbDiv (c.divs.getD c.clkfb 0)

/-- `do_finalize`:  phase = round(p*div/45);  FPHASE = phase & 7;  CPHASE = (phase >> 3) + (div - 1). -/
def ePhaseWord (p : SQ) (div : Nat) : Int := ((p.mulNat div).divNat 45).round
def eFPhase (p : SQ) (div : Nat) : Int := (ePhaseWord p div) % 8
def eCPhase (p : SQ) (div : Nat) : Int := (ePhaseWord p div) / 8 + ((div : Int) - 1)

/-- (div, FPHASE, CPHASE) per enabled output (requested ones carry their phase, the spare feedback output phase 0). -/
def eParams (r : EReq) (c : ECfg) : List (Int × Int × Int) :=
  c.divs.zipIdx.map fun (dv, n) =>
    let p := match r.outs[n]? with | some o => o.out.phase | none => SQ.zero
    ((dv : Int), eFPhase p dv, eCPhase p dv)

/-! ## iCE40 -/

structure IDev where
  divrLo : Nat
  divrHi : Nat
  divfLo : Nat
  divfHi : Nat
  divqLo : Nat
  divqHi : Nat
  vcoMin : Q
  vcoMax : Q
deriving Repr, DecidableEq, Inhabited

structure ICfg where
  divr : Nat
  divf : Nat
  divq : Nat
deriving Repr, DecidableEq

@[inline] def iVco (clkin : Q) (divr divf : Nat) : Q := (clkin.divNat (divr + 1)).mulNat (divf + 1)

def iTry (d : IDev) (clkin : Q) (o : Out) (divr divf : Nat) : Option ICfg :=
  let vco := iVco clkin divr divf
  if inRange d.vcoMin d.vcoMax vco then
    ((pyRange d.divqLo d.divqHi).find? fun q => within (vco.divNat (2 ^ q)) o).map fun q => ⟨divr, divf, q⟩
  else none

/-- Single output (`nclkouts_max = 1`). -/
def iSearch (d : IDev) (clkin : Q) (o : Out) : Option ICfg :=
  (pyRange d.divrLo d.divrHi).findSome? fun divr =>
    (pyRange d.divfLo d.divfHi).findSome? fun divf => iTry d clkin o divr divf

/-- FILTER_RANGE of `do_finalize` from the PFD frequency (`none`: the Python loop leaves `filter_range` unbound). -/
def iFilterRange (clkin : Q) (divr : Nat) : Option Nat :=
  let pfd := clkin.divNat (divr + 1)
  [(17000000, 1), (26000000, 2), (44000000, 3), (66000000, 4), (101000000, 5), (133000000, 6)].findSome?
    fun (fv : Nat × Nat) => if pfd.lt (Q.ofNat fv.1) then some fv.2 else none

/-! ## NX -/

structure NDev where
  clkiLo  : Nat
  clkiHi  : Nat
  clkfbLo : Nat
  clkfbHi : Nat
  clkoLo  : Nat
  clkoHi  : Nat
  pfdMin  : Q          -- vco_in_freq_range (declared, NOT checked by compute_config)
  pfdMax  : Q
  vcoMin  : Q          -- vco_out_freq_range
  vcoMax  : Q
  nmax    : Nat
deriving Repr, DecidableEq, Inhabited

structure NReq where
  clkin : Q
  outs  : List Out
deriving Repr, DecidableEq

structure NCfg where
  clkiDiv  : Nat
  clkfbDiv : Nat
  divs     : List Nat
deriving Repr, DecidableEq

namespace NDev
def clkis (d : NDev) : List Nat := pyRange d.clkiLo d.clkiHi
def clkfbs (d : NDev) : List Nat := pyRange d.clkfbLo d.clkfbHi
def clkos (d : NDev) : List Nat := pyRange d.clkoLo d.clkoHi
end NDev

@[inline] def nVco (r : NReq) (clki fb : Nat) : Q := (r.clkin.divNat clki).mulNat fb

def nOut (d : NDev) (vco : Q) (o : Out) : Option Nat :=
  d.clkos.find? fun dv => within (vco.divNat dv) o

def nOuts (d : NDev) (vco : Q) : List Out → Option (List Nat)
  | [] => some []
  | o :: os =>
    match nOut d vco o with
    | none => none
    | some dv => (nOuts d vco os).map (dv :: ·)

def nTry (d : NDev) (r : NReq) (clki fb : Nat) : Option NCfg :=
  let vco := nVco r clki fb
  if inRange d.vcoMin d.vcoMax vco then (nOuts d vco r.outs).map fun ds => ⟨clki, fb, ds⟩ else none

def nSearch (d : NDev) (r : NReq) : Option NCfg :=
  d.clkis.findSome? fun clki => d.clkfbs.findSome? fun fb => nTry d r clki fb

def NCfg.vco (r : NReq) (c : NCfg) : Q := nVco r c.clkiDiv c.clkfbDiv

/-- Numeric instance parameters of `NXPLL.do_finalize`: (REF_MMD_DIG, DIVF, [(DIVx, DELx)]).
    `REF_MMD_DIG` is the literal "1" in the code — the chosen `clki_div` is NOT placed. -/
def nDel (p : SQ) (div : Nat) : Int := ((((p.divNat 360).addNat 1).mulNat div).trunc) - 1
def nParams (r : NReq) (c : NCfg) : Nat × Int × List (Int × Int) :=
  (1, (c.clkfbDiv : Int) - 1, (c.divs.zip r.outs).map fun (dv, o) => ((dv : Int) - 1, nDel o.phase dv))

/-- `NXOSCA.compute_divisor`: first divisor in `range(lo, hi)` with `|hf/(div+1) - f| <= f*m`. -/
def nxOscDiv (lo hi : Nat) (hf : Q) (o : Out) : Option Nat :=
  (pyRange lo hi).find? fun dv => within (hf.divNat (dv + 1)) o

end Litex.Clock
