/-
  Exact rationals for the clock-configuration models (C20).  Hand-rolled `num/den` (no normalisation, no Mathlib):
  the value of `⟨n, d⟩` is `n / d`; every comparison is done by cross-multiplication, which is the order of the
  rationals whenever both denominators are positive (`LitexProofs/Clock/QRat.lean` proves this against Mathlib's ℚ).
  Frequencies, margins, phases and fractional dividers of the Python code (floats) travel as the exact rational value
  of the float (`fractions.Fraction(x)`), so the model is "the Python search with the rounding removed".
-/
namespace Litex.Clock

structure Q where
  num : Int
  den : Nat
deriving Repr, DecidableEq, Inhabited

namespace Q

@[inline] def ofNat (n : Nat) : Q := ⟨n, 1⟩
@[inline] def mul (a b : Q) : Q := ⟨a.num * b.num, a.den * b.den⟩
@[inline] def mulNat (a : Q) (n : Nat) : Q := ⟨a.num * n, a.den⟩
@[inline] def divNat (a : Q) (n : Nat) : Q := ⟨a.num, a.den * n⟩
/-- `a / b` for `b > 0` (the models only divide by positive dividers / frequencies). -/
@[inline] def div (a b : Q) : Q := ⟨a.num * b.den, a.den * b.num.toNat⟩
@[inline] def add (a b : Q) : Q := ⟨a.num * b.den + b.num * a.den, a.den * b.den⟩
@[inline] def sub (a b : Q) : Q := ⟨a.num * b.den - b.num * a.den, a.den * b.den⟩
@[inline] def abs (a : Q) : Q := ⟨a.num.natAbs, a.den⟩
@[inline] def le (a b : Q) : Bool := decide (a.num * b.den ≤ b.num * a.den)
@[inline] def lt (a b : Q) : Bool := decide (a.num * b.den < b.num * a.den)
@[inline] def beq (a b : Q) : Bool := decide (a.num * b.den = b.num * a.den)
def one : Q := ⟨1, 1⟩
def zero : Q := ⟨0, 1⟩

/-- `⌊a⌋` for `den > 0` (Python `//` and `math.floor`). -/
@[inline] def floor (a : Q) : Int := a.num / (a.den : Int)      -- Int `/` is floor division for a positive divisor
/-- `⌈a⌉` for `den > 0` (`math.ceil`). -/
@[inline] def ceil (a : Q) : Int := -((-a.num) / (a.den : Int))
/-- Python `int(x)`: truncation toward zero. -/
@[inline] def trunc (a : Q) : Int := Int.tdiv a.num (a.den : Int)
/-- Python `round(x)`: nearest integer, ties to even. -/
def round (a : Q) : Int :=
  let f := a.floor
  let r2 : Int := 2 * (a.num - f * a.den)         -- 2 * fractional part * den, in [0, 2*den)
  if r2 < a.den then f else if r2 > a.den then f + 1 else if f % 2 = 0 then f else f + 1

/-- Reduced representation (for printing). -/
def norm (a : Q) : Q :=
  let g := Nat.gcd a.num.natAbs a.den
  if g = 0 then a else ⟨a.num / (g : Int), a.den / g⟩

end Q

/-- Python `range(lo, hi)`. -/
@[inline] def pyRange (lo hi : Nat) : List Nat := List.range' lo (hi - lo)

/-- The values produced by `clkdiv_range(a/k, b/k, s/k)`: `a/k, (a+s)/k, …` while `< b/k`.  (The Python generator
    steps a float; for the declared tables — steps 1 and 1/8 — every value is exact, which the harness checks by
    running the real generator against `DivRange.toList` on every regenerated table and on random ranges.) -/
structure DivRange where
  a : Nat
  b : Nat
  s : Nat
  k : Nat
deriving Repr, DecidableEq, Inhabited

def DivRange.count (r : DivRange) : Nat := (r.b - r.a + r.s - 1) / r.s

def DivRange.toList (r : DivRange) : List Q :=
  (List.range r.count).map fun i => ⟨((r.a + i * r.s : Nat) : Int), r.k⟩

/-- One requested output: frequency, phase (degrees), relative margin. -/
structure Out where
  freq   : Q
  phase  : Q
  margin : Q
deriving Repr, DecidableEq, Inhabited

/-- The margin test of every `compute_config`:  `abs(clk_freq - f) <= f*m`. -/
@[inline] def within (clk : Q) (o : Out) : Bool := ((clk.sub o.freq).abs).le (o.freq.mul o.margin)

/-- `math.isclose(clk_freq, f, rel_tol=m)` (abs_tol = 0): `|a-b| <= |m*b|  or  |a-b| <= |m*a|`. -/
@[inline] def isclose (clk : Q) (o : Out) : Bool :=
  let d := (clk.sub o.freq).abs
  d.le (o.margin.mul o.freq).abs || d.le (o.margin.mul clk).abs

/-- `lo <= x <= hi`. -/
@[inline] def inRange (lo hi x : Q) : Bool := lo.le x && x.le hi

/-- `x >= lo*(1 + vm) and x <= hi*(1 - vm)` (the VCO window with `vco_margin`). -/
@[inline] def inRangeM (lo hi vm x : Q) : Bool :=
  (lo.mul (Q.one.add vm)).le x && x.le (hi.mul (Q.one.sub vm))

end Litex.Clock
