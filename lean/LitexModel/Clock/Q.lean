/-
  Exact rationals for the clock-configuration models (C20).  Hand-rolled `num/den` (no normalisation, no Mathlib):
  the value of `⟨n, d⟩` is `n / d`; every comparison is done by cross-multiplication, which is the order of the
  rationals whenever both denominators are positive (`LitexProofs/Clock/QRat.lean` proves this against Mathlib's ℚ).
  Frequencies, margins, phases and fractional dividers of the Python code (floats) travel as the exact rational value
  of the float (`fractions.Fraction(x)`), so the model is "the Python search with the rounding removed".
-/
namespace Litex.Clock

/-- Non-negative rational `num/den` (frequencies, margins, dividers).  `Nat` fields keep the compiled model on
    machine words for everything below 2^63. -/
structure Q where
  num : Nat
  den : Nat
deriving Repr, DecidableEq, Inhabited

namespace Q

@[inline] def ofNat (n : Nat) : Q := ⟨n, 1⟩
@[inline] def mul (a b : Q) : Q := ⟨a.num * b.num, a.den * b.den⟩
@[inline] def mulNat (a : Q) (n : Nat) : Q := ⟨a.num * n, a.den⟩
@[inline] def divNat (a : Q) (n : Nat) : Q := ⟨a.num, a.den * n⟩
/-- `a / b` (the models only divide by positive dividers / frequencies). -/
@[inline] def div (a b : Q) : Q := ⟨a.num * b.den, a.den * b.num⟩
@[inline] def add (a b : Q) : Q := ⟨a.num * b.den + b.num * a.den, a.den * b.den⟩
/-- `max(a - b, 0)`. -/
@[inline] def subT (a b : Q) : Q := ⟨a.num * b.den - b.num * a.den, a.den * b.den⟩
/-- `|a - b|`. -/
@[inline] def absDiff (a b : Q) : Q :=
  let x := a.num * b.den
  let y := b.num * a.den
  ⟨if x ≤ y then y - x else x - y, a.den * b.den⟩
@[inline] def le (a b : Q) : Bool := decide (a.num * b.den ≤ b.num * a.den)
@[inline] def lt (a b : Q) : Bool := decide (a.num * b.den < b.num * a.den)
@[inline] def beq (a b : Q) : Bool := decide (a.num * b.den = b.num * a.den)
def one : Q := ⟨1, 1⟩
def zero : Q := ⟨0, 1⟩

/-- `⌊a⌋` (Python `//`, `math.floor`, `int()` of a non-negative value). -/
@[inline] def floor (a : Q) : Nat := a.num / a.den
/-- `⌈a⌉` (`math.ceil`). -/
@[inline] def ceil (a : Q) : Nat := (a.num + a.den - 1) / a.den

/-- Reduced representation (for printing). -/
def norm (a : Q) : Q :=
  let g := Nat.gcd a.num a.den
  if g = 0 then a else ⟨a.num / g, a.den / g⟩

end Q

/-- Signed rational (phases in degrees). -/
structure SQ where
  num : Int
  den : Nat
deriving Repr, DecidableEq, Inhabited

namespace SQ
def zero : SQ := ⟨0, 1⟩
@[inline] def mulNat (a : SQ) (n : Nat) : SQ := ⟨a.num * n, a.den⟩
@[inline] def divNat (a : SQ) (n : Nat) : SQ := ⟨a.num, a.den * n⟩
@[inline] def addNat (a : SQ) (n : Nat) : SQ := ⟨a.num + (n : Int) * a.den, a.den⟩
@[inline] def beq (a b : SQ) : Bool := decide (a.num * b.den = b.num * a.den)
/-- `⌊a⌋` for `den > 0` (Int `/` is floor division for a positive divisor). -/
@[inline] def floor (a : SQ) : Int := a.num / (a.den : Int)
/-- Python `int(x)`: truncation toward zero. -/
@[inline] def trunc (a : SQ) : Int := Int.tdiv a.num (a.den : Int)
/-- Python `round(x)`: nearest integer, ties to even. -/
def round (a : SQ) : Int :=
  let f := a.floor
  let r2 : Int := 2 * (a.num - f * a.den)         -- 2 * fractional part * den, in [0, 2*den)
  if r2 < a.den then f else if r2 > a.den then f + 1 else if f % 2 = 0 then f else f + 1
def norm (a : SQ) : SQ :=
  let g := Nat.gcd a.num.natAbs a.den
  if g = 0 then a else ⟨a.num / (g : Int), a.den / g⟩
end SQ

@[inline] def Q.toSQ (a : Q) : SQ := ⟨a.num, a.den⟩

/-- Python `range(lo, hi)`. -/
@[inline] def pyRange (lo hi : Nat) : List Nat := List.range' lo (hi - lo)

/-- The values produced by `clkdiv_range(a/k, b/k, s/k)`: `a/k, (a+s)/k, …` while `< b/k`.  (The Python generator
    steps a float; for the declared tables — steps 1 and 1/8 — every value is exact, which the harness checks by
    running the real generator against `DivRange.toList` on every regenerated table and on random ranges.) -/
structure DivRange where
  a : Nat
  b : Nat
  s : Nat
  k : Nat
deriving Repr, DecidableEq, Inhabited

def DivRange.count (r : DivRange) : Nat := (r.b - r.a + r.s - 1) / r.s

def DivRange.toList (r : DivRange) : List Q :=
  (List.range r.count).map fun i => ⟨r.a + i * r.s, r.k⟩

/-- One requested output: frequency, phase (degrees), relative margin. -/
structure Out where
  freq   : Q
  phase  : SQ
  margin : Q
deriving Repr, DecidableEq, Inhabited

/-- The margin test of every `compute_config`:  `abs(clk_freq - f) <= f*m`. -/
@[inline] def within (clk : Q) (o : Out) : Bool := (clk.absDiff o.freq).le (o.freq.mul o.margin)

/-- `math.isclose(clk_freq, f, rel_tol=m)` (abs_tol = 0): `|a-b| <= |m*b|  or  |a-b| <= |m*a|`. -/
@[inline] def isclose (clk : Q) (o : Out) : Bool :=
  let d := clk.absDiff o.freq
  d.le (o.margin.mul o.freq) || d.le (o.margin.mul clk)

/-- `lo <= x <= hi`. -/
@[inline] def inRange (lo hi x : Q) : Bool := lo.le x && x.le hi

/-- `x >= lo*(1 + vm) and x <= hi*(1 - vm)` (the VCO window with `vco_margin`). -/
@[inline] def inRangeM (lo hi vm x : Q) : Bool :=
  (lo.mul (Q.one.add vm)).le x && x.le (hi.mul (Q.one.subT vm))

end Litex.Clock
