import LitexModel.Clock.Xilinx
import LitexModel.Clock.Lattice
import LitexModel.Clock.Intel
import LitexModel.Clock.Gowin
/-
  C20 — the emitted primitive.  For every clocking helper `…Emit` is the COMPLETE item list of the primitive Instance
  that `do_finalize` emits for a (request, configuration): every parameter, every input/output port connection and
  every synthesis attribute, keyed like the Python kwargs (`p_NAME`, `i_NAME`, `o_NAME`, `a_NAME`).
  Port connections are symbolic tokens ("clkin", "reset", "locked", "clkout<n>", "open", "c<v>w<bits>" for a constant,
  "loop:<PORT>" for a private feedback net, "reset0>>FDCE*8" for the reset after the 8-stage delay chain).
  The harness reads ALL items back from the real Instance after `finalize()` and compares the two dictionaries
  key by key (missing, extra and different entries are disagreements).
-/
namespace Litex.Clock

/-- Value of one emitted item. -/
inductive PV
  | int (v : Int)        -- Python int
  | flt (v : SQ)         -- Python float with this exact value (compared with 1e-12 relative tolerance)
  | num (v : SQ)         -- number handed through from the request (int or float), compared by value
  | str (s : String)
  | fstr (v : SQ)        -- str(float) of this value
  | trunc (v : SQ)       -- int(float expression) of this exact value
  | tok (s : String)     -- port connection
  | any                  -- a string that is not a function of the clock configuration (analog loop settings)
deriving Repr, DecidableEq

abbrev Emit := List (String × PV)

/-- dictionary lookup (first entry wins; the harness rejects duplicate keys). -/
def Emit.get (e : Emit) (k : String) : Option PV := (e.find? (·.1 == k)).map (·.2)

@[inline] def pvNat (n : Nat) : PV := .int n
/-- a value produced by `clkdiv_range`: `int` when integral, else `float`. -/
def pvDiv (q : Q) : PV := if q.den ≠ 0 ∧ q.num % q.den = 0 then .int (q.num / q.den : Nat) else .flt q.toSQ
def clkTok (n : Nat) : String := s!"clkout{n}"
def constTok (v w : Nat) : String := s!"c{v}w{w}"

/-! ## Xilinx -/

inductive XKind | s6pll | s6dcm | pll | mmcm
deriving Repr, DecidableEq

/-- class name → (kind, primitive, USPMMCM flavour). -/
def xKindOf (cls : String) : Option (XKind × String × Bool) :=
  match cls with
  | "S6PLL" => some (.s6pll, "PLL_ADV", false)
  | "S6DCM" => some (.s6dcm, "DCM_CLKGEN", false)
  | "S7PLL" => some (.pll, "PLLE2_ADV", false)
  | "USPLL" => some (.pll, "PLLE2_ADV", false)
  | "USPPLL" => some (.pll, "PLLE2_ADV", false)
  | "S7MMCM" => some (.mmcm, "MMCME2_ADV", false)
  | "USMMCM" => some (.mmcm, "MMCME2_ADV", false)
  | "USPMMCM" => some (.mmcm, "MMCME4_ADV", true)
  | _ => none

/-- per-output items of the PLL/MMCM primitives. -/
def xOutItems (k : XKind) (usp : Bool) (n : Nat) (dv : Q) (o : Out) : Emit :=
  [ ((if k = .mmcm ∧ n = 0 then s!"p_CLKOUT{n}_DIVIDE_F" else s!"p_CLKOUT{n}_DIVIDE"),
      if usp ∧ n = 0 then .flt dv.toSQ else pvDiv dv),
    (s!"p_CLKOUT{n}_PHASE", if k = .s6pll then .flt o.phase else .num o.phase),
    (s!"o_CLKOUT{n}", .tok (clkTok n)) ] ++
  (if k = .s6pll then [(s!"p_CLKOUT{n}_DUTY_CYCLE", .flt ⟨1, 2⟩)] else [])

def xEmit (k : XKind) (of : String) (usp : Bool) (r : XReq) (c : XCfg) : Emit :=
  let period : PV := .flt ⟨(10 ^ 9 * r.clkin.den : Nat), r.clkin.num⟩
  let mult : PV := if usp then .flt c.mult.toSQ else pvDiv c.mult
  match k with
  | .s6dcm =>
    [ ("of", .str of), ("p_CLKFX_MULTIPLY", mult),
      ("p_CLKFX_DIVIDE", pvDiv ((c.ds.headD Q.zero).mulNat c.divclk)), ("p_SPREAD_SPECTRUM", .str "NONE"),
      ("p_CLKIN_PERIOD", period), ("i_CLKIN", .tok "clkin"), ("i_RST", .tok "reset0>>FDCE*8"),
      ("i_FREEZEDCM", .tok "c0w1"), ("o_CLKFX", .tok (clkTok 0)), ("o_LOCKED", .tok "locked") ]
  | _ =>
    [ ("of", .str of), ("i_RST", .tok "reset0>>FDCE*8"), ("o_LOCKED", .tok "locked"), ("p_CLKIN1_PERIOD", period),
      ("p_DIVCLK_DIVIDE", pvNat c.divclk), ("i_CLKIN1", .tok "clkin"), ("i_CLKFBIN", .tok "loop:CLKFBOUT"),
      ("o_CLKFBOUT", .tok "loop:CLKFBOUT") ] ++
    (match k with
     | .s6pll => [ ("p_SIM_DEVICE", .str "SPARTAN6"), ("p_BANDWIDTH", .str "OPTIMIZED"), ("p_COMPENSATION", .str "INTERNAL"),
                   ("p_REF_JITTER", .flt ⟨1, 100⟩), ("p_CLK_FEEDBACK", .str "CLKFBOUT"), ("p_CLKIN2_PERIOD", .flt ⟨0, 1⟩),
                   ("p_CLKFBOUT_MULT", mult), ("p_CLKFBOUT_PHASE", .flt ⟨0, 1⟩), ("i_CLKINSEL", .tok "c1w1") ]
     | .mmcm => [ ("p_BANDWIDTH", .str "OPTIMIZED"), ("i_PWRDWN", .tok "power_down"), ("p_REF_JITTER1", .flt ⟨1, 100⟩),
                  ("p_CLKFBOUT_MULT_F", mult) ]
     | _ => [ ("p_STARTUP_WAIT", .str "FALSE"), ("i_PWRDWN", .tok "power_down"), ("p_REF_JITTER1", .flt ⟨1, 100⟩),
              ("p_CLKFBOUT_MULT", mult) ]) ++
    ((c.ds.zip r.outs).zipIdx.flatMap fun ((dv, o), n) => xOutItems k usp n dv o)

/-! ## ECP5 -/

def n2l (n : Nat) : String := match n with | 0 => "P" | 1 => "S" | 2 => "S2" | 3 => "S3" | 4 => "S4" | _ => "?"

def eOutItems (r : EReq) (n dv : Nat) : Emit :=
  let l := n2l n
  let p := match r.outs[n]? with | some o => o.out.phase | none => SQ.zero
  [ (s!"p_CLKO{l}_ENABLE", .str "ENABLED"), (s!"p_CLKO{l}_DIV", pvNat dv), (s!"p_CLKO{l}_FPHASE", .int (eFPhase p dv)),
    (s!"p_CLKO{l}_CPHASE", .int (eCPhase p dv)), (s!"o_CLKO{l}", .tok (clkTok n)) ] ++
  (match r.outs[n]? with
   | some o => [(s!"a_FREQUENCY_PIN_CLKO{l}", .fstr ⟨o.out.freq.num, o.out.freq.den * 1000000⟩)]
   | none => [])

def eEmit (r : EReq) (c : ECfg) : Emit :=
  [ ("of", .str "EHXPLLL"), ("a_FREQUENCY_PIN_CLKI", .fstr ⟨r.clkin.num, r.clkin.den * 1000000⟩), ("a_ICP_CURRENT", .str "6"),
    ("a_LPF_RESISTOR", .str "16"), ("a_MFG_ENABLE_FILTEROPAMP", .str "1"), ("a_MFG_GMCREF_SEL", .str "2"),
    ("i_RST", .tok "reset"), ("i_CLKI", .tok "clkin"), ("i_STDBY", .tok "stdby"), ("o_LOCK", .tok "lock_raw"),
    ("p_FEEDBK_PATH", .str ("INT_O" ++ n2l c.clkfb)), ("p_CLKFB_DIV", pvNat c.clkfbDiv), ("p_CLKI_DIV", pvNat c.clkiDiv) ] ++
  (if r.dpaEn then
    [ ("p_DPHASE_SOURCE", .str "ENABLED"), ("i_PHASESEL0", .tok "phase_sel[0:1]"), ("i_PHASESEL1", .tok "phase_sel[1:2]"),
      ("i_PHASEDIR", .tok "phase_dir"), ("i_PHASESTEP", .tok "phase_step"), ("i_PHASELOADREG", .tok "phase_load") ]
   else []) ++
  (c.divs.zipIdx.flatMap fun (dv, n) => eOutItems r n dv)

/-! ## iCE40 -/

def iEmit (pad : Bool) (clkin : Q) (c : ICfg) : Emit :=
  [ ("of", .str (if pad then "SB_PLL40_PAD" else "SB_PLL40_CORE")), ("p_FEEDBACK_PATH", .str "SIMPLE"),
    ("p_FILTER_RANGE", match iFilterRange clkin c.divr with | some v => pvNat v | none => .str "unbound"),
    ("i_RESETB", .tok "~reset"), ("o_LOCK", .tok "locked"), ("p_DIVR", pvNat c.divr), ("p_DIVF", pvNat c.divf),
    ("p_DIVQ", pvNat c.divq), ("o_PLLOUTGLOBAL", .tok (clkTok 0)),
    ((if pad then "i_PACKAGEPIN" else "i_REFERENCECLK"), .tok "clkin") ]

/-! ## NX -/

def nLetter (n : Nat) : String := match n with | 0 => "A" | 1 => "B" | 2 => "C" | 3 => "D" | 4 => "E" | _ => "?"

def nOutItems (n dv : Nat) (o : Out) : Emit :=
  [ (s!"p_ENCLK_CLKO{n2l n}", .str "ENABLED"), (s!"p_DIV{nLetter n}", .str (toString ((dv : Int) - 1))),
    (s!"p_PHI{nLetter n}", .str "0"), (s!"p_DEL{nLetter n}", .str (toString (nDel o.phase dv))),
    (s!"o_CLKO{n2l n}", .tok (clkTok n)) ]

/-- `REF_MMD_DIG` is the literal "1" (open finding C20-nx-clki-div-not-placed): modelled as the code writes it. -/
def nEmit (r : NReq) (c : NCfg) : Emit :=
  let fb := toString ((c.clkfbDiv : Int) - 1)
  [ ("of", .str "PLL"), ("p_V2I_PP_ICTRL", .str "0b11111"), ("p_IPI_CMPN", .str "0b0011"), ("p_V2I_1V_EN", .str "ENABLED"),
    ("p_V2I_KVCO_SEL", .str "60"), ("p_KP_VCO", .str "0b00011"), ("p_PLLPD_N", .str "USED"), ("p_PLLRESET_ENA", .str "ENABLED"),
    ("p_REF_INTEGER_MODE", .str "ENABLED"), ("p_REF_MMD_DIG", .str "1"), ("i_PLLRESET", .tok "reset"), ("i_REFCK", .tok "clkin"),
    ("o_LOCK", .tok "locked"), ("p_SEL_FBK", .str "FBKCLK5"), ("p_ENCLK_CLKOS5", .str "ENABLED"), ("p_DIVF", .str fb),
    ("p_DELF", .str fb), ("p_CLKMUX_FB", .str "CMUX_CLKOS5"), ("i_FBKCK", .tok "loop:CLKOS5"), ("o_CLKOS5", .tok "loop:CLKOS5"),
    ("p_FBK_INTEGER_MODE", .str "ENABLED"), ("p_FBK_MASK", .str "0b00000000"), ("p_FBK_MMD_DIG", .str "1"),
    ("p_CSET", .any), ("p_CRIPPLE", .any), ("p_V2I_PP_RES", .any), ("p_IPP_SEL", .any), ("p_IPP_CTRL", .any),
    ("p_BW_CTL_BIAS", .any), ("p_IPI_CMP", .any) ] ++
  ((c.divs.zip r.outs).zipIdx.flatMap fun ((dv, o), n) => nOutItems n dv o)

/-- NXOSCA.do_finalize: HF / HFSDC / LF sections are emitted iff the clock was created. -/
def nxOscEmit (hf hfsdc : Option Nat) (lf : Bool) : Emit :=
  [ ("of", .str "OSCA") ] ++
  (match hf with
   | some d => [ ("i_HFOUTEN", .tok "c1w1"), ("p_HF_CLK_DIV", .str (toString d)), ("o_HFCLKOUT", .tok "hf"),
                 ("p_HF_OSC_EN", .str "ENABLED") ]
   | none => []) ++
  (match hfsdc with
   | some d => [ ("i_HFSDSCEN", .tok "c1w1"), ("p_HF_SED_SEC_DIV", .str (toString d)), ("o_HFSDCOUT", .tok "hfsdc") ]
   | none => []) ++
  (if lf then [ ("o_LFCLKOUT", .tok "lf[0:1]"), ("p_LF_OUTPUT_EN", .str "ENABLED") ] else [])

/-! ## Intel ALTPLL -/

def aOutItems (r : AReq) (c : ACfg) (n : Nat) (cv : Q) (o : Out) : Emit :=
  let f := (c.vco r).div cv
  [ (s!"p_CLK{n}_DIVIDE_BY", pvDiv (cv.mulNat c.n)), (s!"p_CLK{n}_DUTY_CYCLE", .int 50), (s!"p_CLK{n}_MULTIPLY_BY", pvNat c.m),
    (s!"p_CLK{n}_PHASE_SHIFT", .trunc ⟨(10 ^ 12 * f.den : Nat) * o.phase.num, f.num * o.phase.den * 360⟩) ]

def aEmit (nmax : Nat) (r : AReq) (c : ACfg) : Emit :=
  [ ("of", .str "ALTPLL"), ("p_BANDWIDTH_TYPE", .str "AUTO"), ("p_COMPENSATE_CLOCK", .str "CLK0"),
    ("p_INCLK0_INPUT_FREQUENCY", .trunc ⟨(10 ^ 12 * r.clkin.den : Nat), r.clkin.num⟩), ("p_OPERATION_MODE", .str "NORMAL"),
    ("i_INCLK", .tok "clkin"), ("o_CLK", .tok "clks"), ("i_ARESET", .tok "reset0>>DFFE*8"),
    ("i_CLKENA", .tok (constTok (2 ^ nmax - 1) nmax)), ("i_EXTCLKENA", .tok "c15w4"), ("i_FBIN", .tok "c1w1"),
    ("i_PFDENA", .tok "c1w1"), ("i_PLLENA", .tok "c1w1"), ("o_LOCKED", .tok "locked") ] ++
  ((c.cs.zip r.outs).zipIdx.flatMap fun ((cv, o), n) => aOutItems r c n cv o)

/-! ## Gowin rPLL / PLLVR -/

/-- index of the LAST requested clock the configuration assigns to pin `pin` (0 CLKOUT, 1 CLKOUTP, 2 CLKOUTD3, 3 CLKOUTD):
    `config.update({f"CLKOUT{out}": clock, …})` — a later clock on the same pin overwrites the earlier one. -/
def gPinClock (pins : List Nat) (pin : Nat) : Option Nat :=
  (pins.zipIdx.foldl (fun acc (pn : Nat × Nat) => if pn.1 = pin then some pn.2 else acc) none)

/-- port connection of an output pin. -/
def gPortTok (c : GCfg) (pin : Nat) : PV :=
  match gPinClock c.pins pin with | some i => .tok (clkTok i) | none => .tok "open"

/-- `CLKOUTD_SRC` / `CLKOUTD3_SRC`: `config.get(f"{clk_name}_SRC", "CLKOUT")`, where compute_config stored
    "CLKOUT" if the phase of the clock on that pin is 0 else "CLKOUTP". -/
def gSrc (r : GReq) (c : GCfg) (pin : Nat) : String :=
  match gPinClock c.pins pin with
  | some i => (match r.outs[i]? with | some o => if o.phase.num = 0 then "CLKOUT" else "CLKOUTP" | none => "CLKOUT")
  | none => "CLKOUT"

def bin4 (v : Int) : String :=
  let n := v.toNat
  String.ofList ([8, 4, 2, 1].map fun b => if (n / b) % 2 = 1 then '1' else '0')

/-- `devicename`, `device` are the constructor arguments (PLLVR iff device starts with GW1NS; FDLY = 0 iff GW1N-1*). -/
def gEmit (devicename device : String) (r : GReq) (c : GCfg) : Emit :=
  let pllvr := device.startsWith "GW1NS"
  [ ("of", .str (if pllvr then "PLLVR" else "rPLL")), ("p_IDIV_SEL", pvNat (c.idiv - 1)), ("p_FBDIV_SEL", pvNat (c.fdiv - 1)),
    ("p_ODIV_SEL", pvNat c.odiv), ("p_DYN_SDIV_SEL", pvNat c.sdiv), ("p_PSDA_SEL", .str (bin4 c.psda)),
    ("p_CLKOUTD_SRC", .str (gSrc r c 3)), ("p_CLKOUTD3_SRC", .str (gSrc r c 2)),
    ("o_CLKOUT", gPortTok c 0), ("o_CLKOUTP", gPortTok c 1), ("o_CLKOUTD", gPortTok c 3), ("o_CLKOUTD3", gPortTok c 2),
    ("p_DEVICE", .str devicename), ("p_FCLKIN", .fstr ⟨r.clkin.num, r.clkin.den * 1000000⟩),
    ("p_DYN_IDIV_SEL", .str "false"), ("p_DYN_FBDIV_SEL", .str "false"), ("p_DYN_ODIV_SEL", .str "false"),
    ("p_DYN_DA_EN", .str "false"), ("p_DUTYDA_SEL", .str "1000"), ("p_CLKOUT_FT_DIR", .int 1), ("p_CLKOUTP_FT_DIR", .int 1),
    ("p_CLKOUT_DLY_STEP", .int 0), ("p_CLKOUTP_DLY_STEP", .int 0), ("p_CLKFB_SEL", .str "internal"),
    ("p_CLKOUT_BYPASS", .str "false"), ("p_CLKOUTP_BYPASS", .str "false"), ("p_CLKOUTD_BYPASS", .str "false"),
    ("i_CLKIN", .tok "clkin"), ("i_CLKFB", .tok "c0w1"), ("i_RESET", .tok "reset"), ("i_RESET_P", .tok "c0w1"),
    ("i_ODSEL", .tok "c0w6"), ("i_FBDSEL", .tok "c0w6"), ("i_IDSEL", .tok "c0w6"), ("i_PSDA", .tok "c0w4"),
    ("i_DUTYDA", .tok "c0w4"), ("i_FDLY", .tok (if device.startsWith "GW1N-1" then "c0w4" else "c15w4")),
    ("o_LOCK", .tok "locked") ] ++
  (if pllvr then [("i_VREN", .tok "c1w1")] else [])

def gOscEmit (device : String) (dv : Nat) : Emit :=
  [ ("of", .str "OSC"), ("p_DEVICE", .str device), ("p_FREQ_DIV", pvNat dv), ("o_OSCOUT", .tok "clk") ]

/-! ## CologneChip CC_PLL (no search) -/

structure MReq where
  clkin : Q
  perf  : String            -- lower-case perf_mode
  lowJitter : Nat
  lockReq : Nat
  usr   : Bool              -- usr_clk_ref
  outs  : List (Nat × Q)    -- (phase, freq) in creation order
deriving Repr, DecidableEq

def mMaxFreq (perf : String) : Option Q :=
  match perf with
  | "undefined" => some ⟨250000000, 1⟩
  | "lowpower" => some ⟨250000000, 1⟩
  | "economy" => some ⟨312500000, 1⟩
  | "speed" => some ⟨416750000, 1⟩
  | _ => none

/-- slowest requested frequency (`min`). -/
def mBase : List (Nat × Q) → Option Q
  | [] => none
  | o :: os => some (os.foldl (fun b x => if x.2.lt b then x.2 else b) o.2)

/-- the asserts of `create_clkout` (in creation order) and `do_finalize`: phases 0/90/180/270 used once, frequency below
    the perf-mode maximum, CLK0/CLK90 at the base frequency, CLK180/CLK270 at 1x or 2x. -/
def mLegal (r : MReq) : Bool :=
  match mMaxFreq r.perf, mBase r.outs with
  | some mx, some base =>
    (r.outs.map (·.1)).Nodup && r.outs.all (fun o => [0, 90, 180, 270].contains o.1 && o.2.le mx) &&
    r.outs.all fun o => if o.1 = 0 ∨ o.1 = 90 then o.2.beq base else o.2.beq base || o.2.beq (base.mulNat 2)
  | _, _ => false

def mFreqOf (r : MReq) (ph : Nat) : Option Q := (r.outs.find? (·.1 == ph)).map (·.2)

def mEmit (r : MReq) : Emit :=
  let base := (mBase r.outs).getD Q.zero
  let port (ph : Nat) : String × PV := (s!"o_CLK{ph}", .tok (if (mFreqOf r ph).isSome then s!"clk{ph}" else "open"))
  let doub (ph : Nat) : String × PV :=
    (s!"p_CLK{ph}_DOUB", .int (match mFreqOf r ph with | some f => if f.beq (base.mulNat 2) then 1 else 0 | none => 0))
  [ ("of", .str "CC_PLL"), ("p_REF_CLK", .fstr ⟨r.clkin.num, r.clkin.den * 1000000⟩),
    ("p_OUT_CLK", .fstr ⟨base.num, base.den * 1000000⟩), ("p_LOW_JITTER", pvNat r.lowJitter), ("p_PERF_MD", .str r.perf.toUpper),
    ("p_LOCK_REQ", pvNat r.lockReq), ("p_CI_FILTER_CONST", .int 2), ("p_CP_FILTER_CONST", .int 4),
    ("i_CLK_REF", .tok (if r.usr then "open" else "clkin")), ("i_USR_CLK_REF", .tok (if r.usr then "clkin" else "open")),
    ("i_CLK_FEEDBACK", .tok "c0w1"), ("i_USR_LOCKED_STDY_RST", .tok "c0w1"), ("o_CLK_REF_OUT", .tok "open"),
    ("o_USR_PLL_LOCKED_STDY", .tok "open"), ("o_USR_PLL_LOCKED", .tok "lock_raw"),
    port 0, port 90, port 180, port 270, doub 180, doub 270 ]

end Litex.Clock
