import LitexModel.Clock.Q
/-
  Models of `GW1NPLL.compute_config` (gowin_gw1n.py; also GW2APLL which only changes the ranges), of the
  `GW1NOSC` divider choice, over exact rationals (`GW5APLL.compute_config`: see Gw5a.lean).

  Results carry a status: `ok` (a config), `rejected` (ValueError), `assertion` (AssertionError), `crash` (any other
  exception, e.g. the ZeroDivisionError of `out_freq / th_div` when `th_div = 0`).
-/
namespace Litex.Clock

inductive Res (α : Type)
  | ok (a : α)
  | rejected
  | assertion
  | crash
deriving Repr, DecidableEq

structure GDev where
  pfdMin : Q
  pfdMax : Q
  vcoMin : Q
  vcoMax : Q
deriving Repr, DecidableEq, Inhabited

structure GReq where
  clkin     : Q
  vcoMargin : Q
  outs      : List Out
deriving Repr, DecidableEq

/-- Output pin chosen for a clock: 0 = CLKOUT, 1 = CLKOUTP, 2 = CLKOUTD3, 3 = CLKOUTD. -/
structure GCfg where
  idiv : Nat
  fdiv : Nat
  odiv : Nat
  sdiv : Nat
  psda : Int
  pins : List Nat
deriving Repr, DecidableEq

def gOdivs : List Nat := [2, 4, 8, 16, 32, 48, 64, 80, 96, 112, 128]

/-- `max(list, key=freq)`: the FIRST output with the highest frequency (and ITS margin). -/
def gFreqMax : List Out → Option Out
  | [] => none
  | o :: os => some (os.foldl (fun best x => if best.freq.lt x.freq then x else best) o)

/-- All candidate (diff, idiv, fdiv, odiv) in iteration order. -/
def gCandidates (d : GDev) (r : GReq) (fm : Out) : List (Q × Nat × Nat × Nat) :=
  (pyRange 1 64).flatMap fun idiv =>
    let pfd := r.clkin.divNat idiv
    if pfd.lt d.pfdMin || d.pfdMax.lt pfd then [] else
    (pyRange 1 64).flatMap fun fdiv =>
      let outF := (r.clkin.mulNat fdiv).divNat idiv
      let diff := outF.absDiff fm.freq
      gOdivs.filterMap fun odiv =>
        if inRangeM d.vcoMin d.vcoMax r.vcoMargin (outF.mulNat odiv) && diff.le (fm.freq.mul fm.margin)
        then some (diff, idiv, fdiv, odiv) else none

/-- First candidate with the smallest diff (`min(..., key=diff)`). -/
def gPick : List (Q × Nat × Nat × Nat) → Option (Q × Nat × Nat × Nat)
  | [] => none
  | c :: cs => some (cs.foldl (fun best x => if x.1.lt best.1 then x else best) c)

/-- `th_div = int(freq_max // freq)`. -/
@[inline] def gTh (fm o : Out) : Nat := (fm.freq.div o.freq).floor

/-- The code's final per-clock test `diff_f > r_freq*margin` (relative to the OBTAINED frequency) fails. -/
@[inline] def gMiss (rf : Q) (o : Out) : Bool := (rf.mul o.margin).lt (rf.absDiff o.freq)

def Res.consPin (pin : Nat) : Res (List Nat) → Res (List Nat)
  | .ok l => .ok (pin :: l)
  | .rejected => .rejected
  | .assertion => .assertion
  | .crash => .crash

/-- Per-clock pin assignment loop; `hasP` = "CLKOUTP" already in config.
    0 = CLKOUT, 1 = CLKOUTP (th_div = 1), 2 = CLKOUTD3 (th_div = 3), 3 = CLKOUTD (any other th_div). -/
def gPins (outF : Q) (fm : Out) : List Out → Bool → Res (List Nat)
  | [], _ => .ok []
  | o :: os, hasP =>
    let th := gTh fm o
    if th = 0 then .crash else
    if gMiss (outF.divNat th) o then .rejected else
    if th = 1 then
      if o.phase.num = 0 then (gPins outF fm os hasP).consPin 0
      else if hasP then .rejected else (gPins outF fm os true).consPin 1
    else if th = 3 then (gPins outF fm os hasP).consPin 2
    else (gPins outF fm os hasP).consPin 3

/-- Structural limits of the primitive on the set of dividers (`freqs_div`, `clkoutd_div`): `none` = ValueError,
    `some sdiv` = the CLKOUTD divider (SDIV_SEL). -/
def gSdiv (fm : Out) (outs : List Out) : Option Nat :=
  let fdivs := (outs.map (gTh fm)).filter (· ≠ 1)
  if fdivs.length > 2 then none else
  let dd := fdivs.filter (· ≠ 3)
  if (fdivs.length = 2 ∧ (fdivs.filter (· = 3)).length = 2) ∨ dd.length = 2 ∨
     (dd.length = 1 ∧ (dd.headD 0) % 2 ≠ 0) then none else
  some (if dd.length = 1 then dd.headD 0 else 2)

@[inline] def gOutF (r : GReq) (idiv fdiv : Nat) : Q := (r.clkin.mulNat fdiv).divNat idiv

def gSearch (d : GDev) (r : GReq) : Res GCfg :=
  match gFreqMax r.outs with
  | none => .crash                                   -- max() of an empty list
  | some fm =>
    match gPick (gCandidates d r fm) with
    | none => .rejected
    | some (_, idiv, fdiv, odiv) =>
      let outF := gOutF r idiv fdiv
      -- distinct non-zero phases
      let phases := (r.outs.filter (fun o => o.phase.num ≠ 0)).foldl
        (fun (acc : List SQ) o => if acc.any (fun p => p.beq o.phase) then acc else acc ++ [o.phase]) []
      if phases.length ≥ 2 then .assertion else
      let psda : Int := match phases with
        | [p] => (SQ.floor ⟨p.num * 2, p.den * 45⟩)          -- int(p // 22.5)
        | _ => 0
      match gSdiv fm r.outs with
      | none => .rejected
      | some sdiv =>
      match gPins outF fm r.outs false with
      | .ok pins => .ok ⟨idiv, fdiv, odiv, sdiv, psda, pins⟩
      | .rejected => .rejected
      | .assertion => .assertion
      | .crash => .crash

/-- rPLL/PLLVR parameters: (IDIV_SEL, FBDIV_SEL, ODIV_SEL, DYN_SDIV_SEL) = (idiv-1, fdiv-1, odiv, sdiv). -/
def gParams (c : GCfg) : Nat × Nat × Nat × Nat := (c.idiv - 1, c.fdiv - 1, c.odiv, c.sdiv)

/-- `GW1NOSC`: the LAST divider in `range(lo, hi)` with `f*(1-m) <= osc/div <= f*(1+m)`. -/
def gOscDiv (lo hi : Nat) (osc : Q) (o : Out) : Option Nat :=
  ((pyRange lo hi).reverse).find? fun dv =>
    let c := osc.divNat dv
    (o.freq.mul (Q.one.subT o.margin)).le c && c.le (o.freq.mul (Q.one.add o.margin))

end Litex.Clock
