import LitexModel.Machine
/-
  `litex.gen.genlib.misc.WaitTimer(t)`:

      count = Signal(bits_for(t), reset=t)
      comb += done.eq(count == 0)
      sync += If(wait, If(~done, count.eq(count - 1))).Else(count.eq(count.reset))

  One register (`count`), one input (`wait`), one output (`done`).  `count` never exceeds `t`, so the
  `bits_for(t)`-bit register never wraps and a `Nat` is an exact model.

  General model: C11 (bus timeouts) owns this file; C05/C19 import it read-only.  Core Lean only.
-/
namespace Litex.WaitTimer

/-- `done = (count == 0)`. -/
def done (count : Nat) : Bool := count == 0

/-- Register update at the clock edge. -/
def next (t : Nat) (count : Nat) (wait : Bool) : Nat :=
  if wait then (if done count then count else count - 1) else t

/-- The timer as a machine: input `wait`, output `done`. -/
def machine (t : Nat) : Machine Bool Nat Bool where
  init := t
  out c _ := done c
  next := next t

/-- `count` after a whole history of `wait` values (oldest first), starting from `c`. -/
def runFrom (t : Nat) (c : Nat) (ws : List Bool) : Nat := (machine t).runFrom c ws

/-- `count` after a history from reset. -/
def run (t : Nat) (ws : List Bool) : Nat := (machine t).run ws

/-- Specification counter: one step of "for how many consecutive cycles has `wait` been held". -/
def streakStep (k : Nat) (w : Bool) : Nat := if w then k + 1 else 0

/-- Number of consecutive waiting cycles at the end of a history (oldest first), continuing a streak of `k`. -/
def streakFrom (k : Nat) (ws : List Bool) : Nat := ws.foldl streakStep k

/-- Number of consecutive `true`s at the end of a history: for how many cycles `wait` has been held without
    interruption up to now. -/
def streak (ws : List Bool) : Nat := streakFrom 0 ws

end Litex.WaitTimer
