import LitexModel.Bits
import LitexModel.Export.Addr
/-
  C14 — the generated C accessors (`_generate_csr_read_function_c` / `_generate_csr_write_function_c`), the field
  macros, and the register they talk to (`CSRStatus/CSRStorage.do_finalize`).

  * `ctypeBits`  : `_determine_ctype_and_stride_c` (no accessor above 8 bytes).
  * `accRead`    : `ctype r = csr_read_simple(a0); r <<= busword; r |= csr_read_simple(a1); ...; return r;`
                   evaluated on the list of 32-bit values the loads return (C unsigned arithmetic in `ctype`).
  * `accWriteWords`: the 32-bit values stored by `csr_write_simple(v >> shift, a_sub)` for `sub = 0 .. nwords-1`.
  * `hwWords`    : what the hardware returns at the successive addresses for register value `v`: with ordering
                   `big` the simple CSR at the lowest address is the most significant word (`reversed(range(nwords))`),
                   with `little` the least significant.
  * `RegSt.write`: a bus write to the simple CSR holding word `i`: `storage[lo:hi] <= r` or, with `atomic_write`,
                   `backstore` for `i ≠ 0` and the commit `storage <= Cat(r, backstore)` for `i = 0`.
  The storage signal is kept as its words (word `i` = bits `[i*busword, i*busword + nbits i)`), which is exact because
  the slices partition the signal; `RegSt.value` reassembles it.
-/
namespace Litex.Export

def ctypeBits (nw busword : Nat) : Option Nat :=
  let size := nw * busword / 8
  if size > 8 then none else if size > 4 then some 64 else if size > 2 then some 32
  else if size > 1 then some 16 else some 8

/-- One step of the generated reader: `r <<= busword; r |= csr_read_simple(a);` in a `ct`-bit unsigned type. -/
def accStep (busword ct r x : Nat) : Nat := (((r <<< busword) % 2 ^ ct) ||| (x % 2 ^ 32)) % 2 ^ ct

/-- `<reg>_read()` on the values returned by the loads, in program (= ascending address) order. -/
def accRead (busword ct : Nat) : List Nat → Nat
  | [] => 0
  | w :: rest => rest.foldl (accStep busword ct) (w % 2 ^ 32 % 2 ^ ct)

/-- `<reg>_write(v)`: the 32-bit values stored at the successive addresses. -/
def accWriteWords (busword ct nw v : Nat) : List Nat :=
  (List.range nw).map fun sub => ((v % 2 ^ ct) >>> ((nw - sub - 1) * busword)) % 2 ^ 32

/-- Width of the simple CSR holding word `i`: `min(size - i*busword, busword)`. -/
def nbits (busword size i : Nat) : Nat := min (size - i * busword) busword

/-- `sc.w = status[i*busword : i*busword + nbits]`. -/
def hwWord (busword size v i : Nat) : Nat := (v / 2 ^ (i * busword)) % 2 ^ nbits busword size i

/-- Word index held by the simple CSR at address position `j` of the register. -/
def wordIdx (big : Bool) (nw j : Nat) : Nat := if big then nw - 1 - j else j

/-- Values the hardware returns at the successive addresses of a register holding `v`. -/
def hwWords (big : Bool) (busword size v : Nat) : List Nat :=
  (List.range (nwords busword size)).map fun j => hwWord busword size v (wordIdx big (nwords busword size) j)

structure RegSt where
  words : Nat → Nat
  back  : Nat → Nat

/-- Bus write of `x` (the 32-bit store data) to the simple CSR holding word `i`. -/
def RegSt.write (busword size : Nat) (atomic : Bool) (st : RegSt) (i x : Nat) : RegSt :=
  let r := x % 2 ^ nbits busword size i
  if atomic && decide (nwords busword size > 1) then
    if i = 0 then { st with words := fun k => if k = 0 then r else st.back k }
    else { st with back := fun k => if k = i then r else st.back k }
  else { st with words := fun k => if k = i then r else st.words k }

def sumWords (busword : Nat) (f : Nat → Nat) : Nat → Nat
  | 0 => 0
  | n + 1 => sumWords busword f n + f n * 2 ^ (n * busword)

/-- The storage signal. -/
def RegSt.value (busword size : Nat) (st : RegSt) : Nat := sumWords busword st.words (nwords busword size)

def RegSt.ofValue (busword size old back : Nat) : RegSt :=
  { words := hwWord busword size old, back := fun k => if k = 0 then 0 else hwWord busword size (back * 2 ^ busword) k }

/-- The stores `ws` (ascending address order, starting at address position `j0`) applied to the register. -/
def hwWriteFrom (big atomic : Bool) (busword size : Nat) (st : RegSt) : Nat → List Nat → RegSt
  | _, [] => st
  | j, x :: rest =>
    hwWriteFrom big atomic busword size
      (st.write busword size atomic (wordIdx big (nwords busword size) j) x) (j + 1) rest

def hwWrite (big atomic : Bool) (busword size : Nat) (st : RegSt) (ws : List Nat) : RegSt :=
  hwWriteFrom big atomic busword size st 0 ws

/-! ### field macros (`_generate_csr_field_accessors_c`) -/

/-- `<field>_extract(word)`: `(oldword >> offset) & mask` with `mask = (1 << size) - 1`, in `uint32_t`. -/
def fieldExtract (offset size word : Nat) : Nat := ((word % 2 ^ 32) >>> offset) &&& (2 ^ size - 1)

end Litex.Export
