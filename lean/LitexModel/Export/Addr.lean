import LitexModel.Bits
/-
  C14 — exported CSR addresses and the hardware decode they must agree with.

  Export side (`litex/soc/integration/export.py`): `get_csr_json`, `_generate_csr_region_definitions_c`,
  `_generate_csr_region_access_functions_c` all walk the registers of a region in listing order with a running
  `origin += alignment//8 * nwords`; `get_csr_header` additionally re-bases the region origins on the *first*
  region and prints them relative to its `csr_base` argument; `get_csr_svd` (through `DocumentedCSRRegion`)
  lists one entry per simple CSR with a running `+ 4`.  Region origins are recorded by `SoC.finalize`:
  `bus.regions["csr"].origin + paging * mapaddr`.

  Hardware side (`csr_bus.CSRBank`, `Wishbone2CSR`/`AXILite2CSR`, `SoC.add_csr_bridge`): the bridge is
  `csr_data_width` wide; it presents `adr = bus address >> log2(csr_data_width/8)` truncated to `address_width`
  bits; a bank is selected by `adr[log2(paging/4):] == page` and simple CSR `i` by `adr[:log2(paging/4)] == i`.
  With an 8-bit CSR bus the bridge sits behind the SoC's 32→8 down-converter, which turns one 32-bit access at
  byte offset `off` into four accesses at CSR addresses `off .. off+3`.

  Core Lean only (linked into `drv_c14`).
-/
namespace Litex.Export

/-- `(size + busword - 1)//busword` -/
def nwords (busword size : Nat) : Nat := (size + busword - 1) / busword

/-- A CSR bank as the exporters and the decoder see it: its page (`mapaddr`) and the register sizes in listing
    order (for a CSR memory window: no registers). -/
structure Bank where
  page : Nat
  regs : List Nat
deriving Repr, DecidableEq

/-- The running address computation shared by the JSON and C-header exporters: `(address, nwords)` per register. -/
def regAddrs (stride busword : Nat) : Nat → List Nat → List (Nat × Nat)
  | _, [] => []
  | origin, s :: rest =>
    (origin, nwords busword s) :: regAddrs stride busword (origin + stride * nwords busword s) rest

/-- `SoC.finalize`: `origin = bus.regions["csr"].origin + paging*mapaddr`. -/
def regionOrigin (csrBase paging : Nat) (b : Bank) : Nat := csrBase + paging * b.page

/-- `get_csr_json` / `get_csr_csv`: per bank the `(addr, size)` of every register. -/
def exportAddrs (csrBase paging alignment busword : Nat) (banks : List Bank) : List (List (Nat × Nat)) :=
  banks.map fun b => regAddrs (alignment / 8) busword (regionOrigin csrBase paging b) b.regs

/-- Address of word `j` of a register entry, as the generated accessors compute it (`reg_base + sub*stride`). -/
def wordAddr (stride : Nat) (e : Nat × Nat) (j : Nat) : Nat := e.1 + j * stride

/-- `get_csr_header(regions, csr_base=csrBaseArg)`: region offsets are taken relative to the `csr_base` argument
    (`origin = region.origin - csr_base`, fix 13a914e) and printed as `CSR_BASE + offset`. -/
def headerAddrs (csrBaseArg csrBase paging alignment busword : Nat) (banks : List Bank) :
    List (List (Nat × Nat)) :=
  banks.map fun b =>
    (regAddrs (alignment / 8) busword (regionOrigin csrBase paging b - csrBaseArg) b.regs).map
      fun e => (csrBaseArg + e.1, e.2)

/-- `get_csr_svd`: `DocumentedCSRRegion.document_csr` emits one entry per simple CSR of a compound register with
    more than one word, else one entry; `addressOffset` runs by a hard-coded 4. -/
def svdOffsets (busword : Nat) : Nat → List Nat → List Nat
  | _, [] => []
  | a, s :: rest =>
    let n := if nwords busword s > 1 then nwords busword s else 1
    (List.range n).map (fun j => a + 4 * j) ++ svdOffsets busword (a + 4 * n) rest

/-- Absolute SVD register addresses of a bank (`baseAddress + addressOffset`). -/
def svdAddrs (csrBase paging busword : Nat) (b : Bank) : List Nat :=
  (svdOffsets busword 0 b.regs).map (regionOrigin csrBase paging b + ·)

/-- All word addresses of a bank in the JSON view, flattened in listing order. -/
def flatWordAddrs (stride : Nat) (es : List (Nat × Nat)) : List Nat :=
  es.flatMap fun e => (List.range e.2).map (wordAddr stride e)

/-! ### hardware decode -/

/-- Number of simple CSRs of a bank (the flattening `GenericBank` performs). -/
def nsimple (busword : Nat) (regs : List Nat) : Nat := (regs.map (nwords busword)).sum

/-- `CSRBank`: `sel = adr[log2(paging/4):] == page`, simple CSR `i` strobed when `adr[:log2(paging/4)] == i`. -/
def bankSel (paging page n adr : Nat) : Option Nat :=
  if adr / (paging / 4) = page ∧ adr % (paging / 4) < n then some (adr % (paging / 4)) else none

/-- Every `(bank index, simple CSR index)` strobed by CSR-bus word address `adr` (banks numbered from `i`). -/
def decodeFrom (paging busword adr : Nat) : Nat → List Bank → List (Nat × Nat)
  | _, [] => []
  | i, b :: rest =>
    match bankSel paging b.page (nsimple busword b.regs) adr with
    | some x => (i, x) :: decodeFrom paging busword adr (i + 1) rest
    | none => decodeFrom paging busword adr (i + 1) rest

/-- Address the bridge puts on the CSR bus for byte offset `off` inside the CSR window. -/
def bridgeAdr (busword aw off : Nat) : Nat := (off / (busword / 8)) % 2 ^ aw

/-- One aligned 32-bit access at byte offset `off` of the CSR window: all simple CSRs that get strobed.
    8-bit CSR bus: four byte accesses through the 32→8 down-converter (`slave.adr = Cat(count, master.adr)`). -/
def hwDecode (busword aw paging : Nat) (banks : List Bank) (off : Nat) : List (Nat × Nat) :=
  if busword = 8 then
    (List.range 4).flatMap fun l => decodeFrom paging 8 ((off / 4 * 4 + l) % 2 ^ aw) 0 banks
  else decodeFrom paging busword (bridgeAdr busword aw off) 0 banks

/-- A load on an `axi-lite`/`axi` SoC whose bus is `ratio` times wider than the 32-bit CSR bridge: the AXI-Lite
    down-converter has no read strobes and reads all `ratio` parts of the aligned bus word (stores skip unstrobed
    parts, so a store is `ratio = 1`). -/
def hwDecodeWide (ratio busword aw paging : Nat) (banks : List Bank) (off : Nat) : List (Nat × Nat) :=
  if ratio ≤ 1 then hwDecode busword aw paging banks off
  else (List.range ratio).flatMap fun l =>
    hwDecode busword aw paging banks (off / (4 * ratio) * (4 * ratio) + 4 * l)

/-- `SoCCSRHandler`: `n_locs = alignment//8 * 2**address_width // paging`. -/
def nLocs (alignment aw paging : Nat) : Nat := alignment / 8 * 2 ^ aw / paging

/-- Pairwise distinct pages (`SoCLocHandler.add`: "Location already used"). -/
def pagesDistinct : List Nat → Bool
  | [] => true
  | p :: rest => !rest.contains p && pagesDistinct rest

/-- The build-time checks: every page below `n_locs` (`SoCLocHandler.add`, fix 27beba3), pages distinct, and every
    bank fits its page (`SoC.finalize`, fix 873969e).  A refused configuration raises `SoCError`. -/
def accepts (alignment aw paging busword : Nat) (banks : List Bank) : Bool :=
  banks.all (fun b => decide (b.page < nLocs alignment aw paging) && decide (nsimple busword b.regs ≤ paging / 4))
    && pagesDistinct (banks.map (·.page))

/-! ### CSR memory windows (`csr_bus.SRAM`, memory width ≤ bus word) -/

/-- `bits_for(n)`: width of `port.adr` is `bits_for(depth - 1)`. -/
def bitsFor (n : Nat) : Nat := Nat.log2 n + 1

/-- `log2_int(n, need_pow2=False)`: the least `l` with `n ≤ 2^l`. -/
def clog2 (n : Nat) : Nat := if n ≤ 1 then 0 else Nat.log2 (n - 1) + 1

/-- Number of pages the memory needs: `(depth + paging/4 - 1)//(paging/4)`. -/
def sramPages (paging depth : Nat) : Nat := (depth + paging / 4 - 1) / (paging / 4)

/-- Width of the `<mem>_page` register (`0`: no register). -/
def sramPageBits (paging depth : Nat) : Nat := clog2 (sramPages paging depth)

/-- Memory word selected by CSR-bus address `adr` in the window at `page`, with the page register holding `pv`:
    `sel = adr[log2(paging/4):] == page`, `port.adr = Cat(adr[:len(port.adr) - page_bits], pv)`. -/
def sramSel (paging page depth pv adr : Nat) : Option Nat :=
  if adr / (paging / 4) = page then
    let ab := bitsFor (depth - 1)
    let pb := sramPageBits paging depth
    some (adr % 2 ^ (ab - pb) + (pv % 2 ^ pb) * 2 ^ (ab - pb))
  else none

/-! ### CSR memories whose word is `n` bus words wide (`csrw_per_memw = n`, a power of two) -/

/-- `(memory word, sub-word)` selected by CSR-bus address `adr`: `port.adr = Cat(adr[word_bits : …], pv)`, the sub-word
    is `adr[:word_bits]`; the page count is taken over `depth·n` CSR words. -/
def sramSelWide (paging page depth n pv adr : Nat) : Option (Nat × Nat) :=
  if adr / (paging / 4) = page then
    let ab := bitsFor (depth - 1)
    let pb := clog2 ((depth * n + paging / 4 - 1) / (paging / 4))
    some ((adr / n) % 2 ^ (ab - pb) + (pv % 2 ^ pb) * 2 ^ (ab - pb), adr % n)
  else none

/-- The memory word assembled from its `n` sub-words of `dw` bits (address order): sub-word 0 is the most significant
    chunk (`Cat(bus.dat_w, reversed(wregs))` on writes, `chooser(..., reverse=True)` on reads); the write port fires
    with sub-word `n-1`. -/
def wideWord (dw : Nat) : List Nat → Nat
  | [] => 0
  | x :: rest => (x % 2 ^ dw) * 2 ^ (dw * rest.length) + wideWord dw rest

/-- Sub-word `k` of a memory word as the read path presents it. -/
def wideSub (dw n word k : Nat) : Nat := (word / 2 ^ (dw * (n - 1 - k))) % 2 ^ dw

end Litex.Export
