/-
  C14 — `litex/soc/integration/common.py:get_mem_data`: a byte file becomes a list of `data_width = 32·q`-bit
  memory words.  The file is read in chunks of `4q` bytes (the last one zero padded); each 4-byte group is
  unpacked as a little- or big-endian 32-bit integer and OR-ed in at bit `32·s` for the `s`-th group of the
  chunk (lower address = lower sub-word for both endiannesses).  Chunk `i` is stored at list index
  `(base - offset)//(4q) + i`; the list has `ceil((base - offset + len)/(4q))` entries.
-/
namespace Litex.Export

/-- `Σ dᵢ·2^(w·i)`, first element least significant. -/
def catW (w : Nat) : List Nat → Nat
  | [] => 0
  | d :: rest => d + 2 ^ w * catW w rest

/-- `struct.unpack("<I" | ">I", b[off:off+4])` on the zero-padded file. -/
def sub32 (big : Bool) (bytes : List Nat) (off : Nat) : Nat :=
  let b := fun k => bytes.getD (off + k) 0
  if big then catW 8 [b 3, b 2, b 1, b 0] else catW 8 [b 0, b 1, b 2, b 3]

/-- Chunk `i` of the file as one memory word. -/
def memWord (big : Bool) (q : Nat) (bytes : List Nat) (i : Nat) : Nat :=
  catW 32 ((List.range q).map fun s => sub32 big bytes (i * (4 * q) + 4 * s))

/-- `get_mem_data(file, data_width=32q, endianness, offset)` for one region at `base` (`baseOff = base - offset`). -/
def memImage (big : Bool) (q baseOff : Nat) (bytes : List Nat) : List Nat :=
  let bpd := 4 * q
  let n := (baseOff + bytes.length + bpd - 1) / bpd
  let nchunks := (bytes.length + bpd - 1) / bpd
  (List.range n).map fun w =>
    if baseOff / bpd ≤ w ∧ w < baseOff / bpd + nchunks then memWord big q bytes (w - baseOff / bpd) else 0

/-- The byte a CPU of the given endianness reads at byte address `a` of a memory initialised with `img`
    (`4q`-byte words; 32-bit sub-word `(a/4) mod q` at bits `32·((a/4) mod q)`; inside the sub-word byte lane
    `a mod 4` counted from the least significant end for little, from the most significant end for big). -/
def imageByte (big : Bool) (q : Nat) (img : List Nat) (a : Nat) : Nat :=
  let word := img.getD (a / (4 * q)) 0
  let sub := (word / 2 ^ (32 * ((a / 4) % q))) % 2 ^ 32
  let lane := if big then 3 - a % 4 else a % 4
  (sub / 2 ^ (8 * lane)) % 2 ^ 8

end Litex.Export
