import LitexModel.Export.Addr
/-
  C14 — the address path between a published memory window and the storage cell that answers:
  `SoCBusHandler.add_adapter` (`soc.py`) wraps every master ("m2s") and slave ("s2m") in
    bus_data_width_convert -> bus_addressing_convert -> bus_standard_convert
  and the interface the interconnect sees is the result.  The addressing step is four assignments:

      m2s, word interface on byte bus :  adapted.adr[shift:].eq(interface.adr)
      m2s, byte interface on word bus :  adapted.adr.eq(interface.adr[shift:])
      s2m, word interface on byte bus :  interface.adr.eq(adapted.adr[shift:])
      s2m, byte interface on word bus :  interface.adr[shift:].eq(adapted.adr)

  (`shift = log2_int(interface.data_width//8)`; AXI/AXI-Lite interfaces skip this step, their byte<->word shift
  is in the standard bridges `AXILite2Wishbone` / `Wishbone2AXILite`: `wishbone.adr = addr[shift:]`,
  `addr[shift:] = wishbone.adr` for a word-addressed wishbone side, identity for a byte-addressed one.)
  The slave does NOT get the region origin subtracted: its memory indexes with the low bits of what arrives
  (`wishbone.SRAM`: `port.adr = bus.adr[:len(port.adr)]`, `AXILiteSRAM`: `port.adr = addr[shift:]`).

  Also here: the JSON/CSV word count of a register (`get_csr_json`: `_size`) against the simple CSRs the hardware
  register is cut into (`CSRStatus/CSRStorage.do_finalize`).

  Core Lean only (linked into `drv_c14`).
-/
namespace Litex.Export

/-! ### `bus_addressing_convert` -/

/-- Direction "s2m": the value driven on `interface.adr` (`ifBits` wide) when `adapted_interface.adr` holds `a`. -/
def convS2M (ifWord busWord : Bool) (shift ifBits a : Nat) : Nat :=
  if ifWord = busWord then a % 2 ^ ifBits                   -- same addressing: the interface is returned un-modified
  else if ifWord then (a / 2 ^ shift) % 2 ^ ifBits          -- interface.adr.eq(adapted_interface.adr[shift:])
  else (a % 2 ^ (ifBits - shift)) * 2 ^ shift               -- interface.adr[shift:].eq(adapted_interface.adr)

/-- Direction "m2s": the value driven on `adapted_interface.adr` (`adBits` wide) when `interface.adr` holds `a`. -/
def convM2S (ifWord busWord : Bool) (shift adBits a : Nat) : Nat :=
  if ifWord = busWord then a % 2 ^ adBits
  else if ifWord then (a % 2 ^ (adBits - shift)) * 2 ^ shift    -- adapted_interface.adr[shift:].eq(interface.adr)
  else (a / 2 ^ shift) % 2 ^ adBits                           -- adapted_interface.adr.eq(interface.adr[shift:])

/-! ### the standard bridges' address shift (`base_address = 0`, as `add_adapter` instantiates them) -/

/-- `AXILite2Wishbone`: `wishbone.adr = addr[wishbone_adr_shift:]` (`shift` for a word-addressed wishbone side, else 0). -/
def axil2wb (wbWord : Bool) (shift wbBits addr : Nat) : Nat :=
  if wbWord then (addr / 2 ^ shift) % 2 ^ wbBits else addr % 2 ^ wbBits

/-- `Wishbone2AXILite`: `addr[wishbone_adr_shift:] = wishbone.adr` on an `axBits`-wide address. -/
def wb2axil (wbWord : Bool) (shift axBits adr : Nat) : Nat :=
  if wbWord then (adr % 2 ^ (axBits - shift)) * 2 ^ shift else adr % 2 ^ axBits

/-! ### from a published byte address to the cell -/

/-- What the slave is: a word-addressed wishbone core (`wishbone.SRAM`, register files), a byte-addressed wishbone core,
    or an AXI-Lite/AXI core (`AXILiteSRAM`, `add_ram` on axi SoCs). -/
inductive SlaveKind | wbword | wbbyte | axil
deriving Repr, DecidableEq

/-- What the master is (`add_master`): wishbone word / byte addressed, or AXI-Lite/AXI. -/
inductive MasterKind | wbword | wbbyte | axil
deriving Repr, DecidableEq

/-- Byte address appearing on the SoC bus (`busByte`: axi-lite/axi; else wishbone, word addressed, shown ×bytes) when a
    master of kind `mk` accesses byte address `a` (a word master presents `a / 2^sh`).  `sh = log2(bus bytes)`, `aw` =
    bus address width in byte-address bits. -/
def masterBus (mk : MasterKind) (busByte : Bool) (sh aw a : Nat) : Nat :=
  match mk, busByte with
  | .wbword, true  => wb2axil false 0 aw (convM2S true false sh aw ((a / 2 ^ sh) % 2 ^ (aw - sh)))
  | .wbword, false => (a / 2 ^ sh) % 2 ^ (aw - sh) * 2 ^ sh
  | .wbbyte, true  => wb2axil false 0 aw (convM2S false false sh aw (a % 2 ^ aw))
  | .wbbyte, false => convM2S false true sh (aw - sh) (a % 2 ^ aw) * 2 ^ sh
  | .axil,   true  => a % 2 ^ aw
  | .axil,   false => axil2wb true sh (aw - sh) (a % 2 ^ aw) * 2 ^ sh

/-- Bus-word index presented at the slave's own interface, behind the addressing/standard adapters of "s2m", for SoC-bus
    byte address `a`. -/
def chainWord (kind : SlaveKind) (busByte : Bool) (sh aw a : Nat) : Nat :=
  match kind, busByte with
  | .wbword, true  => convS2M true false sh (aw - sh) (axil2wb false 0 aw a)
  | .wbword, false => convS2M true true sh (aw - sh) (a / 2 ^ sh)
  | .wbbyte, true  => convS2M false false sh aw (axil2wb false 0 aw a) / 2 ^ sh
  | .wbbyte, false => convS2M false true sh aw ((a / 2 ^ sh) % 2 ^ (aw - sh)) / 2 ^ sh
  | .axil,   true  => a % 2 ^ aw / 2 ^ sh
  | .axil,   false => wb2axil true sh aw ((a / 2 ^ sh) % 2 ^ (aw - sh)) / 2 ^ sh

/-- The memory cell (of `2^shS` bytes; `cb = bits_for(depth-1)` index bits) selected when master `mk` accesses byte
    address `a`: through `masterBus`, the slave-side chain, and — when the slave is narrower than the bus (`shS < shB`) —
    the down-converter, which numbers the parts of a bus word in address order (`Cat(counter, master.adr)`; the part is the
    one the byte lanes of the access select). -/
def slaveCell (mk : MasterKind) (kind : SlaveKind) (busByte : Bool) (shS shB aw cb a : Nat) : Nat :=
  (chainWord kind busByte shB aw (masterBus mk busByte shB aw a) * 2 ^ (shB - shS) + (a / 2 ^ shS) % 2 ^ (shB - shS)) % 2 ^ cb

/-- 32-bit lane of that cell. -/
def slaveLane (shS a : Nat) : Nat := (a / 4) % (2 ^ shS / 4)

/-! ### JSON/CSV word count vs the hardware register -/

/-- `get_csr_json`: `_size = (csr.size + region.busword - 1)//region.busword` (printed as `size`, and the address of the
    next register advances by `alignment//8 * _size`). -/
def jsonWords (busword size : Nat) : Nat := (size + busword - 1) / busword

/-- `CSRStatus/CSRStorage.do_finalize(busword, ordering)`: the widths `min(size - i*busword, busword)` of the simple CSRs
    the register is cut into, for word index `i` ascending (address order for `little`, reversed for `big`). -/
def hwChunks (busword size : Nat) : List Nat :=
  (List.range ((size + busword - 1) / busword)).map fun i => min (size - i * busword) busword

/-- Widths in address order. -/
def hwChunksAddr (big : Bool) (busword size : Nat) : List Nat :=
  if big then (hwChunks busword size).reverse else hwChunks busword size

end Litex.Export
