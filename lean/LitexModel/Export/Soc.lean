import LitexModel.Export.Addr
import LitexModel.Soc.Loc
import LitexModel.Soc.Region
/-
  C14 — SoC-level exports that are plain Python in `SoC.finalize` / `export.py`:

  * interrupt numbers (`SoC.finalize`, "SoC IRQ Interconnect"):
        self.add_config("CPU_INTERRUPTS", max(self.irq.locs.values()) + 1)
        for name, loc in sorted(self.irq.locs.items()):
            if name in self.cpu.interrupts.keys(): continue
            if hasattr(self, name): ... self.comb += self.cpu.interrupt[loc].eq(ev.irq)
            self.add_constant(name + "_INTERRUPT", loc)
    on the locations handed out by `SoCIRQHandler` (b-c13's `LocH`, imported read-only);
  * memory regions (`get_mem_header`, `get_csr_json["memories"]`, `get_linker_regions`): `region.origin`,
    `region.size` of `soc.bus.regions` (b-c13's `Region`), the same objects whose `decoder()` the interconnect uses;
  * the SVD register list with the register kind: `DocumentedCSRRegion.document_csr` emits one entry per simple CSR only
    for a `_CompoundCSR` with more than one word, and exactly one entry for everything else (plain `CSR`s included).
-/
namespace Litex.Export
open Litex.Soc

/-! ### interrupt numbers -/

/-- The `<NAME>_INTERRUPT` constants: every IRQ location whose name is not one of the CPU's own interrupts. -/
def irqConstants {ν : Type} [DecidableEq ν] (locs : List (ν × Int)) (cpuOwn : List ν) : List (ν × Int) :=
  locs.filter fun p => !cpuOwn.contains p.1

/-- The wiring `cpu.interrupt[loc] <= <name>.ev.irq`: as `(line, name)` for every exported name that is a sub-module. -/
def irqWiring {ν : Type} [DecidableEq ν] (locs : List (ν × Int)) (cpuOwn : List ν) (isModule : ν → Bool) :
    List (Int × ν) :=
  ((irqConstants locs cpuOwn).filter fun p => isModule p.1).map fun p => (p.2, p.1)

/-- `CONFIG_CPU_INTERRUPTS = max(locs.values()) + 1`. -/
def cpuInterrupts {ν : Type} (locs : List (ν × Int)) : Int := (locs.map (·.2)).foldl max 0 + 1

/-- The interrupt lines raised when the events of the modules in `firing` are asserted and enabled. -/
def irqLines {ν : Type} [DecidableEq ν] (wiring : List (Int × ν)) (firing : List ν) : List Int :=
  (wiring.filter fun w => firing.contains w.2).map (·.1)

/-! ### memory regions -/

/-- `get_mem_header` / JSON `memories` / linker regions: `(name, origin, size)` of every bus region. -/
def memExport {ν : Type} (regions : List (ν × Region)) : List (ν × Nat × Nat) :=
  regions.map fun p => (p.1, p.2.origin, p.2.size)

/-- Names of the regions whose decoder (b-c13's `decoderAccepts`, the predicate `SoCRegion.decoder` builds) accepts
    word address `a`: the slaves the interconnect selects. -/
def selectedSlaves {ν : Type} (aw dw : Nat) (regions : List (ν × Region)) (a : Nat) : List ν :=
  (regions.filter fun p => decoderAccepts aw dw p.2 a).map (·.1)

/-! ### linker files -/

/-- `get_linker_regions(soc.mem_regions)` (regions.ld, and the `MEMORY { }` block of `get_memory_x`): one line
    `name : ORIGIN = origin, LENGTH = size` for EVERY entry of `soc.mem_regions = bus.regions`, in dictionary order — nothing
    is skipped or renamed (linker-only regions, `linker=True`, are listed like the others; the length is `size`, not
    `size_pow2`). -/
def ldRegions {ν : Type} (regions : List (ν × Region)) : List (ν × Nat × Nat) :=
  regions.map fun p => (p.1, p.2.origin, p.2.size)

/-- `get_memory_x(soc)`: the same MEMORY block, the fixed aliases, and `_stext = soc.cpu.reset_address`. -/
def memoryX {ν : Type} (regions : List (ν × Region)) (resetAddress : Nat) : List (ν × Nat × Nat) × Nat :=
  (ldRegions regions, resetAddress)

/-- Two linker lines describe byte ranges that share an address. -/
def ldOverlap {ν : Type} (a b : ν × Nat × Nat) : Prop :=
  ∃ x, (a.2.1 ≤ x ∧ x < a.2.1 + a.2.2) ∧ (b.2.1 ≤ x ∧ x < b.2.1 + b.2.2)

/-! ### SVD register list with register kinds -/

/-- Entries of one register in the SVD: `nwords` for a compound CSR (`CSRStorage`/`CSRStatus`) with more than one word,
    one otherwise (a plain `CSR` is never split). -/
def svdEntries (busword : Nat) (r : Nat × Bool) : Nat :=
  if r.2 && decide (nwords busword r.1 > 1) then nwords busword r.1 else 1

/-- `get_csr_svd` over `(size, isCompound)` registers: `addressOffset` runs by 4 per entry. -/
def svdOffsetsK (busword : Nat) : Nat → List (Nat × Bool) → List Nat
  | _, [] => []
  | a, r :: rest =>
    (List.range (svdEntries busword r)).map (fun j => a + 4 * j) ++ svdOffsetsK busword (a + 4 * svdEntries busword r) rest

def svdAddrsK (csrBase paging busword page : Nat) (regs : List (Nat × Bool)) : List Nat :=
  (svdOffsetsK busword 0 regs).map (csrBase + paging * page + ·)

/-! ### constants -/

/-- `SoC.add_constant(name, value, check_duplicate=True)` on the upper-cased name: a second declaration is an error. -/
def addConstant {ν : Type} [DecidableEq ν] (cs : List (ν × Int)) (name : ν) (value : Int) : Option (List (ν × Int)) :=
  if cs.any (·.1 == name) then none else some (cs ++ [(name, value)])

/-- A sequence of declarations; `none` = `SoCError` (the build stops). -/
def addConstants {ν : Type} [DecidableEq ν] (cs : List (ν × Int)) : List (ν × Int) → Option (List (ν × Int))
  | [] => some cs
  | (n, v) :: rest => match addConstant cs n v with
    | some cs' => addConstants cs' rest
    | none => none

end Litex.Export
