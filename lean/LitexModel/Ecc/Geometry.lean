/-
  C18 — code geometry of `litex/soc/cores/ecc.py` (module-level helpers), written as the Python loops.
  `while` loops carry fuel; the theorems of `LitexProofs/Ecc/Geometry.lean` show that the fuel is never
  exhausted (the loop always leaves through its exit test) and give the closed forms.

  Core Lean only (this file is linked into the driver executable).
-/
namespace Litex.Ecc

/-- `m = 1; while 2**m < m + k + 1: m = m + 1` — the loop, started at `m` with `fuel` iterations left. -/
def computeMLoop (k : Nat) : Nat → Nat → Nat
  | 0, m => m
  | fuel + 1, m => if 2 ^ m < m + k + 1 then computeMLoop k fuel (m + 1) else m

/-- Number of check ("syndrome") bits chosen by `compute_m_n(k)`. -/
def computeM (k : Nat) : Nat := computeMLoop k (k + 1) 1

/-- Code word length without the overall parity bit, `n = m + k`. -/
def computeN (k : Nat) : Nat := computeM k + k

/-- `compute_m_n(k)`. -/
def computeMN (k : Nat) : Nat × Nat := (computeM k, computeN k)

/-- `i = 1; while i <= m: r.append(i); i = i << 1` — started at `i`. (`n` is the Python argument `m`, which
    every caller sets to `len(codeword)`.) -/
def synLoop (n : Nat) : Nat → Nat → List Nat
  | 0, _ => []
  | fuel + 1, i => if i ≤ n then i :: synLoop n fuel (i <<< 1) else []

/-- `compute_syndrome_positions(n)`: positions (1-based) of the check bits. -/
def syndromePositions (n : Nat) : List Nat := synLoop n (n + 1) 1

/-- `compute_data_positions(n)`: `[i for i in range(1, n+1) if not i in compute_syndrome_positions(n)]`. -/
def dataPositions (n : Nat) : List Nat :=
  (List.range' 1 n).filter fun i => !(syndromePositions n).contains i

/-- `i = p; while i <= n: for j in range(min(p, n - i + 1)): r.append(i + j); i += 2*p` — started at `i`. -/
def coverLoop (n p : Nat) : Nat → Nat → List Nat
  | 0, _ => []
  | fuel + 1, i =>
    if i ≤ n then (List.range (min p (n - i + 1))).map (i + ·) ++ coverLoop n p fuel (i + 2 * p) else []

/-- `compute_cover_positions(n, p)`: positions covered by the check bit at position `p` (`p ≥ 1`; the Python
    loop does not terminate for `p = 0`, which no caller passes). -/
def coverPositions (n p : Nat) : List Nat := coverLoop n p (n + 1) p

end Litex.Ecc
