import LitexModel.Ecc.Secded
/-
  C18 — the encoder/decoder model on signal VALUES (what the driver serves and the correspondence compares), the
  decoder's internal syndrome / correction mask, the test bench's loop-back module, and the GF(2) matrices of the
  model that `LitexProofs/Ecc/Tables*.lean` compare with the tables regenerated from the real netlists
  (`LitexModel/Generated/EccTables.lean`).  Core Lean only (linked into the driver executable).
-/
namespace Litex.Ecc

/-- Value of `ECCEncoder(k).o` for the value `x` of `ECCEncoder(k).i`. -/
def encVal (k x : Nat) : Nat := bitsToNat (encode k (natToBits k x))

/-- `ECCDecoder(k)` for the value `w` of its `n+1`-bit input `i`. -/
def decVal (k : Nat) (en : Bool) (w : Nat) : DecOut := decode en (natToBits (computeN k + 1) w)

/-- `4*o + 2*sec + ded`: the three decoder outputs as one number. -/
def pack (r : DecOut) : Nat := 4 * bitsToNat r.o + 2 * (if r.sec then 1 else 0) + (if r.ded then 1 else 0)

/-- Value of the decoder's internal `syndrome` signal (after the `If(~enable, syndrome.eq(0))` override). -/
def synOf (enable : Bool) (i : Word) : Nat :=
  if enable then bitsToNat (computeSyndrome (i.drop 1)) else 0

/-- `codeword_c ^ codeword` of the decoder, in code word bit numbering (bit `p` = position `p`, bit 0 = parity):
    the bit the `Case(syndrome, …)` statement inverts (`0`: none; a syndrome beyond `n` selects a bit that the
    `n`-bit signal does not have). -/
def flipMaskOf (enable : Bool) (i : Word) : Nat :=
  let c := i.drop 1
  let s := synOf enable i
  let cc := if s = 0 then c else flipAt c (s - 1)
  2 * (bitsToNat cc ^^^ bitsToNat c)

def synVal (k : Nat) (en : Bool) (w : Nat) : Nat := synOf en (natToBits (computeN k + 1) w)
def flipMaskVal (k : Nat) (en : Bool) (w : Nat) : Nat := flipMaskOf en (natToBits (computeN k + 1) w)

/-- The test bench's / memory controller's use of the two cores: `decoder.i = encoder.o ^ flip` in one module.
    Result: `(encoder.o, decoder outputs)`. -/
def loopback (k : Nat) (en : Bool) (x flip : Nat) : Nat × DecOut :=
  (encVal k x, decVal k en (encVal k x ^^^ flip))

/-! ### GF(2) matrices of the model (evaluated on the zero word and the unit vectors) -/

/-- Generator matrix: row `b` = code word of the data word `1 <<< b`. -/
def mEncRows (k : Nat) : List Nat := (List.range k).map fun b => encVal k (2 ^ b)

/-- Extraction matrix: outputs of the disabled decoder for the input `1 <<< j`. -/
def mDecPass (k : Nat) : List Nat := (List.range (computeN k + 1)).map fun j => pack (decVal k false (2 ^ j))

/-- Single-error table: outputs of the enabled decoder for the zero code word with bit `j` inverted. -/
def mDecSingle (k : Nat) : List Nat :=
  (List.range (computeN k + 1)).map fun j => pack (decVal k true (encVal k 0 ^^^ 2 ^ j))

/-- Parity-check matrix: the syndrome the decoder computes for the zero code word with bit `j` inverted. -/
def mSynCols (k : Nat) : List Nat :=
  (List.range (computeN k + 1)).map fun j => synVal k true (encVal k 0 ^^^ 2 ^ j)

/-- Correction table: the bit the decoder inverts for the zero code word with bit `j` inverted. -/
def mFlipCols (k : Nat) : List Nat :=
  (List.range (computeN k + 1)).map fun j => flipMaskVal k true (encVal k 0 ^^^ 2 ^ j)

end Litex.Ecc
