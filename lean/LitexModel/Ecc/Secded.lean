import LitexModel.Ecc.Geometry
/-
  C18 — bit-level model of the `SECDED` mix-in, `ECCEncoder` and `ECCDecoder` of `litex/soc/cores/ecc.py`.

  A `Signal(w)` is a `Word` = list of `w` bits, least significant first (`sig[j]` = element `j`).
  The 1-based code word position `c` is the bit `codeword[c-1]`, exactly as in the Python code.
  Core Lean only (linked into the driver executable).
-/
namespace Litex.Ecc

abbrev Word := List Bool

/-- `codeword[c-1]` (positions are 1-based). -/
def bitAt (cw : Word) (c : Nat) : Bool := cw.getD (c - 1) false

/-- `codeword[c-1].eq(v)` — a later comb assignment to one bit overrides the earlier value of that bit. -/
def setAt (cw : Word) (c : Nat) (v : Bool) : Word := cw.set (c - 1) v

/-- `sig ^ (1 << j)` truncated to the width of `sig` (no effect when `j ≥ len(sig)`). -/
def flipAt (cw : Word) (j : Nat) : Word := cw.set j (!cw.getD j false)

/-- `for i, p in enumerate(pos): codeword[p-1].eq(vals[i])` on top of the value `base`;
    `start` is the running `enumerate` index. -/
def scatter (pos : List Nat) (vals : Word) (base : Word) (start : Nat := 0) : Word :=
  (pos.zipIdx start).foldl (fun cw pi => setAt cw pi.1 (vals.getD pi.2 false)) base

/-- `SECDED.place_data`: data bit `i` goes to the `i`-th data position; all other bits of the fresh signal
    `codeword_d` stay at their reset value 0. -/
def placeData (data : Word) (n : Nat) : Word :=
  scatter (dataPositions n) data (List.replicate n false)

/-- `SECDED.extract_data`: `data[i].eq(codeword[d_pos[i]-1])`. -/
def extractData (cw : Word) : Word := (dataPositions cw.length).map (bitAt cw)

/-- The chain `pn = Signal(); for c in c_pos: new_pn = pn ^ codeword[c-1]; pn = new_pn`. -/
def xorFold (cw : Word) (cpos : List Nat) : Bool := cpos.foldl (fun pn c => pn ^^ bitAt cw c) false

/-- `SECDED.compute_syndrome`: bit `i` (for `i, p in enumerate(p_pos)`) is the XOR chain over
    `compute_cover_positions(len(codeword), 2**i)`. -/
def computeSyndrome (cw : Word) : Word :=
  (List.range (syndromePositions cw.length).length).map fun i =>
    xorFold cw (coverPositions cw.length (2 ^ i))

/-- `SECDED.place_syndrome`: `codeword[p_pos[i]-1].eq(syndrome[i])` on top of `codeword`. -/
def placeSyndrome (syndrome : Word) (cw : Word) : Word :=
  scatter (syndromePositions cw.length) syndrome cw

/-- `SECDED.compute_parity`: `Reduce("XOR", [codeword[i] for i in range(len(codeword))])`. -/
def xorAll (w : Word) : Bool := w.foldl (· ^^ ·) false

/-- Value of a signal as a number. -/
def bitsToNat : Word → Nat
  | [] => 0
  | b :: bs => (if b then 1 else 0) + 2 * bitsToNat bs

/-- The low `w` bits of a number as a signal value. -/
def natToBits (w x : Nat) : Word := (List.range w).map x.testBit

/-- `ECCEncoder(k)`: `i` is the `k`-bit data word; result `o = Cat(parity, codeword_d_p)` (`n+1` bits,
    bit 0 = overall parity, bit `c` = code word position `c`). -/
def encode (k : Nat) (i : Word) : Word :=
  let n := computeN k
  let codeword_d := placeData i n
  let syndrome := computeSyndrome codeword_d
  let codeword_d_p := placeSyndrome syndrome codeword_d
  let parity := xorAll codeword_d_p
  parity :: codeword_d_p

structure DecOut where
  o   : Word
  sec : Bool
  ded : Bool
deriving Repr, DecidableEq

/-- `ECCDecoder(k)` for an input word `i` of `n+1` bits (`len(codeword) = len(i) - 1`). -/
def decode (enable : Bool) (i : Word) : DecOut :=
  let parity := xorAll i
  let codeword := i.drop 1
  let syndrome0 := computeSyndrome codeword
  -- `If(~enable, syndrome.eq(0))`
  let syndrome := if enable then syndrome0 else syndrome0.map fun _ => false
  -- `Case(syndrome, {s: codeword_c.eq(codeword ^ (1 << (s-1))) for s in 1..2**m-1, default: codeword})`
  let s := bitsToNat syndrome
  let codeword_c := if s = 0 then codeword else flipAt codeword (s - 1)
  { o   := extractData codeword_c
    sec := s != 0 && parity
    ded := s != 0 && !parity }

end Litex.Ecc
