import LitexModel.Generated.Tables8b10b
import LitexModel.Machine
import LitexModel.Bits
/-
  Model of `litex/soc/cores/code_8b10b.py`: `SingleEncoder` (registered stage 1 + combinational stage 2),
  `Encoder(nwords, lsb_first)` (disparity chaining, `ce`), `Decoder(lsb_first)`.

  The ten tables come from `Generated/Tables8b10b.lean`, rewritten from the imported Python module on every
  run.  The functions below transcribe the If/Else structure of the Migen code over those tables, including
  what the code does for inputs outside the defined code (K with an undefined symbol, unused code words).

  Conventions: a disparity bit is `false` for RD− and `true` for RD+ (`disp_in`/`disp_out`).  A 10-bit word
  in "msb-first" form has `a` (first transmitted bit) in bit 9 and `j` in bit 0: `Cat(output_4b, output_6b)`.
-/
namespace Litex.Code8b10b
open Tables

/-- `Array(table)[i]` (index always in range on the unchanged tree). -/
def look (t : List Nat) (i : Nat) : Nat := t.getD i 0
def lookB (t : List Nat) (i : Nat) : Bool := t.getD i 0 != 0

/-- Stage-1 registers of `SingleEncoder`. -/
structure Stage1 where
  code6b : Nat
  unb6   : Bool
  flip6  : Bool
  code4b : Nat
  unb4   : Bool
  flip4  : Bool
  alt0   : Bool   -- alt7_rd0
  alt1   : Bool   -- alt7_rd1
deriving Repr, DecidableEq

/-- Reset values of the stage-1 registers (all zero). -/
def Stage1.reset : Stage1 := ⟨0, false, false, 0, false, false, false, false⟩

/-- Stage 1 (`self.sync`): 5b/6b and 3b/4b look-up, K.28 special case, alternate D.x.7 flags. -/
def stage1 (d : Nat) (k : Bool) : Stage1 :=
  let c5 := d % 32
  let c3 := (d / 32) % 8
  let k28 := k && c5 == 28
  let is7 := c3 == 7
  { code6b := if k28 then 0b110000 else look table_5b6b c5 % 64
    unb6   := if k28 then true else lookB table_5b6b_unbalanced c5
    flip6  := if k28 then true else lookB table_5b6b_flip c5
    code4b := look table_3b4b c3 % 16
    unb4   := lookB table_3b4b_unbalanced c3
    flip4  := if k then true else lookB table_3b4b_flip c3
    alt0   := is7 && (c5 == 17 || c5 == 18 || c5 == 20 || k)
    alt1   := is7 && (c5 == 11 || c5 == 13 || c5 == 14 || k) }

/-- Stage 2 (`self.comb`): disparity control.  Returns `(output_msb_first, disp_out)`. -/
def stage2 (s : Stage1) (disp : Bool) : Nat × Bool :=
  let dispInter := disp ^^ s.unb6
  let out6 := if !disp && s.flip6 then s.code6b ^^^ 63 else s.code6b
  let r : Bool × Nat :=
    if !dispInter && s.alt0 then (!dispInter, 0b0111)
    else if dispInter && s.alt1 then (!dispInter, 0b1000)
    else (dispInter ^^ s.unb4, if !dispInter && s.flip4 then s.code4b ^^^ 15 else s.code4b)
  (out6 * 16 + r.2, r.1)

/-- The intermediate disparity after the 6b half (`disp_inter`). -/
def dispInter (s : Stage1) (disp : Bool) : Bool := disp ^^ s.unb6

/-- One symbol through both stages: `(10-bit word msb-first, disp_out)`. -/
def encode1 (d : Nat) (k : Bool) (disp : Bool) : Nat × Bool := stage2 (stage1 d k) disp

/-- Bit reversal of a 10-bit word (`lsb_first=True`). -/
def rev10 (w : Nat) : Nat :=
  (List.range 10).foldl (fun acc i => acc + (if w.testBit i then 2 ^ (9 - i) else 0)) 0

def fmt (lsb : Bool) (w : Nat) : Nat := if lsb then rev10 w else w

/-- Number of ones among the low 10 bits. -/
def ones10 (w : Nat) : Nat :=
  (List.range 10).foldl (fun acc i => acc + (if w.testBit i then 1 else 0)) 0

/-! ### `Encoder(nwords, lsb_first)` -/

/-- A symbol offered to the encoder. -/
structure Sym where
  d : Nat
  k : Bool
deriving Repr, DecidableEq

/-- Registers of `Encoder`: per-word stage-1 registers, `encoders[0].disp_in`, `output[i]`, `disparity[i]`. -/
structure EncState where
  st1   : List Stage1
  disp  : Bool
  outs  : List Nat
  disps : List Bool
deriving Repr, DecidableEq

def EncState.init (n : Nat) : EncState :=
  { st1 := List.replicate n Stage1.reset, disp := false, outs := List.replicate n 0,
    disps := List.replicate n false }

/-- The combinational chain `e2.disp_in = e1.disp_out`: per word `(output_msb_first, disp_out)` and the
    disparity after the last word. -/
def chain : List Stage1 → Bool → List (Nat × Bool) × Bool
  | [], d => ([], d)
  | s :: rest, d =>
    let r := stage2 s d
    let t := chain rest r.2
    (r :: t.1, t.2)

/-- One clock edge of `Encoder` with `ce = 1`; `syms` are the `(d[i], k[i])` inputs. -/
def encStep (lsb : Bool) (s : EncState) (syms : List Sym) : EncState :=
  let c := chain s.st1 s.disp
  { st1 := syms.map (fun x => stage1 x.d x.k)
    disp := c.2
    outs := c.1.map (fun r => fmt lsb r.1)
    disps := c.1.map (·.2) }

/-- `Encoder` as a machine: input `(ce, syms)`, outputs the registered `(output[i], disparity[i])`. -/
def encoder (n : Nat) (lsb : Bool) : Machine (Bool × List Sym) EncState (List Nat × List Bool) where
  init := EncState.init n
  out s _ := (s.outs, s.disps)
  next s i := if i.1 then encStep lsb s i.2 else s

/-! ### `Decoder(lsb_first)` -/

/-- Registers of `Decoder`: the registered read address of the 6b/5b memory, `code3b`, `k`, `ones`. -/
structure DecState where
  adr  : Nat
  c3   : Nat
  k    : Bool
  ones : Nat
deriving Repr, DecidableEq

def DecState.init : DecState := ⟨0, 0, false, 0⟩

/-- One clock edge of `Decoder` with `ce = 1` on the msb-first input `w` (10 bits). -/
def decStepMsb (w : Nat) : DecState :=
  let c6 := (w / 16) % 64
  let c4 := w % 16
  let r : Bool × Nat :=
    if c6 == 0b001111 then (true, look table_4b3b_kn c4)
    else if c6 == 0b110000 then (true, look table_4b3b_kp c4)
    else ((c4 == 0b0111 || c4 == 0b1000) &&
            (c6 != 0b100011 && c6 != 0b010011 && c6 != 0b001011 &&
             c6 != 0b110100 && c6 != 0b101100 && c6 != 0b011100),
          look table_4b3b c4)
  { adr := c6, c3 := r.2 % 8, k := r.1, ones := ones10 w }

/-- Combinational outputs `(d, k, invalid)` of `Decoder` from its registers. -/
def decOut (s : DecState) : Nat × Bool × Bool :=
  (look table_6b5b s.adr % 32 + 32 * s.c3, s.k, s.ones != 4 && s.ones != 5 && s.ones != 6)

/-- `Decoder` as a function of the msb-first 10-bit input: `(d, k, invalid)` one cycle later. -/
def decode1 (w : Nat) : Nat × Bool × Bool := decOut (decStepMsb w)

def decStep (lsb : Bool) (input : Nat) : DecState := decStepMsb (fmt lsb (input % 1024))

def decoder (lsb : Bool) : Machine (Bool × Nat) DecState (Nat × Bool × Bool) where
  init := DecState.init
  out s _ := decOut s
  next s i := if i.1 then decStep lsb i.2 else s

/-! ### Specification-level vocabulary -/

/-- The 12 control symbols of the code: K.28.0–K.28.7, K.23.7, K.27.7, K.29.7, K.30.7. -/
def kList : List Nat := [28, 60, 92, 124, 156, 188, 220, 252, 247, 251, 253, 254]

/-- A byte; if flagged as control then one of the 12 defined control symbols. -/
def Sym.Valid (s : Sym) : Prop := s.d < 256 ∧ (s.k = true → s.d ∈ kList)

instance (s : Sym) : Decidable s.Valid := by unfold Sym.Valid; exact inferInstance

/-- Successive encoding of a symbol sequence with chained running disparity: the emitted words (msb-first). -/
def encodeSeq : Bool → List Sym → List Nat
  | _, [] => []
  | disp, s :: rest => (encode1 s.d s.k disp).1 :: encodeSeq (encode1 s.d s.k disp).2 rest

/-- Running disparity after a symbol sequence. -/
def dispAfter : Bool → List Sym → Bool
  | disp, [] => disp
  | disp, s :: rest => dispAfter (encode1 s.d s.k disp).2 rest

/-- Running disparity after each symbol of a sequence (the `disparity[i]` outputs). -/
def dispSeq : Bool → List Sym → List Bool
  | _, [] => []
  | disp, s :: rest => (encode1 s.d s.k disp).2 :: dispSeq (encode1 s.d s.k disp).2 rest

/-- The `n` low bits of `w`, most significant first — the order of transmission of an msb-first word. -/
def bitsMsb : Nat → Nat → List Bool
  | 0, _ => []
  | n + 1, w => w.testBit n :: bitsMsb n w

/-- The serial bit stream of a word sequence (first transmitted bit first). -/
def serial (ws : List Nat) : List Bool := ws.flatMap (bitsMsb 10)

/-- The `n` low bits of `w`, least significant first — the order of transmission of an lsb-first word. -/
def bitsLsb : Nat → Nat → List Bool
  | 0, _ => []
  | n + 1, w => w.testBit 0 :: bitsLsb n (w / 2)

/-- Serial bit stream of lsb-first words (`lsb_first=True`, what `StreamEncoder` emits). -/
def serialLsb (ws : List Nat) : List Bool := ws.flatMap (bitsLsb 10)

end Litex.Code8b10b
