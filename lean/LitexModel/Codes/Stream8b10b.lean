import LitexModel.Codes.Code8b10b
import LitexModel.Stream.Core
/-
  `stream.PipelinedActor(latency)` for latency 1 and 2 around a clock-enabled datapath, and the two users in
  `code_8b10b.py`: `StreamEncoder(nwords)` (latency 2, `Encoder(nwords, lsb_first=True)`) and
  `StreamDecoder(nwords)` (latency 1, `nwords × Decoder(lsb_first=True)`).

  `pipe_ce = source.ready | ~valid_L` gates *every* register: the valid/first/last shift registers and the
  datapath.  The datapath is clocked with whatever is on the sink data lines whenever `pipe_ce = 1`, also when
  `sink.valid = 0` (a bubble) — this is what the code does, and it matters for the encoder's running disparity.
-/
namespace Litex.Code8b10b
open Litex.Stream

/-- A clock-enabled datapath: registers `δ`, clocked with the sink payload, showing a source payload. -/
structure Datapath (α β δ : Type) where
  init : δ
  next : δ → α → δ
  out  : δ → β

/-! ### latency 1 -/

structure P1State (δ : Type) where
  v1 : Bool
  f1 : Bool
  l1 : Bool
  dp : δ
deriving Repr, DecidableEq

def pipe1 {α β δ : Type} (D : Datapath α β δ) : Elem α β (P1State δ) where
  init := { v1 := false, f1 := false, l1 := false, dp := D.init }
  fwd s _ _ := (s.v1, { data := D.out s.dp, first := s.f1, last := s.l1 })
  bwd s _ _ r := r || !s.v1
  next s v t r :=
    if r || !s.v1 then
      { v1 := v, f1 := v && t.first, l1 := v && t.last, dp := D.next s.dp t.data }
    else s

/-! ### latency 2 -/

structure P2State (δ : Type) where
  v1 : Bool
  v2 : Bool
  f1 : Bool
  f2 : Bool
  l1 : Bool
  l2 : Bool
  dp : δ
deriving Repr, DecidableEq

def pipe2 {α β δ : Type} (D : Datapath α β δ) : Elem α β (P2State δ) where
  init := { v1 := false, v2 := false, f1 := false, f2 := false, l1 := false, l2 := false, dp := D.init }
  fwd s _ _ := (s.v2, { data := D.out s.dp, first := s.f2, last := s.l2 })
  bwd s _ _ r := r || !s.v2
  next s v t r :=
    if r || !s.v2 then
      { v1 := v, v2 := s.v1, f1 := v && t.first, f2 := s.f1, l1 := v && t.last, l2 := s.l1,
        dp := D.next s.dp t.data }
    else s

/-- `PipelinedActor.busy`: some stage holds a valid token. -/
def P1State.busy {δ : Type} (s : P1State δ) : Bool := s.v1
def P2State.busy {δ : Type} (s : P2State δ) : Bool := s.v1 || s.v2

/-- `pipe_ce` of either pipeline in a given cycle is `sink.ready`. -/
def pipeCe {α β σ : Type} (e : Elem α β σ) (s : σ) (i : In α) : Bool := (e.out s i).ready

/-! ### payload packing (`sink.d[8i:8i+8]`, `sink.k[i]`, `source.data[10i:10i+10]`) -/

/-- Unpack `n` symbols from the sink payload `d + (k <<< 8n)`. -/
def unpackSyms (n : Nat) (x : Nat) : List Sym :=
  (List.range n).map fun i => ⟨slice (8 * i) 8 x, (x / 2 ^ (8 * n)).testBit i⟩

/-- Pack words of width `w`, first word lowest. -/
def packW (w : Nat) : List Nat → Nat
  | [] => 0
  | x :: rest => x % 2 ^ w + 2 ^ w * packW w rest

def unpackW (w n : Nat) (x : Nat) : List Nat := (List.range n).map fun i => slice (w * i) w x

def packBits : List Bool → Nat
  | [] => 0
  | b :: rest => b2n b + 2 * packBits rest

/-- Pack symbols into the `[("d", 8n), ("k", n)]` payload. -/
def packSyms (n : Nat) (l : List Sym) : Nat :=
  packW 8 (l.map (·.d)) % 2 ^ (8 * n) + 2 ^ (8 * n) * packBits (l.map (·.k))

/-! ### `StreamEncoder(nwords)` -/

def encDatapath (n : Nat) : Datapath (List Sym) (List Nat) EncState where
  init := EncState.init n
  next s syms := encStep true s syms
  out s := s.outs

/-- `StreamEncoder(nwords)` on structured tokens (lists of `(d, k)` in, list of lsb-first words out).  The
    driver packs/unpacks the payloads (`unpackSyms`, `packW`) at the protocol boundary. -/
def streamEncoder (n : Nat) := pipe2 (encDatapath n)

/-! ### `StreamDecoder(nwords)` -/

def decDatapath (n : Nat) : Datapath (List Nat) (List Sym) (List DecState) where
  init := List.replicate n DecState.init
  next _ ws := ws.map (decStep true)
  out s := s.map fun x => ⟨(decOut x).1, (decOut x).2.1⟩

/-- `StreamDecoder(nwords)` on structured tokens (list of lsb-first words in, list of `(d, k)` out). -/
def streamDecoder (n : Nat) := pipe1 (decDatapath n)

end Litex.Code8b10b
