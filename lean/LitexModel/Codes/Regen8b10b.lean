import LitexModel.Codes.Code8b10b
import LitexModel.Generated.Netlist8b10b
/-
  The model side of the regenerated netlist truth tables (`Generated/Netlist8b10b.lean`): the packing of the
  model's answers in the layout of the tables, and the chain probe of the multi-word `Encoder`.  The tables are
  produced on every run by evaluating the REAL elaborated `SingleEncoder` / `Decoder` / `Encoder` netlists over
  their complete finite input spaces; `LitexProofs/Codes/Regen.lean` proves by kernel evaluation that the
  hand-written model equals them entry by entry.
-/
namespace Litex.Code8b10b

/-- Bit `j` of a table index. -/
def ibit (i j : Nat) : Bool := (i / 2 ^ j) % 2 == 1

/-- `encode1` in the layout of `Netlist.encMsb` / `Netlist.encLsb`: index `d + 256*k + 512*disp_in`,
    entry `output + 1024*disp_out` (output in the bit order of `lsb_first`). -/
def encEntry (lsb : Bool) (i : Nat) : Nat :=
  let r := encode1 (i % 256) (ibit i 8) (ibit i 9)
  fmt lsb r.1 + 1024 * b2n r.2

/-- `Decoder(lsb_first)` of the model in the layout of `Netlist.decMsb` / `Netlist.decLsb`. -/
def decEntry (lsb : Bool) (w : Nat) : Nat :=
  let r := decOut (decStep lsb w)
  r.1 + 256 * b2n r.2.1 + 512 * b2n r.2.2

/-- Stage 2 on the reset values of the stage-1 registers (`SingleEncoder` straight after reset). -/
def resetEntry (c : Bool) : Nat := (stage2 Stage1.reset c).1 + 1024 * b2n (stage2 Stage1.reset c).2

/-- `sum_i (output[i] + 1024*disparity[i]) * 2048^i`. -/
def packLanes : List Nat → List Bool → Nat
  | o :: os, b :: bs => o + 1024 * b2n b + 2048 * packLanes os bs
  | _, _ => 0

/-- The three enabled input groups of a chain probe: a prefix leaving the running disparity at `c` (D3.0 in lane 0
    flips RD− to RD+, D0.0 keeps it), the probed group (`(d, k)` in `lane`, D0.0 elsewhere), a flush group. -/
def probeGroups (n lane d : Nat) (k c : Bool) : List (Bool × List Sym) :=
  [(true, (List.range n).map fun i => if c && i == 0 then ⟨3, false⟩ else ⟨0, false⟩),
   (true, (List.range n).map fun i => if i == lane then ⟨d, k⟩ else ⟨0, false⟩),
   (true, List.replicate n ⟨0, false⟩)]

/-- The registered outputs of the model `Encoder(n, msb)` after a chain probe, packed as in `Netlist.chain*`. -/
def chainProbe (n lane d : Nat) (k c : Bool) : Nat :=
  let s := (encoder n false).run (probeGroups n lane d k c)
  packLanes s.outs s.disps

/-- Entry `1024*lane + d + 256*k + 512*c` of `Netlist.chain2`. -/
def chain2Entry (i : Nat) : Nat := chainProbe 2 (i / 1024) (i % 256) (ibit i 8) (ibit i 9)

/-- The table of `Encoder(n)` over the probe symbols: entry `(2*lane + c)*16 + j`. -/
def chainProbeTable (n : Nat) : List Nat :=
  (List.range n).flatMap fun lane => [false, true].flatMap fun c =>
    Netlist.probeSyms.map fun s => chainProbe n lane s.1 (s.2 == 1) c

/-! ### the set of code words (specification vocabulary, served by the driver) -/

/-- Bit `w` is set iff the 10-bit word `w` is the encoding of a data byte or defined control symbol under some
    running disparity (proof artefact; `fin_code_image`/`fin_code_preimage` show it is exactly the image). -/
def codeMask : Nat := 4352014392959495412947095964500238712258574323220877312933185503668046783355921383586562151813472576557158919812917880646885683414647289081631460845416052267589054483119010950670981733806348990549467022887224071787796812227748988145857234852964705882006497991705056037761245704617984

def isCodeWord (w : Nat) : Bool := codeMask.testBit w

/-- The regenerated tables by bit order. -/
def netEnc (lsb : Bool) : List Nat := if lsb then Netlist.encLsb else Netlist.encMsb
def netDec (lsb : Bool) : List Nat := if lsb then Netlist.decLsb else Netlist.decMsb

end Litex.Code8b10b
