import LitexModel.Generated.Tables8b10b
import LitexModel.Bits
/-
  The build-time Python of `code_8b10b.py` that derives eight of the ten tables from the two primary ones:
  `disparity`, `reverse_table_flip`, `reverse_table`, `K`, `D`.  (`LitexProofs/Codes/Build.lean` proves that the
  dumped tables are what these constructions give from `table_5b6b` / `table_3b4b`.)
-/
namespace Litex.Code8b10b

/-- `K(x, y)` / `D(x, y)`: `(y << 5) | x` (for `x < 32`; the code does not mask). -/
def symK (x y : Nat) : Nat := (y <<< 5) ||| x
def symD (x y : Nat) : Nat := (y <<< 5) ||| x

/-- `disparity(word, nbits)`: ones minus zeros among the low `nbits` bits. -/
def disparity (word nbits : Nat) : Int :=
  (List.range nbits).foldl (fun acc i => if word.testBit i then acc + 1 else acc - 1) 0

/-- `outputs[w] = i` if the slot is still `None`; `none` models the `ValueError` on an occupied slot (and the
    `IndexError` on a word outside the table). -/
def putNew (out : List (Option Nat)) (w i : Nat) : Option (List (Option Nat)) :=
  match out[w]? with
  | some none => some (out.set w (some i))
  | _ => none

/-- The loop of `reverse_table_flip`: entry `i` of `inputs` is entered at `inputs[i]` and, if flagged, at its
    complement `~word & mask`. -/
def revLoop (mask : Nat) : List (Nat × Bool) → Nat → List (Option Nat) → Option (List (Option Nat))
  | [], _, out => some out
  | (w, f) :: rest, i, out =>
    match putNew out w i with
    | none => none
    | some out1 =>
      if f then
        match putNew out1 (mask - w) i with
        | none => none
        | some out2 => revLoop mask rest (i + 1) out2
      else revLoop mask rest (i + 1) out1

/-- `reverse_table_flip(inputs, flips, nbits)`; unset entries become 0.  `zip` truncates as Python's does. -/
def reverseTableFlip (inputs : List Nat) (flips : List Bool) (nbits : Nat) : Option (List Nat) :=
  (revLoop (2 ^ nbits - 1) (inputs.zip flips) 0 (List.replicate (2 ^ nbits) none)).map (·.map (·.getD 0))

/-- `reverse_table(inputs, nbits)`. -/
def reverseTable (inputs : List Nat) (nbits : Nat) : Option (List Nat) :=
  reverseTableFlip inputs (inputs.map fun _ => false) nbits

end Litex.Code8b10b
