"""C18 (ECC SECDED) — real-code wrappers, independent matrix-form reference, property oracle, job pool.

Real side: `litex.soc.cores.ecc` helpers are called directly; `ECCEncoder(k)` / `ECCDecoder(k)` are elaborated and
evaluated with the repository's own `Evaluator` through `netlist.Netlist` (combinational: set / settle / get).

Speed note: the XOR chains of `compute_syndrome` are up to n/2 signals long and the Evaluator needs one full
comb pass per chain link.  `CombEval.eval` therefore first runs ONE statement-by-statement pass (execute + commit per
statement, source order) as a pre-conditioner and then calls `Netlist.settle()`, the unmodified reference
fix-point loop, which decides the final values (it terminates only when a complete comb pass changes nothing).
The pre-conditioner can therefore never change a result, only the number of passes; `selfcheck()` compares it
against the plain loop anyway.
"""
import os, json, time, itertools, random
import envshim  # noqa: F401
from netlist import Netlist

VERIF = os.path.dirname(os.path.dirname(os.path.abspath(__file__)))
LARGE_KS = (11, 15, 16, 26, 32, 57, 64, 120, 128)


def ecc():
    import litex.soc.cores.ecc as m
    return m


# ---------------------------------------------------------------------------------------------------------
# real code

class Hang(Exception):
    pass


class alarm:
    """`with alarm(t, what):` raises Hang if the block runs longer than t seconds (a changed helper loop or a
    comb loop that never settles must end as a reported disagreement, not as an endless run).  Nests: the outer
    timer is re-armed with its remaining time on exit."""
    def __init__(self, seconds, what=""):
        self.seconds = seconds
        self.what = what

    def _fire(self, *a):
        raise Hang("no result within %gs: %s" % (self.seconds, self.what))

    def __enter__(self):
        import signal
        self.t0 = time.time()
        self.old_handler = signal.signal(signal.SIGALRM, self._fire)
        self.old_left = signal.setitimer(signal.ITIMER_REAL, self.seconds)[0]
        return self

    def __exit__(self, *exc):
        import signal
        signal.setitimer(signal.ITIMER_REAL, 0)
        signal.signal(signal.SIGALRM, self.old_handler)
        if self.old_left:
            signal.setitimer(signal.ITIMER_REAL, max(0.01, self.old_left - (time.time() - self.t0)))
        return False


CURRENT = {}     # last input handed to the real code (reported when a job dies or hangs)


class CombEval:
    def __init__(self, module, ins, outs):
        self.module = module
        self.ins = ins
        self.outs = outs
        self.n = Netlist(module)
        self.evals = 0

    def eval(self, *vals, plain=False):
        n = self.n
        ev = n.ev
        CURRENT["inputs"] = list(vals)
        for s, v in zip(self.ins, vals):
            n.set(s, v)
        if not plain:
            for st in n.comb:
                ev.execute([st])
                ev.commit()
        n.settle()
        self.evals += 1
        return tuple(n.getu(s) for s in self.outs)


class RealEcc:
    """Encoder + decoder netlists of one width.

    Every range the harness enumerates comes from the constructor argument k: `n` is the Hamming-bound code length
    for k (ref_m_n, independent of ecc.py), never `compute_m_n` or a signal width of the implementation; flip
    positions / decoder words range over `nbits` = n+1 widened (never narrowed) to the implementation's ports, so a
    shrunk or mis-sized signal cannot hide the bits it drops.  The model always receives the unmasked value."""
    def __init__(self, k):
        E = ecc()
        self.k = k
        self.m, self.n = ref_m_n(k)
        CURRENT.clear()
        CURRENT.update({"k": k, "doing": "elaborating ECCEncoder/ECCDecoder(%d)" % k})
        with alarm(120, "elaborating ECCEncoder/ECCDecoder(%d)" % k):
            self.impl_mn = tuple(E.compute_m_n(k))
            enc = E.ECCEncoder(k)
            dec = E.ECCDecoder(k)
            self.widths = (len(enc.i), len(enc.o), len(dec.i), len(dec.o), len(dec.sec), len(dec.ded), len(dec.enable))
            self.want_widths = (k, self.n + 1, self.n + 1, k, 1, 1, 1)
            self.n_impl = len(enc.o) - 1
            self.nbits = max(self.n + 1, len(enc.o), len(dec.i))
            self.enc = CombEval(enc, [enc.i], [enc.o])
            self.dec = CombEval(dec, [dec.enable, dec.i], [dec.o, dec.sec, dec.ded])
        CURRENT["doing"] = "evaluating the netlists of width k=%d (inputs: encoder [data] / decoder [enable, word])" % k

    def encode(self, d):
        return self.enc.eval(d)[0]

    def decode(self, en, w):
        return self.dec.eval(en, w)

    def internals(self):
        """(syndrome value, (codeword_c ^ codeword) << 1) of the decoder for the word evaluated last; None when the
        netlist has no `Case(syndrome, ...)` correction statement (reported by the table regeneration)."""
        if not hasattr(self, "_int"):
            self._int = _decoder_internals(self)
        if self._int is None:
            return None
        s, cc, c = self._int
        g = self.dec.n.getu
        return g(s), (g(cc) ^ g(c)) << 1

    def selfcheck(self, rng, count=3):
        """pre-conditioned evaluation == plain reference fix-point loop (fresh netlists)."""
        other = RealEcc(self.k)
        for _ in range(count):
            d = rng.getrandbits(self.k)
            w = rng.getrandbits(self.nbits)
            en = rng.getrandbits(1)
            if self.enc.eval(d) != other.enc.eval(d, plain=True):
                return "encoder: pre-conditioned settle differs from plain settle (k=%d d=%d)" % (self.k, d)
            if self.dec.eval(en, w) != other.dec.eval(en, w, plain=True):
                return "decoder: pre-conditioned settle differs from plain settle (k=%d w=%d)" % (self.k, w)
        return None


# ---------------------------------------------------------------------------------------------------------
# regeneration: the GF(2) structure the elaborated netlists implement NOW, written to
# lean/LitexModel/Generated/EccTables.lean and compared by the Lean kernel with the hand-written model
# (LitexProofs/Ecc/Tables*.lean).  Everything is read off the REAL netlists (no ecc.py helper, no reference):
#   encZero k   value of ECCEncoder(k).o for i = 0
#   encRows k   value of ECCEncoder(k).o for i = 1 << b, b = 0..k-1                 (generator matrix, row b)
#   decPass k   4*o + 2*sec + ded of ECCDecoder(k), enable = 0, i = 1 << j, j = 0..n (extraction matrix)
#   decSingle k 4*o + 2*sec + ded of ECCDecoder(k), enable = 1, i = encZero ^ (1 << j)  (single-error table)
#   synCols k   value of the decoder's syndrome signal (the test of its `Case`) for the same inputs, enable = 1
#               (column j of the parity-check matrix the hardware implements)
#   flipCols k  codeword_c ^ codeword (targets/sources of the `Case`) for the same inputs, shifted to code word bit
#               numbering (bit p = position p): which bit the decoder inverts
# n is the Hamming-bound length for k (ref_m_n, widened to the implementation's port like everywhere else).

TABLE_KS = tuple(range(1, 17)) + (32, 64, 128)
GEN_FILE = os.path.join(VERIF, "lean", "LitexModel", "Generated", "EccTables.lean")
TABLES = {}          # k -> table dict of the current tree (filled by regen_tables, inherited by the forked jobs)


def _decoder_internals(r):
    """(syndrome signal, codeword_c, codeword) of the elaborated decoder: the `Case` on the syndrome whose branches
    assign the corrected code word.  None when the netlist has no such statement any more."""
    from migen.fhdl.structure import Case, _Assign, Signal, _Operator
    for st in r.dec.n.comb:
        if isinstance(st, Case) and isinstance(st.test, Signal):
            a = st.cases.get("default")
            a = a[0] if isinstance(a, list) and a else a
            if isinstance(a, _Assign) and isinstance(a.l, Signal) and isinstance(a.r, Signal):
                return st.test, a.l, a.r
    return None


def extract_table(k, rng=None, lin=6):
    """-> (table dict, [problem strings]).  `lin` random pairs check GF(2)-linearity of the encoder and of the
    disabled decoder, and the table against the netlists on random words."""
    r = RealEcc(k)
    nb = r.nbits
    t = {"k": k, "n": r.n, "nbits": nb}
    t["encZero"] = z = r.encode(0)
    t["encRows"] = [r.encode(1 << b) for b in range(k)]
    pk = lambda out: 4 * out[0] + 2 * out[1] + out[2]
    t["decPass"] = [pk(r.decode(0, 1 << j)) for j in range(nb)]
    t["decPassZero"] = pk(r.decode(0, 0))
    internals = _decoder_internals(r)
    single, syn, flip = [], [], []
    for j in range(nb):
        single.append(pk(r.decode(1, z ^ (1 << j))))
        if internals is not None:
            s, cc, c = internals
            syn.append(r.dec.n.getu(s))
            flip.append((r.dec.n.getu(cc) ^ r.dec.n.getu(c)) << 1)
    t["decSingle"] = single
    t["decClean"] = pk(r.decode(1, z))
    t["synCols"] = syn if internals is not None else None
    t["flipCols"] = flip if internals is not None else None
    probs = []
    if rng is not None:
        for _ in range(lin):
            a, b = rng.getrandbits(k), rng.getrandbits(k)
            ea, eb, eab = r.encode(a), r.encode(b), r.encode(a ^ b)
            if eab != ea ^ eb ^ z:
                probs.append({"what": "encoder is not GF(2)-affine: enc(a^b) != enc(a)^enc(b)^enc(0)", "data": [a, b],
                              "impl": [ea, eb, eab]})
            if ea != table_encode(t, a):
                probs.append({"what": "encoder differs from the XOR of its own unit-vector rows", "data": a, "impl": ea,
                              "rows": table_encode(t, a)})
            w = rng.getrandbits(nb)
            o = r.decode(0, w)
            if pk(o) != table_pass(t, w):
                probs.append({"what": "disabled decoder differs from the XOR of its unit-vector outputs", "word": w,
                              "impl": list(o), "rows": table_pass(t, w)})
    return t, probs


def table_encode(t, d):
    w = t["encZero"]
    for b, row in enumerate(t["encRows"]):
        if (d >> b) & 1:
            w ^= row ^ t["encZero"]
    return w


def table_pass(t, w):
    o = t["decPassZero"]
    for j, row in enumerate(t["decPass"]):
        if (w >> j) & 1:
            o ^= row ^ t["decPassZero"]
    return o


def check_table(t, r, d, cw, cases, words_in, outs):
    """Already evaluated cases of a job against the regenerated table of the same width (no extra evaluation):
    encoder word = XOR of the generator rows; enable=0 outputs = XOR of the extraction rows; single flips carry the
    flags of the single-error table.  Returns problem strings."""
    probs = []
    if cw != table_encode(t, d):
        probs.append("encoder(%d) = %d, XOR of the regenerated generator rows gives %d" % (d, cw, table_encode(t, d)))
    for (flips, en), w, out in zip(cases, words_in, outs):
        if not en and 4 * out[0] + 2 * out[1] + out[2] != table_pass(t, w):
            probs.append("enable=0 word %d: output %r, XOR of the regenerated extraction rows gives %d" % (w, out, table_pass(t, w)))
        if en and len(flips) == 1 and flips[0] < len(t["decSingle"]) and (t["decSingle"][flips[0]] & 3) != 2 * out[1] + out[2]:
            probs.append("single flip %d: flags %r, regenerated single-error table has %d" % (flips[0], out[1:], t["decSingle"][flips[0]] & 3))
    return probs[:2]


def _table_worker(k):
    try:
        resource_limit()
        with alarm(90, "extracting the GF(2) tables of ECCEncoder/ECCDecoder(%d)" % k):
            return k, extract_table(k, random.Random(_TABLE_SEED * 1009 + k)), None
    except Exception as e:
        return k, None, "%r while %s" % (e, CURRENT.get("doing", "extracting the tables"))


_TABLE_SEED = 0


def resource_limit():
    try:
        import resource
        resource.setrlimit(resource.RLIMIT_AS, (6 << 30, 6 << 30))
    except Exception:
        pass


def _lean_list(l):
    return "[" + ", ".join(str(x) for x in l) + "]"


def render_tables(tabs):
    out = ["/-", "  GENERATED by harness/c18lib.py:regen_tables from the elaborated `ECCEncoder(k)` / `ECCDecoder(k)` netlists of",
           "  litex/soc/cores/ecc.py (evaluated on the zero word and on the unit vectors).  Do not edit.",
           "  encZero/encRows: ECCEncoder.o for i = 0 / i = 1 <<< b.   decPass j: 4*o + 2*sec + ded of ECCDecoder, enable = 0,",
           "  i = 1 <<< j.   decSingle j: the same for enable = 1, i = encZero ^^^ (1 <<< j).   synCols j / flipCols j: value of",
           "  the decoder's syndrome signal and `codeword_c ^ codeword` (in code word bit numbering) for that input.",
           "  An empty list = width not in the table (or structure not found in the netlist).", "-/",
           "namespace Litex.Ecc.Tables", "",
           "def widths : List Nat := " + _lean_list(sorted(tabs)), ""]
    def fn(name, get, default):
        out.append("def %s : Nat → %s" % (name, "Nat" if default == "0" else "List Nat"))
        for k in sorted(tabs):
            v = get(tabs[k])
            out.append("  | %d => %s" % (k, v if default == "0" else _lean_list(v if v is not None else [])))
        out.append("  | _ => %s" % default)
        out.append("")
    fn("codeLen", lambda t: t["nbits"], "0")
    fn("encZero", lambda t: t["encZero"], "0")
    fn("encRows", lambda t: t["encRows"], "[]")
    fn("decPassZero", lambda t: t["decPassZero"], "0")
    fn("decPass", lambda t: t["decPass"], "[]")
    fn("decClean", lambda t: t["decClean"], "0")
    fn("decSingle", lambda t: t["decSingle"], "[]")
    fn("synCols", lambda t: t["synCols"], "[]")
    fn("flipCols", lambda t: t["flipCols"], "[]")
    out.append("end Litex.Ecc.Tables")
    return "\n".join(out) + "\n"


def regen_tables(seed=0, procs=None):
    """Rewrite GEN_FILE from the real netlists.  -> (changed: bool, problems: [dict])."""
    global _TABLE_SEED
    import multiprocessing as mp
    _TABLE_SEED = seed
    ks = sorted(TABLE_KS, reverse=True)
    procs = procs or min(len(ks), int(os.environ.get("VERIF_PROCS", "0")) or (os.cpu_count() or 4))
    if procs <= 1:
        res = [_table_worker(k) for k in ks]
    else:
        with mp.get_context("fork").Pool(procs) as pool:
            res = pool.map(_table_worker, ks, chunksize=1)
    problems = []
    tabs = {}
    for k, tp, err in res:
        if err is not None:
            problems.append({"kind": "elaboration", "k": k, "what": "table regeneration: " + err})
            continue
        t, probs = tp
        tabs[k] = t
        for p in probs:
            p = dict(p); p["kind"] = "correspondence"; p["k"] = k
            p["what"] = "regenerated GF(2) table: " + p["what"]
            problems.append(p)
        if t["synCols"] is None:
            problems.append({"kind": "correspondence", "k": k, "what": "regenerated GF(2) table: the decoder netlist has no "
                             "`Case(syndrome, ...)` correction statement any more (syndrome matrix not extractable)"})
    TABLES.clear()
    TABLES.update(tabs)
    text = render_tables(tabs)
    old = open(GEN_FILE).read() if os.path.exists(GEN_FILE) else None
    if old != text:
        with open(GEN_FILE, "w") as f:
            f.write(text)
    return old != text, problems


# ---------------------------------------------------------------------------------------------------------
# independent reference: textbook extended Hamming code in parity-check-matrix form.  Column of code word
# position p (1..n) is the binary expansion of p; data occupies the positions that are not powers of two;
# bit 0 of the transmitted word is the overall (even) parity.  Uses none of ecc.py and none of the Lean model.

def ref_m_n(k):
    m = 0
    while (1 << m) - m - 1 < k:       # a Hamming code with m check bits carries 2^m - m - 1 data bits
        m += 1
    return m, m + k


def ref_data_positions(n):
    return [p for p in range(1, n + 1) if p & (p - 1)]


def ref_syndrome(n, w):
    """H * r over GF(2), as a number: XOR of the positions (1..n) holding a 1 in the word w (bit p = position p)."""
    s = 0
    for p in range(1, n + 1):
        if (w >> p) & 1:
            s ^= p
    return s


def ref_encode(k, d):
    m, n = ref_m_n(k)
    w = 0
    for i, p in enumerate(ref_data_positions(n)):
        w |= ((d >> i) & 1) << p
    s = ref_syndrome(n, w)
    for j in range(m):
        w |= ((s >> j) & 1) << (1 << j)
    w |= bin(w).count("1") & 1
    return w


def ref_extract(k, w):
    m, n = ref_m_n(k)
    d = 0
    for i, p in enumerate(ref_data_positions(n)):
        d |= ((w >> p) & 1) << i
    return d


def ref_decode(k, w):
    """-> (data or None when unspecified, sec, ded) for an enabled decoder."""
    m, n = ref_m_n(k)
    s = ref_syndrome(n, w)
    par = bin(w & ((1 << (n + 1)) - 1)).count("1") & 1
    if s == 0:
        return ref_extract(k, w), 0, 0
    if par:
        return ref_extract(k, w ^ (1 << s) if s <= n else w), 1, 0
    return None, 0, 1


# ---------------------------------------------------------------------------------------------------------
# property oracle (does not use the Lean model): decoder(flip(encoder(d)))

def expected(k, d, flips, en):
    """What the property demands for data d, distinct flipped bit positions `flips` (0 = parity bit), enable."""
    if not en:
        return "passthrough"
    if len(flips) == 0:
        return (d, 0, 0)
    if len(flips) == 1:
        return (d, 1 if flips[0] != 0 else 0, 0)
    if len(flips) == 2:
        return (None, 0, 1)
    return None


def oracle(k, n, d, cw, flips, en, out):
    """None if `out` = (o, sec, ded) of the real decoder on cw^flips satisfies the property, else a message.
    `cw` is the real encoder's output for d."""
    o, sec, ded = out
    w = cw
    for j in flips:
        w ^= 1 << j
    if not en:
        # checking disabled: no flags, nothing is "corrected": without flips the data comes back; with flips the
        # output differs from the data in at most as many bits as were flipped
        if sec or ded:
            return "enable=0: flags must stay 0 (got sec=%d ded=%d)" % (sec, ded)
        if bin(o ^ d).count("1") > len(flips) or (not flips and o != d):
            return "enable=0: data bits do not pass through (data %d, flips %s, got o=%d)" % (d, list(flips), o)
        if ref_m_n(k)[1] == n and cw == ref_encode(k, d) and o != ref_extract(k, w):
            return "enable=0: want the received data bits %d, got o=%d" % (ref_extract(k, w), o)
        return None
    exp = expected(k, d, flips, en)
    if exp is None:
        return None
    wd, wsec, wded = exp
    if wd is not None and o != wd:
        return "%d flipped bit(s) %s: data not restored (want %d, got %d; sec=%d ded=%d)" % (len(flips), list(flips), wd, o, sec, ded)
    if sec != wsec or ded != wded:
        return "%d flipped bit(s) %s: want sec=%d ded=%d, got sec=%d ded=%d" % (len(flips), list(flips), wsec, wded, sec, ded)
    # cross-check with the matrix-form reference on the reference code word (an agreeing encoder is not demanded
    # by the property, so this is only evaluated when code length and encoders agree)
    if ref_m_n(k)[1] == n and cw == ref_encode(k, d):
        rd, rsec, rded = ref_decode(k, w)
        if (rsec, rded) != (sec, ded) or (rd is not None and rd != o):
            return "matrix-form reference decodes to (%s,%d,%d), decoder gave (%d,%d,%d)" % (rd, rsec, rded, o, sec, ded)
    return None


def tie_internals(lean, res, k, items):
    """items: [(en, w, (syndrome, flipmask))] read from the real decoder -> compare with `call syn`."""
    items = [it for it in items if it[2] is not None]
    if not items:
        return
    ans = lean.call_batch(["syn %d %d %d" % (k, en, w) for en, w, _ in items])
    bad = 0
    for (en, w, iv), a in zip(items, ans):
        res["cases"] += 1
        if a != "%d %d" % iv:
            bad += 1
            if bad <= 2:
                res["dis"].append(_mk_dis("correspondence", k, "decoder internals (syndrome signal, codeword_c ^ codeword)",
                                          enable=en, word=w, impl=list(iv), model=a))
    res["hist"]["internal syndrome compared"] = res["hist"].get("internal syndrome compared", 0) + len(items)


def table_dis(res, k, probs):
    for p in probs:
        res["dis"].append(_mk_dis("correspondence", k, "regenerated GF(2) table vs netlist: " + p))


def all_flip_sets(nbits, upto=2):
    yield ()
    for j in range(nbits):
        yield (j,)
    if upto >= 2:
        for a in range(nbits):
            for b in range(a + 1, nbits):
                yield (a, b)


# ---------------------------------------------------------------------------------------------------------
# jobs.  Each returns a dict: {"name", "cases", "nontrivial", "exhaustive", "hist", "samples", "dis": [...], "wall_s"}

def _mk_dis(kind, k, what, **kw):
    d = {"kind": kind, "k": k, "what": what}
    d.update(kw)
    return d


def _build(k, res):
    try:
        return RealEcc(k)
    except Exception as e:  # elaboration failure of the real code
        res["dis"].append(_mk_dis("elaboration", k, "ECCEncoder/ECCDecoder(%d) raised %r" % (k, e)))
        return None


def job_small(lean, rng, k, monitor_only=False):
    """k small: encoder over ALL data words; decoder over ALL 2^(n+1) input words x enable in {0,1} (this contains
    every flip pattern of every code word); property oracle over every data word x every 0/1/2-flip set."""
    res = {"name": "ecc k=%d all-words" % k, "cases": 0, "nontrivial": 0, "exhaustive": True, "hist": {}, "samples": [], "dis": []}
    r = _build(k, res)
    if r is None:
        return res
    n, nb = r.n_impl, r.nbits
    msg = r.selfcheck(rng)
    if msg:
        res["dis"].append(_mk_dis("harness-selfcheck", k, msg))
    if r.widths != r.want_widths or r.impl_mn != (r.m, r.n):
        res["dis"].append(_mk_dis("correspondence", k, "port widths (enc.i, enc.o, dec.i, dec.o, sec, ded, enable) = %r and "
                                  "compute_m_n = %r; model has %r and %r" % (r.widths, r.impl_mn, r.want_widths, (r.m, r.n))))
    cws = [r.encode(d) for d in range(1 << k)]
    dec = {}
    ints = []
    for en in (0, 1):
        for w in range(1 << nb):
            dec[(en, w)] = r.decode(en, w)
            if k <= 5 or rng.random() < 256.0 / (1 << nb):
                ints.append((en, w, r.internals()))
    t = TABLES.get(k)
    if t is not None:
        for d in range(1 << k):
            if cws[d] != table_encode(t, d):
                table_dis(res, k, ["encoder(%d) = %d, XOR of the regenerated generator rows gives %d" % (d, cws[d], table_encode(t, d))])
                break
        for w in range(1 << nb):
            o = dec[(0, w)]
            if 4 * o[0] + 2 * o[1] + o[2] != table_pass(t, w):
                table_dis(res, k, ["enable=0 word %d: output %r, XOR of the regenerated extraction rows gives %d" % (w, o, table_pass(t, w))])
                break
        res["hist"]["words checked against the regenerated tables"] = (1 << k) + (1 << nb)
    if not monitor_only:
        tie_internals(lean, res, k, ints)
        ans = lean.call_batch(["enc %d %d" % (k, d) for d in range(1 << k)])
        for d, a in enumerate(ans):
            res["cases"] += 1
            if a != str(cws[d]):
                res["dis"].append(_mk_dis("correspondence", k, "encoder", data=d, impl=cws[d], model=a))
                break
        keys = sorted(dec)
        ans = lean.call_batch(["dec %d %d %d" % (k, en, w) for en, w in keys])
        bad = 0
        for (en, w), a in zip(keys, ans):
            res["cases"] += 1
            o = dec[(en, w)]
            if a != "%d %d %d" % o:
                bad += 1
                if bad <= 3:
                    res["dis"].append(_mk_dis("correspondence", k, "decoder", enable=en, word=w, impl=list(o), model=a))
            if o[1] or o[2]:
                res["nontrivial"] += 1
    # property oracle on the real code
    viol = 0
    for d in range(1 << k):
        for flips in all_flip_sets(nb):
            w = cws[d]
            for j in flips:
                w ^= 1 << j
            for en in (1, 0):
                out = dec[(en, w)]
                res["hist"]["oracle %d-flip en=%d" % (len(flips), en)] = res["hist"].get("oracle %d-flip en=%d" % (len(flips), en), 0) + 1
                m = oracle(k, n, d, cws[d], flips, en, out)
                if m:
                    viol += 1
                    if viol <= 2:
                        res["dis"].append(_mk_dis("monitor", k, m, data=d, flips=list(flips), enable=en, codeword=cws[d],
                                                  out=list(out)))
    if k <= 4:
        res["samples"].append({"k": k, "data": 1, "codeword": cws[1 % (1 << k)],
                               "decode(en=1, codeword^0b100)": list(dec[(1, cws[1 % (1 << k)] ^ 4)])})
    return res


def job_large(lean, rng, k, words, pairs, monitor_only=False, garbage=32, fixed=True, selfcheck=True):
    """k large: `words` data words (all-0, all-1, then random) x ALL single flips x (all pairs if pairs is None,
    else `pairs` sampled pairs) with enable=1, plus enable=0 on a subset and `garbage` arbitrary input words."""
    res = {"name": "ecc k=%d words=%d%s pairs=%s" % (k, words, {True: "", False: " random"}.get(fixed, " " + str(fixed)), "all" if pairs is None else pairs), "cases": 0,
           "nontrivial": 0, "exhaustive": False, "hist": {}, "samples": [], "dis": []}
    r = _build(k, res)
    if r is None:
        return res
    n, nb = r.n_impl, r.nbits
    msg = r.selfcheck(rng, 1) if selfcheck else None
    if msg:
        res["dis"].append(_mk_dis("harness-selfcheck", k, msg))
    if r.widths != r.want_widths or r.impl_mn != (r.m, r.n):
        res["dis"].append(_mk_dis("correspondence", k, "port widths (enc.i, enc.o, dec.i, dec.o, sec, ded, enable) = %r and "
                                  "compute_m_n = %r; model has %r and %r" % (r.widths, r.impl_mn, r.want_widths, (r.m, r.n))))
    if fixed == "zero":
        datas = [0]
    elif fixed == "ones":
        datas = [(1 << k) - 1]
    elif fixed:
        datas = [0, (1 << k) - 1][:words] + [rng.getrandbits(k) for _ in range(max(0, words - 2))]
    else:
        datas = [rng.getrandbits(k) for _ in range(words)]
    viol = 0
    for d in datas:
        cw = r.encode(d)
        cases = []   # (flips, en)
        cases.append(((), 1))
        cases.append(((), 0))
        for j in range(nb):
            cases.append(((j,), 1))
        allpairs = [(a, b) for a in range(nb) for b in range(a + 1, nb)]
        if pairs is None:
            sel = allpairs
        else:
            sel = rng.sample(allpairs, min(pairs, len(allpairs)))
            # always include pairs with the parity bit and adjacent / far-apart positions
            sel += [(0, 1), (0, nb - 1), (1, 2), (1, nb - 1), (nb - 2, nb - 1)]
        for p in sel:
            cases.append((p, 1))
        for j in rng.sample(range(nb), min(8, nb)):
            cases.append(((j,), 0))
        for p in rng.sample(allpairs, min(8, len(allpairs))):
            cases.append((p, 0))
        outs = []
        words_in = []
        ints = []
        for flips, en in cases:
            w = cw
            for j in flips:
                w ^= 1 << j
            words_in.append(w)
            out = r.decode(en, w)
            outs.append(out)
            if len(ints) < 2 * nb + 40:
                ints.append((en, w, r.internals()))
            key = "oracle %d-flip en=%d" % (len(flips), en)
            res["hist"][key] = res["hist"].get(key, 0) + 1
            m = oracle(k, n, d, cw, flips, en, out)
            if m:
                viol += 1
                if viol <= 2:
                    res["dis"].append(_mk_dis("monitor", k, m, data=d, flips=list(flips), enable=en, codeword=cw, out=list(out)))
            if out[1] or out[2]:
                res["nontrivial"] += 1
        if TABLES.get(k) is not None:
            table_dis(res, k, check_table(TABLES[k], r, d, cw, cases, words_in, outs))
            res["hist"]["words checked against the regenerated tables"] = res["hist"].get("words checked against the regenerated tables", 0) + len(cases) + 1
        if not monitor_only:
            tie_internals(lean, res, k, ints)
            a = lean.call_batch(["enc %d %d" % (k, d)])[0]
            res["cases"] += 1
            if a != str(cw):
                res["dis"].append(_mk_dis("correspondence", k, "encoder", data=d, impl=cw, model=a))
            ans = lean.call_batch(["dec %d %d %d" % (k, en, w) for (flips, en), w in zip(cases, words_in)])
            bad = 0
            for (flips, en), w, o, a in zip(cases, words_in, outs, ans):
                res["cases"] += 1
                if a != "%d %d %d" % o:
                    bad += 1
                    if bad <= 2:
                        res["dis"].append(_mk_dis("correspondence", k, "decoder", data=d, flips=list(flips), enable=en, word=w,
                                                  impl=list(o), model=a))
        if len(res["samples"]) < 1:
            res["samples"].append({"k": k, "data": d, "codeword": cw, "flips": list(cases[5][0]),
                                   "decoder_out(o,sec,ded)": list(outs[5])})
    # arbitrary (non-code) input words: ties the decoder model outside the <=2-flip neighbourhood
    if not monitor_only and garbage:
        ws = [(rng.getrandbits(1), rng.getrandbits(nb)) for _ in range(garbage)]
        outs, ints = [], []
        for en, w in ws:
            outs.append(r.decode(en, w))
            ints.append((en, w, r.internals()))
        tie_internals(lean, res, k, ints)
        ans = lean.call_batch(["dec %d %d %d" % (k, en, w) for en, w in ws])
        for (en, w), o, a in zip(ws, outs, ans):
            res["cases"] += 1
            if a != "%d %d %d" % o:
                res["dis"].append(_mk_dis("correspondence", k, "decoder (arbitrary word)", enable=en, word=w, impl=list(o), model=a))
                break
    return res


def job_corpus(lean, rng, cases, monitor_only=False):
    """corpus/C18/*.json: {"k", "data", "flips", "enable"} cases on the real code (oracle) and on the model."""
    res = {"name": "corpus k=%s (%d cases)" % (",".join(str(k) for k in sorted({c["k"] for c in cases})), len(cases)), "cases": 0, "nontrivial": 0, "exhaustive": False, "hist": {},
           "samples": [], "dis": []}
    cache = {}
    for c in cases:
        k, d, flips, en = c["k"], c["data"], tuple(c["flips"]), c["enable"]
        if k not in cache:
            cache[k] = _build(k, res)
        r = cache[k]
        if r is None:
            continue
        cw = r.encode(d)
        w = cw
        for j in flips:
            w ^= 1 << j
        out = r.decode(en, w)
        res["cases"] += 1
        res["nontrivial"] += 1 if (out[1] or out[2]) else 0
        m = oracle(k, r.n_impl, d, cw, flips, en, out)
        if m:
            res["dis"].append(_mk_dis("monitor", k, m, data=d, flips=list(flips), enable=en, codeword=cw, out=list(out),
                                      corpus=c.get("corpus")))
        if not monitor_only:
            a = lean.call_batch(["enc %d %d" % (k, d), "dec %d %d %d" % (k, en, w)])
            if a[0] != str(cw) or a[1] != "%d %d %d" % out:
                res["dis"].append(_mk_dis("correspondence", k, "corpus case", data=d, flips=list(flips), enable=en,
                                          impl=[cw, list(out)], model=a, corpus=c.get("corpus")))
    return res


def job_loopback(lean, rng, k, words, monitor_only=False):
    """Encoder and decoder used the way the repository's test bench and the memory controllers use them: both as
    submodules of ONE module, `decoder.i = encoder.o ^ flip`, evaluated as a single netlist (submodule collection,
    two SECDED users sharing one fragment).  `flip` is sized from k (Hamming bound), not from a signal width."""
    from migen import Module, Signal
    res = {"name": "ecc k=%d loopback (encoder+decoder in one module)" % k, "cases": 0, "nontrivial": 0,
           "exhaustive": False, "hist": {}, "samples": [], "dis": []}
    E = ecc()
    m, n = ref_m_n(k)
    nb = n + 1
    CURRENT.clear()
    CURRENT.update({"k": k, "doing": "elaborating the encoder+decoder loopback module"})
    try:
        with alarm(120, "elaborating the loopback module for k=%d" % k):
            class DUT(Module):
                def __init__(self):
                    self.flip = Signal(nb)
                    self.submodules.encoder = E.ECCEncoder(k)
                    self.submodules.decoder = E.ECCDecoder(k)
                    self.comb += self.decoder.i.eq(self.encoder.o ^ self.flip)
            dut = DUT()
            ce = CombEval(dut, [dut.decoder.enable, dut.encoder.i, dut.flip],
                          [dut.encoder.o, dut.decoder.o, dut.decoder.sec, dut.decoder.ded])
    except Exception as e:
        res["dis"].append(_mk_dis("elaboration", k, "loopback module of ECCEncoder/ECCDecoder(%d) raised %r" % (k, e)))
        return res
    CURRENT["doing"] = "evaluating the loopback netlist k=%d (inputs: [enable, data, flip mask])" % k
    allpairs = [(a, b) for a in range(nb) for b in range(a + 1, nb)]
    viol = 0
    for d in [(1 << k) - 1] + [rng.getrandbits(k) for _ in range(words)]:
        cases = [((), 1), ((), 0)] + [((j,), 1) for j in range(nb)] + [(p, 1) for p in rng.sample(allpairs, min(40, len(allpairs)))]
        cases += [((rng.randrange(nb),), 0), (rng.choice(allpairs), 0)]
        lines, outs = [], []
        for flips, en in cases:
            mask = 0
            for j in flips:
                mask |= 1 << j
            cw, o, sec, ded = ce.eval(en, d, mask)
            outs.append((cw, o, sec, ded))
            key = "oracle %d-flip en=%d" % (len(flips), en)
            res["hist"][key] = res["hist"].get(key, 0) + 1
            msg = oracle(k, n, d, cw, flips, en, (o, sec, ded))
            if msg:
                viol += 1
                if viol <= 2:
                    res["dis"].append(_mk_dis("monitor", k, msg + " [loopback module]", data=d, flips=list(flips), enable=en,
                                              codeword=cw, out=[o, sec, ded]))
            if sec or ded:
                res["nontrivial"] += 1
            lines.append("loop %d %d %d %d" % (k, en, d, mask))
        if not monitor_only:
            ans = lean.call_batch(lines)
            bad = 0
            for (flips, en), (cw, o, sec, ded), a in zip(cases, outs, ans):
                res["cases"] += 1
                if a != "%d %d %d %d" % (cw, o, sec, ded):
                    bad += 1
                    if bad <= 2:
                        res["dis"].append(_mk_dis("correspondence", k, "loopback module", data=d, flips=list(flips), enable=en,
                                                  impl=[cw, o, sec, ded], model=a))
    return res


# ---------------------------------------------------------------------------------------------------------
# pool

_JOBS = None
_INFO = None


def _worker(idx):
    from leanproc import LeanDriver
    seed, monitor_only, timeout = _INFO
    fn, args, kw = _JOBS[idx]
    try:    # backstop against a changed helper loop that allocates without end
        import resource
        resource.setrlimit(resource.RLIMIT_AS, (6 << 30, 6 << 30))
    except Exception:
        pass
    rng = random.Random(seed * 7919 + idx * 104729 + 18)
    lean = None if monitor_only else LeanDriver("C18")
    t0 = time.time()
    k = args[0] if isinstance(args[0], int) else None
    try:
        with alarm(timeout, "job %s%r" % (fn.__name__, args if k is not None else "")):
            res = fn(lean, rng, *args, monitor_only=monitor_only, **kw)
    except Exception as e:
        # a hang (never-settling comb loop, endless helper loop) or a crash while driving a changed implementation
        # is a reported disagreement carrying the last input handed to the real code, never a crash of the check
        import traceback
        kind = "timeout" if isinstance(e, Hang) else "exception"
        res = {"name": "%s%r" % (fn.__name__, args if k is not None else ""), "cases": 0, "nontrivial": 0,
               "exhaustive": False, "hist": {}, "samples": [],
               "dis": [_mk_dis(kind, CURRENT.get("k", k), "%r while %s" % (e, CURRENT.get("doing", "running the job")),
                               last_inputs=CURRENT.get("inputs"), where=traceback.format_exc().splitlines()[-3:])]}
    finally:
        if lean is not None:
            lean.quit()
    res["wall_s"] = round(time.time() - t0, 1)
    return idx, res


def run_pool(seed, jobs, monitor_only=False, procs=None, timeout=300):
    """jobs: list of (fn, args, kwargs).  Returns list of result dicts in job order."""
    global _JOBS, _INFO
    import multiprocessing as mp
    _JOBS = jobs
    _INFO = (seed, monitor_only, timeout)
    procs = procs or min(len(jobs), int(os.environ.get("VERIF_PROCS", "0")) or (os.cpu_count() or 4))
    if procs <= 1 or len(jobs) <= 1:
        out = [_worker(i) for i in range(len(jobs))]
    else:
        with mp.get_context("fork").Pool(procs) as pool:
            out = pool.map(_worker, range(len(jobs)), chunksize=1)
    return [r for _, r in sorted(out, key=lambda x: x[0])]
