"""C16 — tie of the length-aware / name-aware header model (lean/LitexModel/Packet/HeaderClip.lean, driver calls
of lean/LitexModel/Packet/NumHdrClip.lean `callHdrClip`) to the real `packet.Header.encode/decode/get_field/
get_layout`:

  * fields reaching beyond the 8*length-bit header signal (clipped by Migen's slice) and fields entirely beyond it,
  * overlapping fields (the last assignment in table order wins),
  * the `_lsb` / `_msb` name convention of `get_field` and its width check (ValueError / AttributeError).

`header_clip_tie(ctx, ntables)` returns a list of disagreement dicts (same style as `header_tie` in props/c16.py).
Model-independent monitors (run on the real code only) where theorems claim something:
  round trip of well-formed tables (`header_roundtrip_len`), per-field round trip when no LATER field overlaps
  (`decodeL_encodeL_field`), low bits of a clipped unswapped field / top bytes of a clipped swapped whole-byte
  field (`decodeL_encodeL_clipped_noswap` / `_swap_bytes`), 0 for a field beyond the header
  (`decodeFieldL_beyond`), whole-record round trip through an `x_lsb`/`x_msb` pair (`lsb_msb_roundtrip`),
  `get_layout()` = sorted (name, width).
"""
from litex.soc.interconnect import packet

KIND_PLAIN, KIND_LSB, KIND_MSB = 0, 1, 2


def resolve(name):
    """(attribute name, kind) as `Header.get_field` resolves a field name."""
    if "_lsb" in name:
        return name.replace("_lsb", ""), KIND_LSB
    if "_msb" in name:
        return name.replace("_msb", ""), KIND_MSB
    return name, KIND_PLAIN


class NamedHdr:
    """fields: dict name -> (byte, offset, width); layout: list of (signal name, width) of the record, or None for
    `Header.get_layout()` itself."""

    def __init__(self, fields, length, swap, layout=None):
        self.fields = dict(fields)
        self.names = sorted(fields)
        self.table = [tuple(fields[k]) for k in self.names]
        self.length = length
        self.swap = bool(swap)
        self.header = packet.Header({k: packet.HeaderField(*fields[k]) for k in self.names}, length,
                                    swap_field_bytes=self.swap)
        self.layout = list(layout) if layout is not None else list(self.header.get_layout())
        self.plain_layout = layout is None
        signames = [s for s, _ in self.layout]
        self.res = []                   # per field: (object index or len(layout) when missing, kind)
        for k in self.names:
            attr, kind = resolve(k)
            self.res.append((signames.index(attr) if attr in signames else len(signames), kind))

    # geometry ---------------------------------------------------------------------------------------------
    def n(self):
        return 8 * self.length

    def rng_of(self, i):
        b, o, w = self.table[i]
        return 8 * b + o, 8 * b + o + w

    def clip_of(self, i):
        st, en = self.rng_of(i)
        return min(st, self.n()), min(en, self.n())

    def later_disjoint(self, i):
        a0, a1 = self.clip_of(i)
        for k in range(i + 1, len(self.table)):
            b0, b1 = self.clip_of(k)
            if not (a1 <= b0 or b1 <= a0):
                return False
        return True

    def disjoint(self):
        r = sorted(self.rng_of(i) for i in range(len(self.table)))
        return all(r[k][1] <= r[k + 1][0] for k in range(len(r) - 1))

    def fits(self):
        return all(self.rng_of(i)[1] <= self.n() for i in range(len(self.table)))

    def swappable(self, i=None):
        ws = [w for (_, _, w) in self.table] if i is None else [self.table[i][2]]
        return (not self.swap) or all(w <= 8 or w % 8 == 0 for w in ws)

    # driver calls -----------------------------------------------------------------------------------------
    def args_plain(self):
        return "%d %d %d %s" % (self.length, int(self.swap), len(self.table),
                                " ".join("%d %d %d" % f for f in self.table))

    def args_named(self):
        return "%d %d %d %s" % (self.length, int(self.swap), len(self.table),
                                " ".join("%d %d %d %d %d" % (f + r) for f, r in zip(self.table, self.res)))

    def describe(self):
        return {"fields": {k: list(self.fields[k]) for k in self.names}, "length": self.length, "swap": self.swap,
                "record": [list(x) for x in self.layout]}


def _canon_exc(e):
    if isinstance(e, ValueError) and "Width mismatch" in str(e):
        return "error Width mismatch"
    if isinstance(e, AttributeError):
        return "error AttributeError"
    return None


def real_named(nh, objs_list, sigs):
    """Run the real Header.encode on every vector of record-signal values and the real Header.decode on every
    header value.  Returns (enc, dec): lists of ints / lists of ints, or the canonical error string when the
    constructor raised (`error Width mismatch` / `error AttributeError`); other exceptions propagate."""
    from migen import Module, Signal, Record
    from netlist import Netlist
    signames = [s for s, _ in nh.layout]

    class Enc(Module):
        def __init__(self):
            self.obj = Record(nh.layout)
            self.sig = Signal(8 * nh.length)
            self.comb += nh.header.encode(self.obj, self.sig)

    class Dec(Module):
        def __init__(self):
            self.obj = Record(nh.layout)
            self.sig = Signal(8 * nh.length)
            self.comb += nh.header.decode(self.sig, self.obj)

    try:
        e = Enc()
        ne = Netlist(e)
        enc = []
        for objs in objs_list:
            for s, v in zip(signames, objs):
                ne.set(getattr(e.obj, s), v)
            ne.settle()
            enc.append(ne.getu(e.sig))
    except (ValueError, AttributeError) as ex:
        c = _canon_exc(ex)
        if c is None:
            raise
        enc = c
    try:
        d = Dec()
        nd = Netlist(d)
        dec = []
        for s in sigs:
            nd.set(d.sig, s)
            nd.settle()
            dec.append([nd.getu(getattr(d.obj, k)) for k in signames])
    except (ValueError, AttributeError) as ex:
        c = _canon_exc(ex)
        if c is None:
            raise
        dec = c
    return enc, dec


# table generators ---------------------------------------------------------------------------------------------

def rand_ill_table(rng):
    """Plain names; fields may overlap, reach beyond the header or lie entirely beyond it."""
    H = rng.choice((1, 2, 3, 4, 6, 8, 14)) if rng.random() < 0.7 else rng.randint(1, 24)
    n = 8 * H
    f = {}
    for k in range(rng.randint(1, 5)):
        mode = rng.random()
        if rng.random() < 0.6:
            w = rng.choice((8, 16, 24, 32, 40))
        else:
            w = rng.randint(1, 40)
        if mode < 0.35:                       # inside (if it can be)
            st = rng.randint(0, max(0, n - w))
            if rng.random() < 0.6:
                st -= st % 8
        elif mode < 0.75:                     # straddles the end of the header
            st = rng.randint(max(0, n - w + 1), n - 1) if w > 1 else n - 1
            if rng.random() < 0.6 and st - st % 8 + w > n:
                st -= st % 8
        else:                                 # entirely beyond
            st = rng.randint(n, n + 20)
        # random name order so that table order is unrelated to the position
        f["%s%02d" % (rng.choice("abcdefgh"), k)] = (st // 8, st % 8, w)
    return NamedHdr(f, H, rng.random() < 0.5)


def rand_named_table(rng):
    """Record signals reached through `_lsb` / `_msb` / plain names; widths sometimes wrong on purpose."""
    H = rng.choice((2, 4, 6, 8, 12))
    n = 8 * H
    fields, layout = {}, []
    nobj = rng.randint(1, 3)
    pos = 0
    ordered = rng.random() < 0.7              # mostly non-overlapping placement
    for j in range(nobj):
        base = "%s%d" % (rng.choice(("x", "addr", "len")), j)
        shape = rng.random()
        w = rng.choice((4, 5, 8, 8, 16, 16, 24))
        bad = rng.random() < 0.2

        def place(w):
            nonlocal pos
            if ordered:
                st = pos
                pos += w + (rng.choice((0, 0, 3, 8)))
            else:
                st = rng.randint(0, n + 4)
            return (st // 8, st % 8, w)
        if shape < 0.5:                       # x_lsb + x_msb over a 2w-bit signal
            W = 2 * w if not bad else rng.choice((2 * w - 1, 2 * w + 3, w, max(1, w - 1)))
            layout.append((base, W))
            fields[base + "_lsb"] = place(w)
            fields[base + "_msb"] = place(w)
        elif shape < 0.65:                    # only one half
            W = rng.choice((2 * w, 2 * w + 2, w)) if not bad else max(1, w - 1)
            layout.append((base, W))
            fields[base + rng.choice(("_lsb", "_msb"))] = place(w)
        elif shape < 0.75:                    # both markers in the name: "_lsb" wins, attribute keeps "_msb"
            layout.append((base + "_msb", w if not bad else w + 1))
            fields[base + "_msb_lsb"] = place(w)
        elif shape < 0.95:                    # plain
            layout.append((base, w if not bad else rng.choice((w + 1, max(1, w - 1)))))
            fields[base] = place(w)
        else:                                 # attribute missing
            layout.append((base + "q", w))
            fields[base + "_lsb"] = place(w)
    return NamedHdr(fields, H, rng.random() < 0.5, layout=layout)


FIXED = [
    # (fields, length, swap, layout)
    ({"a": (1, 0, 16)}, 2, False, None), ({"a": (1, 0, 16)}, 2, True, None),
    ({"a": (0, 4, 24)}, 2, False, None), ({"a": (0, 4, 24)}, 2, True, None),
    ({"a": (2, 0, 8), "b": (0, 0, 8)}, 2, True, None), ({"a": (5, 3, 16)}, 2, False, None),
    ({"a": (0, 0, 8), "b": (0, 4, 8)}, 2, False, None), ({"a": (0, 4, 8), "b": (0, 0, 8)}, 2, False, None),
    ({"x_lsb": (0, 0, 16), "x_msb": (2, 0, 16)}, 4, True, [("x", 32)]),
    ({"x_lsb": (0, 0, 5), "x_msb": (1, 0, 5)}, 2, False, [("x", 10)]),
    ({"x_lsb": (0, 0, 8), "x_msb": (1, 0, 8)}, 2, True, [("x", 15)]),
    ({"x_lsb": (0, 0, 8)}, 2, False, [("x", 20)]), ({"x_msb": (0, 0, 8)}, 2, False, [("x", 16)]),
    ({"x": (0, 0, 8)}, 2, True, [("x", 9)]),
    ({"x_lsb": (0, 0, 8), "x_msb": (1, 0, 8)}, 2, True, None),        # get_layout() record: AttributeError
]


def _rev_bytes_int(v, nbytes):
    return int.from_bytes(v.to_bytes(nbytes, "little"), "big")


def _monitors(nh, objs_list, enc, back, dis, cov):
    """Model-independent checks on the real code: `back[k]` = real decode of `enc[k]` = real encode of
    `objs_list[k]` (record-signal values).  Only for tables where every record signal is one plain field (so that
    record value = field value), except the lsb/msb record round trip."""
    d = nh.describe()
    signames = [s for s, _ in nh.layout]
    if nh.plain_layout or all(k == KIND_PLAIN for _, k in nh.res):
        # field i <-> record signal nh.res[i][0]
        wf = nh.disjoint() and nh.fits() and nh.swappable()
        for objs, b in zip(objs_list, back):
            for i in range(len(nh.table)):
                oi = nh.res[i][0]
                v, r = objs[oi], b[oi]
                st, en = nh.rng_of(i)
                c0, c1 = nh.clip_of(i)
                w, cw = en - st, c1 - c0
                want = None
                if wf:
                    want, why = v, "round trip (well-formed header)"
                elif st >= nh.n():
                    want, why = 0, "field beyond the header decodes to 0"
                elif nh.later_disjoint(i):
                    if en <= nh.n() and nh.swappable(i):
                        want, why = v, "field round trip (no later field overlaps it)"
                    elif not nh.swap:
                        want, why = v & ((1 << cw) - 1), "clipped field returns its low bits"
                    elif w % 8 == 0 and cw % 8 == 0:
                        want, why = v >> (w - cw), "clipped swapped field returns its top bytes"
                if want is not None:
                    cov.count("hdrclip_monitor:" + why)
                if want is not None and r != want:
                    dis.append(dict(d, kind="monitor:header " + why, field=nh.names[i], values=objs,
                                    encoded=enc[objs_list.index(objs)], decoded=r, expected=want))
    else:
        # record round trip: every record signal is covered exactly by an lsb/msb pair or a plain field
        cover = {}
        for i, (oi, kind) in enumerate(nh.res):
            cover.setdefault(oi, []).append((kind, nh.table[i][2]))
        ok = nh.disjoint() and nh.fits() and nh.swappable() and len(cover) == len(signames)
        for oi, parts in cover.items():
            if oi >= len(signames):
                ok = False
                continue
            W = nh.layout[oi][1]
            ks = sorted(parts)
            if not (ks == [(KIND_PLAIN, W)] or
                    (len(ks) == 2 and ks[0][0] == KIND_LSB and ks[1][0] == KIND_MSB and ks[0][1] == ks[1][1]
                     and 2 * ks[0][1] == W)):
                ok = False
        if ok:
            cov.count("hdrclip_monitor:record round trip (lsb/msb pairs)", len(objs_list))
            for objs, b in zip(objs_list, back):
                if list(objs) != list(b):
                    dis.append(dict(d, kind="monitor:header record round trip (lsb/msb pairs)", values=objs,
                                    decoded=b))


def header_clip_tie(ctx, ntables):
    dis = []
    rng = ctx.rng
    ncases = nontriv = 0
    tables = [NamedHdr(f, H, sw, layout=lay) for (f, H, sw, lay) in FIXED]
    while len(tables) < ntables:
        tables.append(rand_ill_table(rng) if rng.random() < 0.55 else rand_named_table(rng))
    for nh in tables:
        d = nh.describe()
        # get_layout() = sorted (name, width)
        if list(nh.header.get_layout()) != [(k, nh.fields[k][2]) for k in sorted(nh.fields)]:
            dis.append(dict(d, kind="monitor:header get_layout", impl=list(nh.header.get_layout())))
        mx = [(1 << W) - 1 for _, W in nh.layout]
        objs_list = [[0] * len(mx), list(mx)] + \
                    [[rng.choice((m, rng.randint(0, m), 1 << rng.randrange(m.bit_length()))) for m in mx]
                     for _ in range(5)]
        sigs = [0, (1 << nh.n()) - 1] + [rng.getrandbits(nh.n()) for _ in range(5)]
        try:
            enc, dec = real_named(nh, objs_list, sigs)
        except Exception as e:
            dis.append(dict(d, kind="header-exception",
                            what="Header.encode/decode raised %s: %s" % (type(e).__name__, e)))
            continue
        plain = nh.plain_layout and all(k == KIND_PLAIN for _, k in nh.res)
        if plain:
            # record signal order = table order (get_layout)
            la = nh.args_plain()
            reqs = ["encodeL %s %s" % (la, " ".join(map(str, o))) for o in objs_list] + \
                   ["decodeL %s %d" % (la, s) for s in sigs]
        else:
            la = nh.args_named()
            ws = " ".join(str(W) for _, W in nh.layout)
            reqs = ["encodeObj %s %d %s" % (la, len(nh.layout),
                                            " ".join("%d %d" % (W, v) for (_, W), v in zip(nh.layout, o)))
                    for o in objs_list] + \
                   ["decodeObj %s %d %s %d" % (la, len(nh.layout), ws, s) for s in sigs]
        ans = ctx.lean.call_batch(reqs)
        for k, o in enumerate(objs_list):
            ncases += 1
            nontriv += 1 if any(o) else 0
            impl = enc if isinstance(enc, str) else str(enc[k])
            if ans[k] != impl:
                dis.append(dict(d, kind="header-clip-encode", values=o, impl=impl, model=ans[k], call=reqs[k]))
        for k, s in enumerate(sigs):
            ncases += 1
            nontriv += 1 if s else 0
            a = ans[len(objs_list) + k]
            impl = dec if isinstance(dec, str) else " ".join(str(x) for x in dec[k])
            if a.split() != impl.split():
                dis.append(dict(d, kind="header-clip-decode", signal=s, impl=impl, model=a,
                                call=reqs[len(objs_list) + k]))
        if not isinstance(enc, str) and not isinstance(dec, str):
            _, back = real_named(nh, [], enc)
            _monitors(nh, objs_list, enc, back, dis, ctx.cov)
        # coverage
        ctx.cov.count("hdrclip_tables")
        ctx.cov.count("hdrclip_tables_swap" if nh.swap else "hdrclip_tables_noswap")
        if isinstance(enc, str):
            ctx.cov.count("hdrclip_" + enc.replace("error ", "raises_").replace(" ", "_"))
        if any(nh.rng_of(i)[0] < nh.n() < nh.rng_of(i)[1] for i in range(len(nh.table))):
            ctx.cov.count("hdrclip_tables_with_clipped_field")
        if any(nh.rng_of(i)[0] >= nh.n() for i in range(len(nh.table))):
            ctx.cov.count("hdrclip_tables_with_field_beyond")
        if not nh.disjoint():
            ctx.cov.count("hdrclip_tables_overlapping")
        if any(k != KIND_PLAIN for _, k in nh.res):
            ctx.cov.count("hdrclip_tables_lsb_msb")
        if len(dis) > 5:
            break
    ctx.cov.add_cases("Header.encode/decode with length and get_field names (ill-formed tables included)",
                      ncases, nontriv, exhaustive=False)
    if tables:
        ctx.cov.samples.append(dict(tables[-1].describe(), instance="Header(length, names)", mode="C"))
    return dis


class _NoCov:
    def count(self, *a, **k):
        pass


def replay_clip(d):
    """Re-run the monitors of `header_clip_tie` on one recorded input (a disagreement dict of kind `monitor:…`)
    on the real code; returns the list of monitor messages that still fire."""
    fields = {k: tuple(v) for k, v in d["fields"].items()}
    h0 = packet.Header({k: packet.HeaderField(*fields[k]) for k in fields}, d["length"],
                       swap_field_bytes=d["swap"])
    rec = [tuple(x) for x in d.get("record", [])]
    plain = rec == [tuple(x) for x in h0.get_layout()]
    nh = NamedHdr(fields, d["length"], d["swap"], layout=None if plain else rec)
    out = []
    if list(nh.header.get_layout()) != [(k, nh.fields[k][2]) for k in sorted(nh.fields)]:
        out.append("header get_layout")
    if "values" in d:
        objs_list = [list(d["values"])]
        enc, _ = real_named(nh, objs_list, [])
        if not isinstance(enc, str):
            _, back = real_named(nh, [], enc)
            dis = []
            _monitors(nh, objs_list, enc, back, dis, _NoCov())
            out += [x["kind"][8:] for x in dis]
    return out
