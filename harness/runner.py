"""Common check runner: regen -> prove (lake build + axiom audit + forbidden-token grep) -> correspond ->
probe findings -> failing-input search -> evidence.  See DESIGN.md §2."""
import os, sys, re, json, time, subprocess, random, importlib, traceback, fcntl, glob

VERIF = os.path.dirname(os.path.dirname(os.path.abspath(__file__)))
LEAN_DIR = os.path.join(VERIF, "lean")
ALLOWED_AXIOMS = {"propext", "Classical.choice", "Quot.sound"}
FORBIDDEN = re.compile(r"\b(sorry|admit|native_decide|bv_decide|implemented_by)\b|^axiom |unsafe |maxHeartbeats 0")

TRUSTED_BASE = [
    "Lean 4.33.0 kernel; axioms limited to propext, Classical.choice, Quot.sound (audited per theorem by #print axioms on every run)",
    "statements in lean/LitexProps/<id>.lean say what the property says",
    "correspondence harness (harness/*.py) and Lean driver parsing/printing",
    "litex.gen.sim.core.Evaluator taken as the meaning of an FHDL netlist; Migen itself is executed, not verified",
]


class Coverage:
    def __init__(self):
        self.instances = []
        self.samples = []
        self.evaluations = 0
        self.nontrivial = 0
        self.states = 0
        self.transitions = 0
        self.hist = {}
        self.notes = []

    def add_instance(self, name, states, transitions, nontrivial, exhaustive, mode):
        self.instances.append({"instance": name, "mode": mode, "states": states, "transitions": transitions,
                               "distinct_nontrivial": nontrivial, "exhaustive": exhaustive})
        self.evaluations += transitions
        self.nontrivial += nontrivial
        self.states += states
        self.transitions += transitions

    def add_cases(self, name, n, nontrivial, exhaustive=False, mode="C"):
        self.instances.append({"instance": name, "mode": mode, "cases": n, "distinct_nontrivial": nontrivial,
                               "exhaustive": exhaustive})
        self.evaluations += n
        self.nontrivial += nontrivial

    def count(self, key, k=1):
        self.hist[key] = self.hist.get(key, 0) + k


class Ctx:
    def __init__(self, prop, tier, seed):
        self.prop = prop
        self.tier = tier
        self.seed = seed
        self.rng = random.Random(seed * 1000003 + sum(map(ord, prop)))
        self.cov = Coverage()
        self.t0 = time.time()
        self.lean = None
        self.messages = []
        self.known = load_known(prop)
        self.finding_lines = []
        self.budget_s = None

    def log(self, *a):
        print("[%s %6.1fs]" % (self.prop, time.time() - self.t0), *a, flush=True)

    def elapsed(self):
        return time.time() - self.t0


def load_known(prop):
    p = os.path.join(VERIF, "known_findings.json")
    if not os.path.exists(p):
        return []
    data = json.load(open(p))
    return [e for e in data.get("findings", []) if e.get("property") == prop]


def sh(cmd, cwd=None, timeout=None):
    p = subprocess.run(cmd, cwd=cwd, shell=isinstance(cmd, str), stdout=subprocess.PIPE, stderr=subprocess.STDOUT,
                       text=True, timeout=timeout)
    return p.returncode, p.stdout


def lake_build(targets, timeout=3000):
    lock = os.path.join(LEAN_DIR, ".lake-build.lock")
    with open(lock, "w") as lf:
        fcntl.flock(lf, fcntl.LOCK_EX)
        try:
            rc, out = sh(["lake", "build"] + targets, cwd=LEAN_DIR, timeout=timeout)
        finally:
            fcntl.flock(lf, fcntl.LOCK_UN)
    return rc, out


def prop_theorems(prop):
    """Names of the theorems stated in LitexProps/<prop>.lean (the proof obligations)."""
    src = open(os.path.join(LEAN_DIR, "LitexProps", prop + ".lean")).read()
    src_nc = strip_comments(src)
    names = []
    ns = []
    for line in src_nc.splitlines():
        m = re.match(r"\s*namespace\s+(\S+)", line)
        if m:
            ns.append(m.group(1))
            continue
        m = re.match(r"\s*end\s+(\S+)", line)
        if m and ns and ns[-1] == m.group(1):
            ns.pop()
            continue
        m = re.match(r"\s*(?:@\[[^\]]*\]\s*)?(?:private\s+|protected\s+)?theorem\s+(\S+)", line)
        if m:
            names.append(".".join(ns + [m.group(1)]))
    return names


def strip_comments(src):
    # remove block comments (nested) and line comments
    out = []
    i = 0
    depth = 0
    n = len(src)
    while i < n:
        if src.startswith("/-", i):
            depth += 1
            i += 2
        elif depth and src.startswith("-/", i):
            depth -= 1
            i += 2
        elif depth:
            if src[i] == "\n":
                out.append("\n")
            i += 1
        elif src.startswith("--", i):
            while i < n and src[i] != "\n":
                i += 1
        else:
            out.append(src[i])
            i += 1
    return "".join(out)


def forbidden_tokens(prop_files):
    bad = []
    for f in prop_files:
        try:
            src = strip_comments(open(f).read())
        except FileNotFoundError:
            continue
        for ln, line in enumerate(src.splitlines(), 1):
            if FORBIDDEN.search(line):
                bad.append("%s:%d: %s" % (os.path.relpath(f, VERIF), ln, line.strip()[:120]))
    return bad


def lean_deps(prop):
    """Transitive closure of project-local imports of LitexProps/<prop>.lean and Driver/<prop>.lean."""
    todo = [os.path.join(LEAN_DIR, "LitexProps", prop + ".lean"), os.path.join(LEAN_DIR, "Driver", prop + ".lean")]
    seen = []
    while todo:
        f = todo.pop()
        if f in seen or not os.path.exists(f):
            continue
        seen.append(f)
        for m in re.finditer(r"^import\s+(\S+)", open(f).read(), re.M):
            mod = m.group(1)
            if mod.split(".")[0] in ("LitexModel", "LitexProofs", "LitexProps", "Driver"):
                todo.append(os.path.join(LEAN_DIR, *mod.split(".")) + ".lean")
    return seen


def write_audit(prop, theorems):
    path = os.path.join(LEAN_DIR, "Audit", prop + ".lean")
    body = "import LitexProps.%s\n-- generated by harness/runner.py from the theorem list of LitexProps/%s.lean\n" % (prop, prop)
    body += "".join("#print axioms %s\n" % t for t in theorems)
    old = open(path).read() if os.path.exists(path) else None
    if old != body:
        with open(path, "w") as f:
            f.write(body)
    return path


def prove(ctx, extra_targets=()):
    """Returns (ok, info dict)."""
    prop = ctx.prop
    info = {"obligations": 0, "discharged": 0, "failed": [], "axioms": {}}
    theorems = prop_theorems(prop)
    info["obligations"] = len(theorems)
    info["theorems"] = theorems
    write_audit(prop, theorems)
    targets = ["LitexProps." + prop, "drv_" + prop.lower()] + list(extra_targets)
    rc, out = lake_build(targets)
    info["build_rc"] = rc
    if rc != 0:
        errs = [l for l in out.splitlines() if "error" in l][:20]
        info["failed"] = errs or [out[-2000:]]
        info["build_log_tail"] = out[-4000:]
        return False, info
    rc, out = sh(["lake", "env", "lean", os.path.join("Audit", prop + ".lean")], cwd=LEAN_DIR, timeout=1200)
    info["audit_rc"] = rc
    cur = None
    axioms = {}
    # output format: "'Name' depends on axioms: [a, b]" possibly wrapped over lines, or "'Name' does not depend on any axioms"
    text = out.replace("\n", " ")
    for m in re.finditer(r"'([^']+)' (does not depend on any axioms|depends on axioms: \[([^\]]*)\])", text):
        name = m.group(1)
        axs = [a.strip() for a in (m.group(3) or "").split(",") if a.strip()]
        axioms[name] = axs
    info["axioms"] = axioms
    ok = rc == 0
    for t in theorems:
        if t not in axioms:
            info["failed"].append("no axiom report for " + t)
            ok = False
        elif not set(axioms[t]) <= ALLOWED_AXIOMS:
            info["failed"].append("%s uses axioms %s" % (t, axioms[t]))
            ok = False
        else:
            info["discharged"] += 1
    bad = forbidden_tokens(lean_deps(prop))
    if bad:
        info["failed"] += ["forbidden token: " + b for b in bad]
        ok = False
    if ctx.tier == "thorough" and ok:
        mods = ["LitexProps." + prop]
        rc, out = sh(["lake", "env", "leanchecker"] + mods, cwd=LEAN_DIR, timeout=3000)
        info["leanchecker_rc"] = rc
        if rc != 0:
            info["failed"].append("leanchecker: " + out[-500:])
            ok = False
    return ok, info


def write_evidence(ctx, proof_info, violations, extra_assumptions=(), extra_cov=None):
    cov = ctx.cov
    coverage = {
        "obligations": proof_info.get("obligations", 0),
        "discharged": proof_info.get("discharged", 0),
        "checker_cmd": "cd lean && lake build LitexProps.%s && lake env lean Audit/%s.lean  (#print axioms per theorem)%s" % (
            ctx.prop, ctx.prop, " && lake env leanchecker LitexProps.%s" % ctx.prop if ctx.tier == "thorough" else ""),
        "trusted_base": TRUSTED_BASE + list(getattr(ctx, "extra_trusted", [])),
        "theorems": proof_info.get("theorems", []),
        "axioms_used": sorted({a for axs in proof_info.get("axioms", {}).values() for a in axs}),
        "evaluations": cov.evaluations,
        "distinct_nontrivial": cov.nontrivial,
        "rule": getattr(ctx, "rule", "model/implementation correspondence cases; non-trivial = a handshake, bus event or state-changing operation happened in that (state, input) pair; counted per distinct pair"),
        "samples": cov.samples[:8] if cov.samples else [{"note": "no correspondence samples recorded"}],
        "states": cov.states,
        "transitions": cov.transitions,
        "traces_validated_against_impl": sum(1 for i in cov.instances),
        "instances": cov.instances,
        "exhaustive": bool(cov.instances) and all(i.get("exhaustive") for i in cov.instances),
        "input_distribution": cov.hist,
        "known_findings_reported": ctx.finding_lines,
        "notes": cov.notes,
    }
    if proof_info.get("failed"):
        coverage["proof_failures"] = proof_info["failed"][:20]
    if extra_cov:
        coverage.update(extra_cov)
    ev = {
        "property_id": ctx.prop,
        "tier": ctx.tier,
        "seed": ctx.seed,
        "level": "proof",
        "coverage": coverage,
        "assumptions": list(getattr(ctx, "assumptions", [])) + list(extra_assumptions),
        "wall_s": round(time.time() - ctx.t0, 2),
        "violations": violations,
    }
    evdir = os.environ.get("VERIF_EVIDENCE_DIR") or os.path.join(VERIF, "evidence")
    os.makedirs(evdir, exist_ok=True)
    with open(os.path.join(evdir, ctx.prop + ".json"), "w") as f:
        json.dump(ev, f, indent=1, default=str)


def write_replay(ctx, payload, tag=""):
    rdir = os.environ.get("VERIF_REPLAY_DIR") or os.path.join(VERIF, "replays")
    os.makedirs(rdir, exist_ok=True)
    path = os.path.join(rdir, "%s-%d%s.json" % (ctx.prop, ctx.seed, tag))
    with open(path, "w") as f:
        json.dump(payload, f, indent=1, default=str)
    return path


def main_check(prop, tier, seed, replay=None):
    """Entry point used by /verif/check.  Returns the exit status."""
    sys.path.insert(0, os.path.join(VERIF, "harness"))
    import envshim
    envshim.install()
    ctx = Ctx(prop, tier, seed)
    mod = importlib.import_module("props." + prop.lower())
    if replay:
        return mod.replay(ctx, json.load(open(replay)))
    violations = []     # list of (payload dict, found_input: bool)
    proof_info = {}
    try:
        # 1. regen
        if hasattr(mod, "regen"):
            mod.regen(ctx)
        # 2. prove
        ok, proof_info = prove(ctx, getattr(mod, "EXTRA_TARGETS", ()))
        ctx.log("prove: %d/%d obligations discharged%s" % (proof_info.get("discharged", 0), proof_info.get("obligations", 0),
                                                          "" if ok else "  FAILED: " + "; ".join(proof_info.get("failed", [])[:3])))
        proof_broken = not ok
        # 3. correspondence (+ monitors)
        from leanproc import LeanDriver, LeanError
        disagreements = []
        if proof_info.get("build_rc", 1) == 0:
            ctx.lean = LeanDriver(prop)
            try:
                disagreements = mod.correspond(ctx) or []
            except Exception as e:
                # The harness could not even exercise the real code the way it does on the unchanged tree
                # (constructor raised, port disappeared, width changed, worker died, ...).  That is a broken
                # correspondence, to be reported - not a silent machinery error.
                tb = traceback.format_exc()
                print(tb, flush=True)
                disagreements = [{"kind": "correspondence-exception", "instance": None,
                                  "what": "the correspondence run raised %r; the model/implementation tie no longer checks" % (e,),
                                  "traceback": tb[-3000:]}]
                try:
                    ctx.lean.quit()
                except Exception:
                    pass
                ctx.lean = LeanDriver(prop)
        else:
            ctx.log("driver/model does not build; running implementation-side monitors only")
        # 4. findings
        if hasattr(mod, "probes"):
            try:
                probe_results = list(mod.probes(ctx))
            except Exception as e:
                tb = traceback.format_exc()
                print(tb, flush=True)
                probe_results = []
                disagreements.append({"kind": "probe-exception", "instance": None,
                                      "what": "the finding probes raised %r" % (e,), "traceback": tb[-3000:]})
            for fid, still_fails, what in probe_results:
                entry = next((e for e in ctx.known if e.get("id") == fid), None)
                if entry is None:
                    if still_fails:
                        violations.append(({"kind": "unlisted-finding", "id": fid, "what": what, "failing_input": {"probe": fid, "witness": what}}, True))
                    continue
                if entry.get("status") == "fixed":
                    if still_fails:
                        violations.append(({"kind": "fixed-finding-returned", "id": fid, "what": what, "failing_input": {"probe": fid, "witness": what}}, True))
                elif still_fails:
                    line = "KNOWN-FINDING: property=%s %s" % (prop, entry.get("what", what))
                    print(line, flush=True)
                    ctx.finding_lines.append(line)
                else:
                    ctx.cov.notes.append("known finding %s no longer reproduces (%s)" % (fid, what))
        # 5. failing-input search
        if proof_broken or disagreements:
            found = None
            if hasattr(mod, "search"):
                try:
                    found = mod.search(ctx, [d for d in disagreements
                                             if not (isinstance(d, dict) and d.get("kind") in ("correspondence-exception", "probe-exception"))],
                                       proof_info)
                except Exception as e:
                    traceback.print_exc()
                    ctx.cov.notes.append("failing-input search raised %r" % (e,))
                    found = None
            payload = {"property": prop, "tier": tier, "seed": seed,
                       "broken_obligations": proof_info.get("failed", []),
                       "disagreements": [d.to_json() if hasattr(d, "to_json") else d for d in disagreements[:5]]}
            if found:
                payload["failing_input"] = found
                violations.append((payload, True))
            else:
                payload["failing_input"] = None
                payload["note"] = "no failing input found within budget; the theorem/correspondence named above no longer checks"
                violations.append((payload, False))
    except Exception as e:  # machinery error: not a verdict
        traceback.print_exc()
        write_evidence(ctx, proof_info, 0, extra_cov={"machinery_error": repr(e)})
        return 2
    finally:
        if ctx.lean is not None:
            ctx.lean.quit()
    write_evidence(ctx, proof_info, len(violations))
    if violations:
        for k, (payload, found) in enumerate(violations):
            path = write_replay(ctx, payload, "" if k == 0 else "-%d" % k)
            print("VIOLATION property=%s replay=%s%s" % (prop, path, "" if found else " no-failing-input-found"), flush=True)
        return 1
    ctx.log("OK  (%d evaluations, %d non-trivial, %.1fs)" % (ctx.cov.evaluations, ctx.cov.nontrivial, ctx.elapsed()))
    return 0
