"""Direct-drive wrapper around litex.gen.sim.core (the repository's own reference semantics).

A `Netlist` lowers a module exactly as `Simulator.__init__` does (MemoryToArray, specials lowering,
insert_resets, comb defaults) and then drives the `Evaluator` by hand:
  - `set(sig, v)` writes an input (a signal nobody drives),
  - `settle()` runs the comb statements to a fix-point,
  - `tick(cds)` executes the sync statements of the chosen clock domains and commits,
  - `snapshot()/restore()` save and restore the complete evaluator state,
  - `state_key()` is an opaque hashable value of all sync-driven signals (registers, memory words).
Arbitrary clock interleavings are possible because the caller chooses which domains tick.
"""
import envshim  # noqa: F401  (sets sys.path)
from migen.fhdl.structure import Signal, ClockDomain, C
from migen.fhdl.tools import list_targets
from litex.gen.sim.core import Simulator


class Netlist:
    def __init__(self, module, clocks=("sys",), special_overrides=None):
        sim = Simulator(module, [], clocks={cd: 10 for cd in clocks},
                        special_overrides=special_overrides or {})
        self.sim = sim
        self.ev = sim.evaluator
        self.frag = sim.fragment
        self.comb = self.frag.comb
        self.sync = self.frag.sync
        self.cds = {cd.name: cd for cd in self.frag.clock_domains}
        regs = set()
        for cd, stmts in self.sync.items():
            regs |= list_targets(stmts)
        self.regs = sorted(regs, key=lambda s: s.duid)
        self.comb_targets = list_targets(self.comb)
        self.inputs = {}
        self.ev.execute(self.comb)
        self._propagate()

    # -- low level ---------------------------------------------------------------------------
    def _propagate(self):
        ev = self.ev
        modified = ev.commit()
        while modified:
            ev.execute(self.comb)
            modified = ev.commit()

    def settle(self):
        self.ev.execute(self.comb)
        self._propagate()

    def set(self, sig, value):
        """Drive an input signal (must not be driven by the design)."""
        nbits, signed = sig.nbits, sig.signed
        value &= (1 << nbits) - 1
        if signed and value >> (nbits - 1):
            value -= 1 << nbits
        self.ev.signal_values[sig] = value

    def set_many(self, pairs):
        for s, v in pairs:
            self.set(s, v)
        self.settle()

    def get(self, sig):
        return self.ev.eval(sig)

    def getu(self, sig):
        """Unsigned view of a signal value."""
        return self.ev.eval(sig) & ((1 << len(sig)) - 1)

    def tick(self, cds=("sys",)):
        """One instant in which the listed clock domains have a rising edge."""
        ev = self.ev
        for cd in cds:
            if cd in self.sync:
                ev.execute(self.sync[cd])
        self._propagate()
        # comb must be re-evaluated even if no register changed (inputs may change next)
        self.settle()

    # -- state -------------------------------------------------------------------------------
    def snapshot(self):
        return dict(self.ev.signal_values)

    def restore(self, snap):
        self.ev.signal_values = dict(snap)
        self.ev.modifications.clear()

    def state_key(self):
        ev = self.ev
        sv = ev.signal_values
        return tuple(sv[s] if s in sv else s.reset.value for s in self.regs)
