"""Environment shims applied inside the harness process only (never in /repo).

1. Python 3.12 tracer shim: migen 0.9.2's `migen.fhdl.tracer.get_var_name` does not know the 3.12 `CALL`
   opcode, so every CSR/event source created without `name=` raises "Cannot extract CSR name from code".
   We replace it with a `dis`-based equivalent.
2. Silence LiteX logging and keep `sys.stderr` usable (SoCError.__init__ sets it to None).
"""
import os, sys, dis, inspect, logging

REPO = os.environ.get("LITEX_REPO", "/repo")
if REPO not in sys.path:
    sys.path.insert(0, REPO)

_installed = False


_VAR_NAME_CACHE = {}


def _get_var_name(frame):
    """Memoised on (code object, instruction offset): the answer depends on nothing else."""
    key = (frame.f_code, frame.f_lasti)
    try:
        return _VAR_NAME_CACHE[key]
    except KeyError:
        r = _VAR_NAME_CACHE[key] = _get_var_name_uncached(frame)
        return r


def _get_var_name_uncached(frame):
    code = frame.f_code
    lasti = frame.f_lasti
    instrs = list(dis.get_instructions(code))
    # find the instruction at/after lasti, then the first STORE_* following the call
    idx = None
    for k, ins in enumerate(instrs):
        if ins.offset >= lasti:
            idx = k
            break
    if idx is None:
        return None
    depth_ops = ("CALL", "CALL_FUNCTION", "CALL_FUNCTION_KW", "CALL_KW", "CALL_METHOD", "CALL_FUNCTION_EX")
    # instruction at lasti should be a call
    k = idx
    if instrs[k].opname not in depth_ops:
        # search backwards a little / forwards a little
        found = False
        for kk in range(idx, min(idx + 3, len(instrs))):
            if instrs[kk].opname in depth_ops:
                k = kk
                found = True
                break
        if not found:
            return None
    k += 1
    while k < len(instrs):
        ins = instrs[k]
        op = ins.opname
        if op in ("STORE_NAME", "STORE_ATTR", "STORE_FAST", "STORE_DEREF", "STORE_GLOBAL"):
            return ins.argval
        if op in ("CACHE", "PRECALL", "EXTENDED_ARG", "NOP", "COPY", "DUP_TOP", "RESUME"):
            k += 1
            continue
        if op in ("LOAD_FAST", "LOAD_NAME", "LOAD_GLOBAL", "LOAD_DEREF", "LOAD_ATTR", "LOAD_CONST",
                  "LOAD_FAST_CHECK", "LOAD_FAST_AND_CLEAR", "SWAP"):
            # e.g. `self.x = Foo()` : CALL; LOAD_FAST self; STORE_ATTR x
            k += 1
            continue
        return None
    return None


def install():
    global _installed
    if _installed:
        return
    _installed = True
    logging.disable(logging.CRITICAL)
    import migen.fhdl.tracer as tracer
    tracer.get_var_name = _get_var_name
    # modules that did `from migen.fhdl.tracer import get_var_name` keep the old one; patch the known users
    for modname in list(sys.modules):
        m = sys.modules[modname]
        if m is not None and getattr(m, "get_var_name", None) is not None and modname.startswith("migen"):
            try:
                setattr(m, "get_var_name", _get_var_name)
            except Exception:
                pass


def quiet_stderr():
    """LiteX's SoCError sets sys.stderr = None; restore it."""
    if sys.stderr is None:
        sys.stderr = sys.__stderr__
