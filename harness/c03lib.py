"""C03 helpers: property oracles (scoreboards) for the stream elements whose documented function is not the
identity, and instances for the multi-port routing elements.

Every oracle implements the *documented function* of the element directly in Python, independently of the Lean
model; `observe(letter, outs)` returns None or a message.  Letter/outs order for one-sink/one-source elements
(streamlib.StreamInst): letter = (sink.valid, sink.data, sink.first, sink.last, source.ready, extras...),
outs = [sink.ready, source.valid, source.data, source.first, source.last]; data = payload signals then param
signals packed into one number, first signal lowest."""
import math
from netlist import Netlist
from streamlib import StreamInst, flat_payload, PackedField


def mask(n):
    return (1 << n) - 1


def sel_values(n):
    """Number of selector values to drive for an n-way Multiplexer/Demultiplexer, computed from the constructor
    argument (documented selector range 0..max(n,2)-1, rounded up to the next power of two so that out-of-range
    selections are exercised too) — never from the width of the signal in the code under test."""
    return 1 << max(1, (max(n, 2) - 1).bit_length())


def declared_widths(inst, data_bits, extra_ranges=()):
    """Make the random generator of a StreamInst draw sink data and extra inputs from the ranges the constructor
    arguments promise (not from the widths of the signals found in the code under test, which a code change may
    shrink).  The unmasked values go to the model; the netlist truncates them as the hardware would."""
    dmax = mask(data_bits)
    extra_ranges = list(extra_ranges)

    def gen(rng, t):
        regime = (t // 64) % 5
        pv = (0.5, 0.9, 0.1, 1.0, 0.5)[regime]
        pr = (0.5, 0.1, 0.9, 1.0, 0.2)[regime]
        v = 1 if rng.random() < pv else 0
        r = 1 if rng.random() < pr else 0
        d = rng.choice(inst.data_values) if rng.random() < 0.3 else rng.randint(0, dmax)
        f = 1 if rng.random() < 0.2 else 0
        l = 1 if rng.random() < 0.2 else 0
        return (v, d, f, l, r) + tuple(rng.randrange(n) for n in extra_ranges)
    inst.gen = gen
    return inst


# ------------------------------------------------------------------------------------------------------
# robustness: an exception or a hang while building or driving a (changed) implementation becomes a reported
# disagreement carrying the concrete input trace, never a crash or an endless run

class _Timeout(Exception):
    pass


_ALARM_READY = [None]


def _with_alarm(seconds, fn, *a):
    """Run fn under a limit of `seconds` of *CPU time of this process* (ITIMER_PROF): a hang burns CPU and trips
    it, a merely overloaded machine does not."""
    import signal
    if _ALARM_READY[0] is None:
        def onalarm(sig, frm):
            raise _Timeout("no fix-point / no return within the CPU-time limit")
        try:
            signal.signal(signal.SIGPROF, onalarm)
            _ALARM_READY[0] = True
        except ValueError:           # not in the main thread: run unguarded
            _ALARM_READY[0] = False
    if not _ALARM_READY[0]:
        return fn(*a)
    signal.setitimer(signal.ITIMER_PROF, seconds)
    try:
        return fn(*a)
    finally:
        signal.setitimer(signal.ITIMER_PROF, 0)


def guard(inst, step_timeout=20):
    """Wrap apply/sample/tick of an instance: an exception or a hang (combinational loop that never settles)
    marks the instance broken; from then on `sample` returns impossible values, so the very letter that broke it
    is reported as a disagreement with its trace from reset."""
    nout = len(inst.qual)
    o_apply, o_sample, nl = inst.apply, inst.sample, inst.netlist
    o_tick, o_restore = nl.tick, nl.restore
    inst.broken = None

    def apply(letter):
        if inst.broken is None:
            try:
                _with_alarm(step_timeout, o_apply, letter)
            except Exception as e:                      # noqa: BLE001
                inst.broken = "apply%r: %r" % (tuple(letter), e)

    def sample():
        if inst.broken is None:
            try:
                return _with_alarm(step_timeout, o_sample)
            except Exception as e:                      # noqa: BLE001
                inst.broken = "sample: %r" % (e,)
        return [-1] * nout

    def tick(cds=("sys",)):
        if inst.broken is None:
            try:
                _with_alarm(step_timeout, o_tick, cds)
            except Exception as e:                      # noqa: BLE001
                inst.broken = "tick: %r" % (e,)

    def restore(snap):
        inst.broken = None
        o_restore(snap)

    inst.apply, inst.sample, nl.tick, nl.restore = apply, sample, tick, restore
    return inst


class _NullNetlist:
    def snapshot(self):
        return {}

    def restore(self, snap):
        pass

    def state_key(self):
        return ()

    def tick(self, cds=("sys",)):
        pass

    def settle(self):
        pass


class BrokenInst:
    """Stands in for an instance whose construction raised: its outputs can never match a model, so the job ends
    with a disagreement naming the exception (the 'failing input' is the constructor call itself)."""

    def __init__(self, what, err):
        self.name = "BUILD-FAILED %s: %s" % (what, err)
        self.lean_open = "wire"
        self.netlist = _NullNetlist()
        self.qual = [None] * 5
        self.alphabet = [(0, 0, 0, 0, 0)]
        self.broken = err

    def apply(self, letter):
        pass

    def sample(self):
        return [-1] * 5

    def nontrivial(self, letter, outs):
        return False

    def gen(self, rng, t):
        return (0, 0, 0, 0, 0)

    def monitor(self):
        inst = self

        class M:
            def observe(self, letter, outs):
                return "instance could not be built: " + inst.broken
        return M()


class Safe:
    """Job.make wrapper: build errors become a BrokenInst.  Keeps `__code__` of the wrapped constructor visible
    (props/c04.py recognises the router jobs by the names their constructor lambda uses)."""

    def __init__(self, mk, what="instance"):
        self.mk = mk
        self.what = what
        self.__code__ = getattr(mk, "__code__", None)

    def __call__(self):
        try:
            inst = _with_alarm(90, self.mk)
        except Exception as e:                          # noqa: BLE001
            import traceback
            tb = traceback.extract_tb(e.__traceback__)
            where = "%s:%d" % (tb[-1].filename.split("/")[-1], tb[-1].lineno) if tb else "?"
            return BrokenInst(self.what, "%r at %s" % (e, where))
        if hasattr(inst, "apply") and not hasattr(inst, "broken"):
            guard(inst)
        return inst


# ------------------------------------------------------------------------------------------------------
# observations beyond the per-handshake comparison

class NoLoss:
    """Wraps a scoreboard: while `pending()` says that something deliverable waits inside and the consumer is
    ready, a delivery must happen within `limit` cycles — a token that never comes out is a lost token."""

    def __init__(self, inner, pending, limit):
        self.inner, self.pending, self.limit = inner, pending, limit
        self.count = 0

    def __getattr__(self, k):
        return getattr(self.inner, k)

    def observe(self, letter, outs):
        m = self.inner.observe(letter, outs)
        if m:
            return m
        rdy = letter[4]
        delivered = outs[1] and rdy
        if delivered or not rdy or not self.pending(self.inner):
            self.count = 0
        else:
            self.count += 1
            if self.count > self.limit:
                return ("something deliverable is pending, the consumer has been ready for %d cycles, nothing was "
                        "delivered (loss)" % self.count)
        return None


class FifoLevel:
    """SyncFIFO(depth >= 2): the exported `level` equals the number of tokens in flight (scoreboard queue) at the
    start of every cycle.  `inst._level` is sampled before the clock edge by `watch_level`."""

    def __init__(self, inner, inst):
        self.inner, self.inst = inner, inst

    def __getattr__(self, k):
        return getattr(self.inner, k)

    def observe(self, letter, outs):
        before = len(self.inner.q)
        m = self.inner.observe(letter, outs)
        if m:
            return m
        lv = getattr(self.inst, "_level", None)
        if lv is not None and lv != before:
            return "level output is %d with %d tokens in flight" % (lv, before)
        return None


def watch_level(inst, level_sig):
    o_sample = inst.sample

    def sample():
        inst._level = inst.netlist.getu(level_sig)
        return o_sample()
    inst.sample = sample
    return inst


def reduce_garbage(inst):
    """Keep every letter with sink.valid = 1 but only two garbage patterns (all fields 0 / all fields 1) when
    sink.valid = 0: enough to expose any dependence on an invalid sink, and keeps mode A small."""
    dmax = mask(inst.sdata.width)
    keep = []
    for l in inst.alphabet:
        if l[0] or (l[1], l[2], l[3]) in ((0, 0, 0), (dmax, 1, 1)):
            keep.append(l)
    # make sure both garbage patterns exist
    have = set(keep)
    for l in list(inst.alphabet):
        if not l[0]:
            for g in ((0, 0, 0), (dmax, 1, 1)):
                cand = (0,) + g + tuple(l[4:])
                if cand not in have:
                    have.add(cand)
                    keep.append(cand)
    inst.alphabet = keep
    return inst


# ------------------------------------------------------------------------------------------------------
# up-converting elements: _UpConverter, Converter (up), Pack, StrideConverter (up)

class UpScoreboard:
    """Documented function: chunks of `r` accepted sub-words (cut early by `last`) become one word; lane i
    (physical lane r-1-i when reversed) = i-th sub-word, first/last = OR over the chunk, valid_token_count =
    chunk length (when reported), param = param of the chunk's last sub-word (when checked).  Lanes beyond the
    token count are unspecified.  A word is available no earlier than the cycle after its last sub-word."""

    def __init__(self, r, nb, pw=0, reverse=False, vtc=False, check_param=True, lane_of=None, max_words=1):
        self.r, self.nb, self.pw, self.reverse, self.vtc = r, nb, pw, reverse, vtc
        self.max_words = max_words      # complete words that may wait inside the element (None: unbounded)
        self.check_param = check_param
        self.lane_of = lane_of          # optional: (source number, physical lane) -> lane value
        self.cur = []
        self.words = []

    def observe(self, letter, outs):
        v, d, f, l, rdy = letter[:5]
        sready, ovalid, od, of, ol = outs[:5]
        r, nb, pw = self.r, self.nb, self.pw
        msg = None
        if ovalid and rdy:
            if not self.words:
                msg = "delivered a word although no complete chunk was accepted before"
            else:
                exp = self.words.pop(0)
                for i, (pay, par, ef, el) in enumerate(exp):
                    n = r - 1 - i if self.reverse else i
                    got = self.lane_of(od, n) if self.lane_of else (od >> (n * nb)) & mask(nb)
                    if got != pay:
                        msg = "lane %d of delivered word is %d, expected sub-word %d" % (n, got, pay)
                ef = int(any(t[2] for t in exp))
                el = int(any(t[3] for t in exp))
                if (of, ol) != (ef, el):
                    msg = "delivered first/last %r, expected OR over the chunk %r" % ((of, ol), (ef, el))
                if pw and self.check_param:
                    gp = (od >> (r * nb)) & mask(pw)
                    if gp != exp[-1][1]:
                        msg = "delivered param %d, expected %d (param of the word's sub-words)" % (gp, exp[-1][1])
                if self.vtc:
                    cnt = od >> (r * nb + pw)
                    if cnt != len(exp):
                        msg = "valid_token_count %d, expected %d" % (cnt, len(exp))
        if v and sready:
            self.cur.append((d & mask(nb), (d >> nb) & mask(pw), f, l))
            if len(self.cur) == r or l:
                self.words.append(self.cur)
                self.cur = []
        if msg is None and self.max_words is not None and len(self.words) > self.max_words:
            msg = "more than %d complete word(s) in flight" % self.max_words
        return msg


# ------------------------------------------------------------------------------------------------------
# down-converting elements: _DownConverter, Converter (down), Unpack, StrideConverter (down)

class DownScoreboard:
    """Documented function: every accepted wide token is delivered as its r lanes in order (physical lane
    r-1-k for the k-th when reversed), first only on lane 0, last only on lane r-1, param copied; the wide token
    is accepted together with the delivery of its last lane.  Checked cycle by cycle against the token the
    producer presents (so it does not assume that the producer holds its token)."""

    def __init__(self, r, nb, pw=0, reverse=False, vtc=False, lane_of=None):
        self.r, self.nb, self.pw, self.reverse, self.vtc = r, nb, pw, reverse, vtc
        self.lane_of = lane_of
        self.k = 0

    def observe(self, letter, outs):
        v, d, f, l, rdy = letter[:5]
        sready, ovalid, od, of, ol = outs[:5]
        r, nb, pw = self.r, self.nb, self.pw
        msg = None
        if ovalid and not v:
            return "source valid without a token on the sink"
        if v and not ovalid:
            return "token on the sink but source not valid (combinational element)"
        deliver = ovalid and rdy
        accept = v and sready
        if deliver:
            n = r - 1 - self.k if self.reverse else self.k
            lane = self.lane_of(d, n) if self.lane_of else (d >> (n * nb)) & mask(nb)
            par = (d >> (r * nb)) & mask(pw)
            exp = (lane, par, int(bool(f) and self.k == 0), int(bool(l) and self.k == r - 1))
            got = (od & mask(nb), (od >> nb) & mask(pw), of, ol)
            if got != exp:
                msg = "lane %d delivered as %r, expected %r (data, param, first, last)" % (self.k, got, exp)
            if self.vtc and (od >> (nb + pw)) != int(self.k == r - 1):
                msg = "valid_token_count wrong on lane %d" % self.k
        if bool(accept) != bool(deliver and self.k == r - 1):
            msg = msg or ("wide token accepted=%d but lane %d of %d delivered=%d" % (accept, self.k, r, deliver))
        if deliver:
            self.k = 0 if self.k == r - 1 else self.k + 1
        return msg


# ------------------------------------------------------------------------------------------------------
# Gearbox

def io_lcm(i, o):
    l = (i * o) // math.gcd(i, o)
    if l // i < 2:
        l *= 2
    if l // o < 2:
        l *= 2
    return l


class GearboxScoreboard:
    """Documented function: the concatenation of the delivered words is a prefix of the concatenation of the
    accepted words (bit order per msb_first); never both sides blocked; occupancy below io_lcm."""

    def __init__(self, i, o, msb_first=True):
        self.i, self.o, self.msb = i, o, msb_first
        self.bits = []
        self.cap = io_lcm(i, o)

    def _bits(self, x, n):
        b = [(x >> k) & 1 for k in range(n)]
        return b[::-1] if self.msb else b

    def observe(self, letter, outs):
        v, d, f, l, rdy = letter[:5]
        sready, ovalid, od, of, ol = outs[:5]
        msg = None
        if not sready and not ovalid:
            msg = "deadlock: sink not ready and source not valid"
        if ovalid and rdy:
            if len(self.bits) < self.o:
                msg = "delivered %d bits but only %d accepted bits are pending" % (self.o, len(self.bits))
            else:
                exp, self.bits = self.bits[:self.o], self.bits[self.o:]
                if self._bits(od, self.o) != exp:
                    msg = "delivered bits %r, expected %r" % (self._bits(od, self.o), exp)
        if v and sready:
            self.bits += self._bits(d & mask(self.i), self.i)
        if msg is None and len(self.bits) >= self.cap:
            msg = "more than io_lcm bits in flight"
        return msg


# ------------------------------------------------------------------------------------------------------
# Gate / Cast / Shifter (per-cycle or queue oracles)

class GateScoreboard:
    """letter[5] = enable.  Enabled: a wire.  Disabled: nothing is delivered; the sink is ready only if
    sink_ready_when_disabled (tokens accepted then are dropped by design)."""

    def __init__(self, srd):
        self.srd = int(srd)

    def observe(self, letter, outs):
        v, d, f, l, rdy, en = letter[:6]
        sready, ovalid, od, of, ol = outs[:5]
        if ovalid and rdy:
            if not (en and v):
                return "delivered a token while disabled or without a sink token"
            if (od, of, ol) != (d, f, l):
                return "delivered %r, expected %r" % ((od, of, ol), (d, f, l))
            if not sready:
                return "token delivered but not accepted (duplication)"
        if v and sready:
            if en and not (ovalid and rdy):
                return "token accepted while enabled but not delivered (loss)"
            if not en and not self.srd:
                return "token accepted while disabled although sink_ready_when_disabled is off"
        if not en and ovalid:
            return "source valid while disabled"
        return None


class XbarScoreboard:
    """Crossbar(n) with demux.source_k wired to mux.sink_k; letter[5] = demux.sel, letter[6] = mux.sel.  Both
    selectors on the same existing port: a wire.  Otherwise blocked both ways (nothing accepted or delivered)."""

    def __init__(self, n):
        self.n = n

    def observe(self, letter, outs):
        v, d, f, l, rdy, sd, sm = letter[:7]
        sready, ovalid, od, of, ol = outs[:5]
        if sd == sm and sd < self.n:
            if bool(ovalid) != bool(v) or bool(sready) != bool(rdy):
                return "selectors agree on port %d but the path is not a wire" % sd
            if ovalid and (od, of, ol) != (d, f, l):
                return "delivered %r, expected %r" % ((od, of, ol), (d, f, l))
        else:
            if ovalid:
                return "source valid although demux.sel = %d, mux.sel = %d" % (sd, sm)
            if sready:
                return "sink ready although demux.sel = %d, mux.sel = %d (token would be lost)" % (sd, sm)
        return None


class MapScoreboard:
    """Combinational element with a data function `fn` (Cast): handshake and flags of a wire, data = fn(data)."""

    def __init__(self, fn):
        self.fn = fn

    def observe(self, letter, outs):
        v, d, f, l, rdy = letter[:5]
        sready, ovalid, od, of, ol = outs[:5]
        if bool(ovalid) != bool(v) or bool(sready) != bool(rdy):
            return "handshake of a combinational element is not passed through"
        if ovalid and (od, of, ol) != (self.fn(d), f, l):
            return "delivered %r, expected %r" % ((od, of, ol), (self.fn(d), f, l))
        return None


def cast_fn(ws_from, ws_to, rev_from, rev_to):
    """Cat(*sigs_to).eq(Cat(*sigs_from)) on packed numbers (first field lowest), written independently."""
    def fn(x):
        vals, sh = [], 0
        for w in ws_from:
            vals.append((x >> sh) & mask(w))
            sh += w
        pairs = list(zip(ws_from, vals))
        if rev_from:
            pairs.reverse()
        raw, sh = 0, 0
        for w, val in pairs:
            raw |= val << sh
            sh += w
        order = list(range(len(ws_to)))
        if rev_to:
            order.reverse()
        out_vals = {}
        sh = 0
        for k in order:
            out_vals[k] = (raw >> sh) & mask(ws_to[k])
            sh += ws_to[k]
        out, sh = 0, 0
        for k, w in enumerate(ws_to):
            out |= out_vals[k] << sh
            sh += w
        return out
    return fn


class ShifterScoreboard:
    """Shifter (PipelinedActor latency 2): flags are delivered unchanged and in order, at most 2 tokens in flight;
    bits [0, dw-shift) of the delivered word are bits [shift, dw) of the accepted word (the upper bits come from
    whatever is on the sink next: documented 'current/last sink.data' window)."""

    def __init__(self, dw):
        self.dw = dw
        self.q = []

    def observe(self, letter, outs):
        v, d, f, l, rdy, sh = letter[:6]
        sready, ovalid, od, of, ol = outs[:5]
        msg = None
        if ovalid and rdy:
            if not self.q:
                msg = "delivered a token that was never accepted"
            else:
                ed, ef, el = self.q.pop(0)
                if (of, ol) != (ef, el):
                    msg = "delivered first/last %r, expected %r" % ((of, ol), (ef, el))
                elif sh < self.dw and (od & mask(self.dw - sh)) != (ed >> sh):
                    msg = "delivered data %#x does not carry bits [%d:] of %#x" % (od, sh, ed)
        if v and sready:
            self.q.append((d & mask(self.dw), f, l))
        if msg is None and len(self.q) > 2:
            msg = "more than 2 tokens in flight"
        return msg


# ------------------------------------------------------------------------------------------------------
# Multiplexer / Demultiplexer instances (own port order, see LitexModel/Stream/NumG.lean)

def _pack(n, ep_field):
    d, sh = 0, 0
    for s, w in zip(ep_field.sigs, ep_field.widths):
        d |= n.getu(s) << sh
        sh += w
    return d


def _unpack(n, ep_field, d):
    sh = 0
    for s, w in zip(ep_field.sigs, ep_field.widths):
        n.set(s, (d >> sh) & mask(w))
        sh += w


class MuxInst:
    """letter = (sel, source.ready, (valid, data, first, last) per sink); outs = [source.valid, data, first,
    last, sink_k.ready...]."""

    def __init__(self, name, module, n, tokens=None, data_values=(0, 1), nb=None, sel_sig=None):
        import itertools
        self.name, self.module, self.n = name, module, n
        self.nb = nb
        self.sel_sig = sel_sig if sel_sig is not None else module.sel   # with_csr: the CSR storage register
        self.lean_open = "mux %d" % n
        self.netlist = Netlist(module)
        self.sinks = [getattr(module, "sink%d" % k) for k in range(n)]
        self.source = module.source
        self.sdata = [PackedField(flat_payload(s)) for s in self.sinks]
        self.odata = PackedField(flat_payload(self.source))
        self.qual = [None, 0, 0, 0] + [None] * n
        self.nsel = sel_values(n)           # from the constructor argument, not from len(module.sel)
        self.data_values = list(data_values)
        if tokens is None:
            tokens = [(0, 0, 0, 0), (1, 0, 0, 1), (1, 1, 1, 0), (0, 1, 1, 1)]   # (valid, data, first, last)
        if n <= 3:
            combos = list(itertools.product(tokens, repeat=n))
        else:       # many sinks (mode B instances): all sinks alike, or one sink differing from idle others
            combos = [tuple([t] * n) for t in tokens] + \
                     [tuple(t if j == k else tokens[0] for j in range(n)) for k in range(n) for t in tokens[1:]]
        self.alphabet = [(sel, r) + tuple(x for t in combo for x in t)
                         for sel in range(self.nsel) for r in (0, 1) for combo in combos]

    def apply(self, letter):
        nl = self.netlist
        nl.set(self.sel_sig, letter[0])
        nl.set(self.source.ready, letter[1])
        for k, s in enumerate(self.sinks):
            v, d, f, l = letter[2 + 4 * k: 6 + 4 * k]
            nl.set(s.valid, v)
            _unpack(nl, self.sdata[k], d)
            nl.set(s.first, f)
            nl.set(s.last, l)
        nl.settle()

    def sample(self):
        nl = self.netlist
        return [nl.getu(self.source.valid), _pack(nl, self.odata), nl.getu(self.source.first),
                nl.getu(self.source.last)] + [nl.getu(s.ready) for s in self.sinks]

    def nontrivial(self, letter, outs):
        return bool(outs[0] and letter[1])

    def gen(self, rng, t):
        dmax = mask(self.nb if self.nb is not None else self.odata.width)
        l = [rng.randrange(self.nsel) if rng.random() < 0.3 else (t // 16) % self.nsel, int(rng.random() < 0.6)]
        for k in range(self.n):
            l += [int(rng.random() < 0.6), rng.randint(0, dmax), int(rng.random() < 0.2), int(rng.random() < 0.2)]
        return tuple(l)

    def monitor(self):
        return MuxMonitor(self.n)


class MuxMonitor:
    """The selected sink is wired to the source; every other sink is never ready."""

    def __init__(self, n):
        self.n = n

    def observe(self, letter, outs):
        sel, rdy = letter[0], letter[1]
        ovalid, od, of, ol = outs[:4]
        readies = outs[4:]
        for k in range(self.n):
            v, d, f, l = letter[2 + 4 * k: 6 + 4 * k]
            if k != sel:
                if readies[k]:
                    return "sink %d ready although sel = %d (token would be lost)" % (k, sel)
            else:
                if bool(readies[k]) != bool(rdy) or bool(ovalid) != bool(v):
                    return "selected sink %d not wired to the source" % k
                if ovalid and (od, of, ol) != (d, f, l):
                    return "delivered %r, expected %r from sink %d" % ((od, of, ol), (d, f, l), k)
        if sel >= self.n and ovalid:
            return "source valid with no sink selected"
        return None


class DemuxInst:
    """letter = (sel, sink.valid, data, first, last, source_k.ready...); outs = [sink.ready, (valid, data, first,
    last) per source]."""

    def __init__(self, name, module, n, tokens=None, nb=None, sel_sig=None):
        import itertools
        self.name, self.module, self.n = name, module, n
        self.nb = nb
        self.sel_sig = sel_sig if sel_sig is not None else module.sel
        self.lean_open = "demux %d" % n
        self.netlist = Netlist(module)
        self.sink = module.sink
        self.sources = [getattr(module, "source%d" % k) for k in range(n)]
        self.sdata = PackedField(flat_payload(self.sink))
        self.odata = [PackedField(flat_payload(s)) for s in self.sources]
        self.qual = [None]
        for k in range(n):
            self.qual += [None, 1 + 4 * k, 1 + 4 * k, 1 + 4 * k]
        self.nsel = sel_values(n)           # from the constructor argument, not from len(module.sel)
        if tokens is None:
            tokens = [(0, 0, 0, 0), (0, 1, 1, 1), (1, 0, 0, 1), (1, 1, 1, 0), (1, 1, 0, 0), (1, 0, 1, 1)]
        self.alphabet = [(sel,) + tuple(t) + tuple(rs) for sel in range(self.nsel) for t in tokens
                         for rs in itertools.product((0, 1), repeat=n)]

    def apply(self, letter):
        nl = self.netlist
        nl.set(self.sel_sig, letter[0])
        nl.set(self.sink.valid, letter[1])
        _unpack(nl, self.sdata, letter[2])
        nl.set(self.sink.first, letter[3])
        nl.set(self.sink.last, letter[4])
        for k, s in enumerate(self.sources):
            nl.set(s.ready, letter[5 + k])
        nl.settle()

    def sample(self):
        nl = self.netlist
        o = [nl.getu(self.sink.ready)]
        for k, s in enumerate(self.sources):
            o += [nl.getu(s.valid), _pack(nl, self.odata[k]), nl.getu(s.first), nl.getu(s.last)]
        return o

    def nontrivial(self, letter, outs):
        return bool(letter[1] and outs[0])

    def gen(self, rng, t):
        dmax = mask(self.nb if self.nb is not None else self.sdata.width)
        return (rng.randrange(self.nsel) if rng.random() < 0.3 else (t // 16) % self.nsel,
                int(rng.random() < 0.7), rng.randint(0, dmax), int(rng.random() < 0.2), int(rng.random() < 0.2)) + \
            tuple(int(rng.random() < 0.6) for _ in range(self.n))

    def monitor(self):
        return DemuxMonitor(self.n)


class DemuxMonitor:
    """The sink is wired to the selected source; every other source is never valid."""

    def __init__(self, n):
        self.n = n

    def observe(self, letter, outs):
        sel, v, d, f, l = letter[:5]
        readies = letter[5:]
        sready = outs[0]
        for k in range(self.n):
            ov, od, of, ol = outs[1 + 4 * k: 5 + 4 * k]
            if k != sel:
                if ov:
                    return "source %d valid although sel = %d (duplication)" % (k, sel)
            else:
                if bool(ov) != bool(v) or bool(sready) != bool(readies[k]):
                    return "sink not wired to selected source %d" % k
                if ov and (od, of, ol) != (d, f, l):
                    return "source %d carries %r, expected %r" % (k, (od, of, ol), (d, f, l))
        if sel >= self.n and sready:
            return "sink ready with no source selected (token would be lost)"
        return None


# ------------------------------------------------------------------------------------------------------
# glue instances (session 2): buffered down-converters, Monitor, selector width

def bits_for(v):
    """Migen bits_for for v >= 0, written independently."""
    n = 1
    while (1 << n) <= v:
        n += 1
    return n


class QueueDownScoreboard:
    """Down-converting element behind a REGISTERED sink (BufferizeEndpoints with a PipeValid on the sink): every wide
    token accepted at the outer sink must come out as its r lanes, in order (physical lane r-1-k for the k-th when
    reversed), first on lane 0 only, last on lane r-1 only, param copied, valid_token_count (when reported) set on
    lane r-1 only; at most `max_lanes` narrow tokens wait inside."""

    def __init__(self, r, nb, pw=0, reverse=False, vtc=False, max_lanes=None):
        self.r, self.nb, self.pw, self.reverse, self.vtc, self.max_lanes = r, nb, pw, reverse, vtc, max_lanes
        self.q = []

    def observe(self, letter, outs):
        v, d, f, l, rdy = letter[:5]
        sready, ovalid, od, of, ol = outs[:5]
        r, nb, pw = self.r, self.nb, self.pw
        msg = None
        if ovalid and rdy:
            if not self.q:
                msg = "delivered a narrow token although every accepted wide token was delivered completely"
            else:
                exp = self.q.pop(0)
                got = (od & mask(nb), (od >> nb) & mask(pw), of, ol) + ((od >> (nb + pw),) if self.vtc else ())
                if got != exp:
                    msg = "delivered %r, expected %r (lane, param, first, last%s)" % (got, exp, ", count" if self.vtc else "")
        if v and sready:
            par = (d >> (r * nb)) & mask(pw)
            for k in range(r):
                n = r - 1 - k if self.reverse else k
                self.q.append(((d >> (n * nb)) & mask(nb), par, int(bool(f) and k == 0), int(bool(l) and k == r - 1)) +
                              ((int(k == r - 1),) if self.vtc else ()))
        if msg is None and self.max_lanes is not None and len(self.q) > self.max_lanes:
            msg = "more than %d narrow tokens in flight" % self.max_lanes
        return msg


class MonitorOracle:
    """stream.Monitor (sys domain), written from the documentation: each counter counts its event since the last
    reset and saturates at 2^w - 1; latch copies the counters; the CSR status shows the latched value two cycles
    later (MultiReg).  letter = (reset, latch, valid, ready, first, last); outs = the four status values
    (None for a counter that was not requested)."""

    def __init__(self, w, delim_first, cfg):
        self.w, self.df, self.cfg = w, delim_first, cfg
        self.count = [0] * 4
        self.latched = [0] * 4
        self.pipe = [[0] * 4, [0] * 4]       # status = latched value of two cycles ago

    def observe(self, letter, outs):
        rs, la, v, r, f, l = letter[:6]
        exp = self.pipe[1]
        msg = None
        names = ("tokens", "overflows", "underflows", "packets")
        for k in range(4):
            if self.cfg[k] and outs[k] != exp[k]:
                msg = "%s status is %d, expected %d" % (names[k], outs[k], exp[k])
        ev = (v and r, v and not r, (not v) and r, v and (f if self.df else l) and r)
        top = (1 << self.w) - 1
        new_l = list(self.latched)
        new_c = list(self.count)
        for k in range(4):
            if rs:
                new_c[k], new_l[k] = 0, 0
            else:
                if ev[k]:
                    new_c[k] = min(self.count[k] + 1, top)
                if la:
                    new_l[k] = self.count[k]
        self.pipe = [list(self.latched), self.pipe[0]]
        self.count, self.latched = new_c, new_l
        return msg


class MonitorInst:
    """Real stream.Monitor watching a free endpoint.  letter = (reset, latch, valid, ready, first, last);
    `via_csr`: reset/latch are driven through the CSR strobes (`_reset.re`, `_latch.re`) instead of the logic inputs."""

    def __init__(self, name, w, delim_first, cfg, via_csr=False, letters=None):
        from litex.soc.interconnect import stream
        from litex.gen import LiteXModule

        ep = stream.Endpoint([("data", 8)])

        class Top(LiteXModule):
            def __init__(self):
                self.ep = ep
                self.mon = stream.Monitor(ep, count_width=w, with_tokens=bool(cfg[0]), with_overflows=bool(cfg[1]),
                                          with_underflows=bool(cfg[2]), with_packets=bool(cfg[3]),
                                          packet_delimiter="first" if delim_first else "last")
        self.module = m = Top()
        self.name = name
        self.w, self.df, self.cfg = w, delim_first, tuple(int(bool(c)) for c in cfg)
        self.lean_open = "monitor %d %d %d %d %d %d" % ((w, int(bool(delim_first))) + self.cfg)
        self.netlist = Netlist(m)
        mon = m.mon
        self.rs = mon._reset.re if via_csr else mon.reset
        self.la = mon._latch.re if via_csr else mon.latch
        self.ep = ep
        self.stat = [getattr(mon, "_" + n).status if c else None
                     for n, c in zip(("tokens", "overflows", "underflows", "packets"), self.cfg)]
        self.qual = [None] * 4
        import itertools
        self.alphabet = letters if letters is not None else list(itertools.product((0, 1), repeat=6))

    def apply(self, letter):
        nl = self.netlist
        rs, la, v, r, f, l = letter
        nl.set(self.rs, rs)
        nl.set(self.la, la)
        nl.set(self.ep.valid, v)
        nl.set(self.ep.ready, r)
        nl.set(self.ep.first, f)
        nl.set(self.ep.last, l)
        nl.settle()

    def sample(self):
        nl = self.netlist
        return [nl.getu(s) if s is not None else 0 for s in self.stat]

    def nontrivial(self, letter, outs):
        return bool(letter[2] and letter[3]) or bool(letter[1])

    def gen(self, rng, t):
        regime = (t // 97) % 4
        prs = (0.01, 0.0, 0.03, 0.002)[regime]
        pla = (0.05, 0.02, 0.3, 0.1)[regime]
        pv = (0.6, 0.95, 0.3, 0.9)[regime]
        pr = (0.6, 0.9, 0.5, 0.2)[regime]
        return (int(rng.random() < prs), int(rng.random() < pla), int(rng.random() < pv), int(rng.random() < pr),
                int(rng.random() < 0.3), int(rng.random() < 0.3))

    def monitor(self):
        return MonitorOracle(self.w, self.df, self.cfg)


def widen_sel(inst):
    """Multiplexer/Demultiplexer: also drive selector values beyond the documented width `bits_for(max(n,2)-1)`
    (the port keeps the low bits); the model (`muxw`/`demuxw`) computes that width from n itself."""
    n = inst.n
    base = inst.nsel
    inst.lean_open = ("muxw %d" if inst.lean_open.startswith("mux") else "demuxw %d") % n
    extra = [(l[0] + base,) + tuple(l[1:]) for l in inst.alphabet if l[0] in (0, n - 1, base - 1)]
    inst.alphabet = list(inst.alphabet) + extra
    inst.nsel = 2 * base
    o_mon = inst.monitor
    width = bits_for(max(n, 2) - 1)

    def monitor():
        m = o_mon()
        o_obs = m.observe
        m.observe = lambda letter, outs: o_obs((letter[0] & mask(width),) + tuple(letter[1:]), outs)
        return m
    inst.monitor = monitor
    return inst
