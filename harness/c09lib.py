"""C09 — bus bridges and AXI-Lite converters: instances, protocol environments and property monitors.

Every bridge is driven with *both* sides open: the harness plays the bus master on the bridge's master side and
the partner (slave) on its slave side.  Port orders are those of `lean/LitexModel/Bridge/Num.lean`:

  AXI-Lite master-driven (AXL_M): awvalid awaddr wvalid wdata wstrb bready arvalid araddr rready
  AXI-Lite slave-driven  (AXL_S): awready wready bvalid bresp arready rvalid rresp rdata
  Wishbone master-driven (WB_M) : cyc stb we adr sel datw
  Wishbone slave-driven  (WB_S) : ack datr err

letter  = master-driven signals of the master-side bus ++ slave-driven signals of the slave-side bus
outputs = slave-driven signals of the master-side bus ++ master-driven signals of the slave-side bus
Names used by environments and monitors: "m.<field>" (master side), "s.<field>" (slave side).

Environments (`Env`): protocol-following automata (a master and a memory-behaved partner with randomised,
policy-controlled timing) that produce the letters of mode-B runs from the bridge's observed outputs.
Monitors (`BridgeMonitor`): the property oracle on the real code, independent of the Lean model:
  * reference byte memory on the master side (selected bytes only; a byte with a write in flight may read old
    or new), one response per request, no response without request;
  * valid/payload stability of everything the bridge drives (slave-side requests, master-side responses);
  * error propagation (a master-side response is an error iff one of the slave-side accesses made for it was);
  * progress (no request left unanswered for `hang` cycles while the environment is responsive).
The same checkers are applied to the signals the *environment* drives; if the environment is not protocol-legal or
the partner is not memory-behaved (hand-made or shrunk traces) the monitor disarms instead of blaming the bridge.
"""
import itertools
from netlist import Netlist

AXL_M = ("awvalid", "awaddr", "wvalid", "wdata", "wstrb", "bready", "arvalid", "araddr", "rready")
AXL_S = ("awready", "wready", "bvalid", "bresp", "arready", "rvalid", "rresp", "rdata")
WB_M = ("cyc", "stb", "we", "adr", "sel", "datw")
WB_S = ("ack", "datr", "err")
AXI_M = ("awvalid", "awaddr", "awburst", "awlen", "awsize", "awid", "wvalid", "wdata", "wstrb", "wlast", "bready",
         "arvalid", "araddr", "arburst", "arlen", "arsize", "arid", "rready")
AXI_S = ("awready", "wready", "bvalid", "bresp", "bid", "arready", "rvalid", "rresp", "rdata", "rid", "rlast")
AHB_M = ("haddr", "hsize", "htrans", "hwdata", "hwrite", "hsel")
AHB_S = ("hrdata", "hreadyout", "hresp")
FIELDS = {"axl": (AXL_M, AXL_S), "wb": (WB_M, WB_S), "axi": (AXI_M, AXI_S), "ahb": (AHB_M, AHB_S)}

# outputs compared only when their qualifier (field of the same group) is 1
QUAL = {"awaddr": "awvalid", "wdata": "wvalid", "wstrb": "wvalid", "araddr": "arvalid",
        "bresp": "bvalid", "rresp": "rvalid", "rdata": "rvalid",
        "we": "stb", "adr": "stb", "sel": "stb", "datw": "stb", "datr": "ack",
        "awburst": "awvalid", "awlen": "awvalid", "awsize": "awvalid", "awid": "awvalid", "wlast": "wvalid",
        "arburst": "arvalid", "arlen": "arvalid", "arsize": "arvalid", "arid": "arvalid",
        "bid": "bvalid", "rid": "rvalid", "rlast": "rvalid"}


def axl_m_sigs(b):
    return [b.aw.valid, b.aw.addr, b.w.valid, b.w.data, b.w.strb, b.b.ready, b.ar.valid, b.ar.addr, b.r.ready]


def axl_s_sigs(b):
    return [b.aw.ready, b.w.ready, b.b.valid, b.b.resp, b.ar.ready, b.r.valid, b.r.resp, b.r.data]


def wb_m_sigs(b):
    return [b.cyc, b.stb, b.we, b.adr, b.sel, b.dat_w]


def wb_s_sigs(b):
    return [b.ack, b.dat_r, b.err]


def axi_m_sigs(b):
    return [b.aw.valid, b.aw.addr, b.aw.burst, b.aw.len, b.aw.size, b.aw.id, b.w.valid, b.w.data, b.w.strb, b.w.last,
            b.b.ready, b.ar.valid, b.ar.addr, b.ar.burst, b.ar.len, b.ar.size, b.ar.id, b.r.ready]


def axi_s_sigs(b):
    return [b.aw.ready, b.w.ready, b.b.valid, b.b.resp, b.b.id, b.ar.ready, b.r.valid, b.r.resp, b.r.data, b.r.id,
            b.r.last]


def ahb_m_sigs(b):
    return [b.addr, b.size, b.trans, b.wdata, b.write, b.sel]


def ahb_s_sigs(b):
    return [b.rdata, b.readyout, b.resp]


SIGS = {"axl": (axl_m_sigs, axl_s_sigs), "wb": (wb_m_sigs, wb_s_sigs), "axi": (axi_m_sigs, axi_s_sigs),
        "ahb": (ahb_m_sigs, ahb_s_sigs)}

# master-driven signals a bridge leaves at their reset value; compared (against the model's constant 0) where the
# bridge is the master of the bus, so that a change that starts driving them is seen
OUT_EXTRA = {"axl": (("awprot", "arprot"), lambda b: [b.aw.prot, b.ar.prot]),
             "wb": (("cti", "bte"), lambda b: [b.cti, b.bte])}


def field_widths(kind, dw, aw, idw=1, adr=None, lenw=8, sizew=3):
    """Declared width of every signal of a bus of `kind`, from the parameters the harness passed to the interface
    constructor (never from len(signal): a mis-sized signal must not hide itself)."""
    nb = dw // 8
    if kind == "axl":
        return dict(awvalid=1, awaddr=aw, wvalid=1, wdata=dw, wstrb=nb, bready=1, arvalid=1, araddr=aw, rready=1,
                    awready=1, wready=1, bvalid=1, bresp=2, arready=1, rvalid=1, rresp=2, rdata=dw, awprot=3, arprot=3)
    if kind == "wb":
        return dict(cyc=1, stb=1, we=1, adr=adr, sel=nb, datw=dw, cti=3, bte=2, ack=1, datr=dw, err=1)
    if kind == "axi":
        return dict(awvalid=1, awaddr=aw, awburst=2, awlen=lenw, awsize=sizew, awid=idw, wvalid=1, wdata=dw, wstrb=nb,
                    wlast=1, bready=1, arvalid=1, araddr=aw, arburst=2, arlen=lenw, arsize=sizew, arid=idw, rready=1,
                    awready=1, wready=1, bvalid=1, bresp=2, bid=idw, arready=1, rvalid=1, rresp=2, rdata=dw, rid=idw,
                    rlast=1)
    if kind == "ahb":
        return dict(haddr=aw, hsize=3, htrans=2, hwdata=dw, hwrite=1, hsel=1, hrdata=dw, hreadyout=1, hresp=1)
    raise KeyError(kind)


class StepTimeout(Exception):
    pass


def _alarm(signum, frame):
    raise StepTimeout("the netlist did not settle within the per-step time limit (combinational oscillation?)")


STEP_LIMIT_S = 120


def init_byte(a):
    """Initial content of every memory partner and reference memory."""
    return (a * 37 + (a >> 8) * 101 + (a >> 16) * 59 + (a >> 24) * 17 + 11) & 0xff


class PortInst:
    """A bridge with both sides open.  `m_kind`/`s_kind` in {"axl","wb",None}; custom port groups can be given
    with `m_ports`/`s_ports` = (in_names, in_sigs, out_names, out_sigs)."""

    def __init__(self, name, module, lean_open, m_kind, m_bus, s_kind=None, s_bus=None, dom=None, env=None,
                 monitor=None, s_ports=None, m_ports=None, clocks=("sys",), m_par=None, s_par=None):
        """`m_par` / `s_par`: keyword arguments of `field_widths` for the two buses (or {"widths": {field: w}} for
        custom port groups): the widths the harness asked for."""
        self.name = name
        self.module = module
        self.lean_open = lean_open
        self.netlist = Netlist(module, clocks=clocks)
        in_names, in_sigs, out_names, out_sigs = [], [], [], []
        declared = {}
        for side, kind, bus, ports, par in (("m", m_kind, m_bus, m_ports, m_par), ("s", s_kind, s_bus, s_ports, s_par)):
            if ports is not None:
                inn, ins, outn, outs = ports
            elif kind is None:
                continue
            else:
                mf, sf = FIELDS[kind]
                ms, ss = SIGS[kind][0](bus), SIGS[kind][1](bus)
                if side == "m":
                    inn, ins, outn, outs = mf, ms, sf, ss
                else:
                    inn, ins, outn, outs = sf, ss, mf, ms
                    if kind in OUT_EXTRA:
                        outn = tuple(outn) + OUT_EXTRA[kind][0]
                        outs = list(outs) + OUT_EXTRA[kind][1](bus)
            if par is not None:
                fw = par["widths"] if "widths" in par else field_widths(kind, **par)
                for f in list(inn) + list(outn):
                    if f in fw:
                        declared[side + "." + f] = fw[f]
            in_names += [side + "." + f for f in inn]
            in_sigs += list(ins)
            out_names += [side + "." + f for f in outn]
            out_sigs += list(outs)
        self.in_names, self.inputs = in_names, in_sigs
        self.out_names, self.outputs = out_names, out_sigs
        self.in_idx = {n: k for k, n in enumerate(in_names)}
        self.out_idx = {n: k for k, n in enumerate(out_names)}
        self.qual = []
        for n in out_names:
            side, f = n.split(".", 1)
            q = QUAL.get(f)
            self.qual.append(self.out_idx[side + "." + q] if q and (side + "." + q) in self.out_idx else None)
        # the signals of the interfaces must have the widths the harness asked for
        for n, sig in list(zip(in_names, in_sigs)) + list(zip(out_names, out_sigs)):
            if n in declared and len(sig) != declared[n]:
                raise AssertionError("%s: signal %s is %d bits wide, %d were requested" % (name, n, len(sig), declared[n]))
        self.declared = declared
        self.widths = [declared.get(n, len(sg)) for n, sg in zip(in_names, in_sigs)]
        dom = dom or {}
        doms = []
        for n, w in zip(in_names, self.widths):
            f = n.split(".", 1)[1]
            doms.append(tuple(dom.get(n, dom.get(f, (0, 1) if w == 1 else (0, (1 << w) - 1)))))
        self.domains = doms
        self._alphabet = None
        self.env = env
        self._monitor = monitor
        self.last_seen = None
        self.strict_env = True

    @property
    def alphabet(self):
        """Product of the input domains; a payload input whose qualifier (valid/stb/ack, also an input) is 0
        takes only one (garbage) value, the last of its domain."""
        if self._alphabet is None:
            conds = []
            for k, n in enumerate(self.in_names):
                side, f = n.split(".", 1)
                q = QUAL.get(f)
                if q and (side + "." + q) in self.in_idx:
                    conds.append((k, self.in_idx[side + "." + q], self.domains[k][-1]))
            self._alphabet = [l for l in itertools.product(*self.domains)
                              if all(l[q] or l[k] == g for k, q, g in conds)]
        return self._alphabet

    # -- helpers for environments ------------------------------------------------------------------
    def peek(self, partial):
        """Outputs (dict) the real netlist shows when the inputs named in `partial` are applied (others 0).
        Registers are untouched."""
        n = self.netlist
        self._arm()
        for k, s in enumerate(self.inputs):
            n.set(s, partial.get(self.in_names[k], 0))
        n.settle()
        self._disarm_timer()
        return {nm: n.getu(s) for nm, s in zip(self.out_names, self.outputs)}

    @staticmethod
    def _arm():
        import signal
        try:
            signal.signal(signal.SIGALRM, _alarm)
            signal.setitimer(signal.ITIMER_REAL, STEP_LIMIT_S)
        except ValueError:      # not in the main thread
            pass

    @staticmethod
    def _disarm_timer():
        import signal
        try:
            signal.setitimer(signal.ITIMER_REAL, 0)
        except ValueError:
            pass

    def letter_of(self, d):
        return tuple(d.get(nm, 0) for nm in self.in_names)

    def sig_dict(self, letter, outs):
        d = dict(zip(self.in_names, letter))
        d.update(zip(self.out_names, outs))
        return d

    def gen(self, rng, t):
        if self.env is None:
            return tuple(rng.choice(d) if rng.random() < 0.5 else rng.getrandbits(w)
                         for d, w in zip(self.domains, self.widths))
        return self.env.gen(self, rng, t)

    def nontrivial(self, letter, outs):
        self._disarm_timer()            # called by the engines right after the clock edge
        d = self.sig_dict(letter, outs)
        for side in ("m", "s"):
            for v, r in (("awvalid", "awready"), ("wvalid", "wready"), ("bvalid", "bready"), ("arvalid", "arready"),
                         ("rvalid", "rready"), ("stb", "ack")):
                if d.get(side + "." + v) and d.get(side + "." + r):
                    return True
        if d.get("m.hsel") and d.get("m.htrans") == 2 and d.get("m.hreadyout"):
            return True
        return False

    def monitor(self):
        """A monitor is requested at the start of every run from reset: the environment restarts with it."""
        if self.env is not None:
            self.env.reset()
            self.last_seen = None
        return self._monitor(self) if self._monitor is not None else NullMonitor()

    # explore.impl_step hooks: the observed outputs of each cycle are kept for the environment automata
    def apply(self, letter):
        n = self.netlist
        self._arm()                     # covers this settle and the tick of the previous step's tail
        for k, s in enumerate(self.inputs):
            n.set(s, letter[k])
        n.settle()

    def sample(self):
        n = self.netlist
        outs = [n.getu(s) for s in self.outputs]
        self.last_seen = dict(zip(self.out_names, outs))
        self._arm()                     # re-armed for the clock edge explore.impl_step performs next
        return outs


class MonitorOnlyInst(PortInst):
    """Composite real-code instance without a Lean model of its own (adapter chains built by
    `SoCBusHandler.add_adapter`): co-simulated against the driver's `unit` machine (no compared outputs); only the
    property monitors judge it."""

    def __init__(self, *a, **kw):
        PortInst.__init__(self, *a, **kw)
        self.lean_open = "unit"
        self.qual = []

    def sample(self):
        PortInst.sample(self)
        return []

    def model_letter(self, letter):
        return []

    def sig_dict(self, letter, outs):
        d = dict(zip(self.in_names, letter))
        d.update(self.last_seen)
        return d


class NullMonitor:
    def observe(self, letter, outs):
        return None


# =========================================================================================================
# Environments

class Mem:
    def __init__(self, init=init_byte):
        self.init = init
        self.m = {}

    def rd(self, a):
        return self.m[a] if a in self.m else self.init(a)

    def wr(self, a, v):
        self.m[a] = v & 0xff

    def read_word(self, base, nb):
        return sum(self.rd(base + k) << (8 * k) for k in range(nb))

    def write_word(self, base, nb, strb, data):
        for k in range(nb):
            if (strb >> k) & 1:
                self.wr(base + k, (data >> (8 * k)) & 0xff)


class SetMem:
    """Reference memory of the oracles: per byte the set of values a correct memory may hold (one value, unless a
    write to the byte was answered with an error: then the old and the new value are both admissible)."""

    def __init__(self, init=init_byte):
        self.init = init
        self.m = {}

    def rd(self, a):
        return self.m[a] if a in self.m else {self.init(a)}

    def write_word(self, base, nb, strb, data, ok=True):
        for k in range(nb):
            if (strb >> k) & 1:
                v = (data >> (8 * k)) & 0xff
                self.m[base + k] = {v} if ok else (set(self.rd(base + k)) | {v})


def addr_pool(rng, abits, nb, n=10):
    """A small pool of addresses (so that reads hit earlier writes): low words, a few random ones, the top word."""
    top = (1 << abits) - 1
    pool = [(k * nb) & top for k in range(4)] + [top & ~(nb - 1)]
    while len(pool) < n:
        pool.append(rng.getrandbits(abits) & ~(nb - 1))
    return pool


class AxlMaster:
    """Protocol-following AXI-Lite master.  Per channel a FIFO of items with a start delay; an item is presented
    (valid + payload) until the cycle its ready is seen.  `max_out` bounds the transactions in flight per
    direction (1 = next request only after the response; >1 = pipelined master).  `order`: relative timing of AW
    and W ("any", "aw_first", "w_first", "same")."""

    def __init__(self, abits, nb, addrs=None, p_wr=0.3, p_rd=0.3, p_bready=0.6, p_rready=0.6, max_out=1,
                 order="any", max_delay=3, strbs=None, align=True, p_pool=0.9):
        self.abits, self.nb, self.p_pool = abits, nb, p_pool
        self.addrs, self.strbs = addrs, strbs
        self.p_wr, self.p_rd, self.p_bready, self.p_rready = p_wr, p_rd, p_bready, p_rready
        self.max_out, self.order, self.max_delay, self.align = max_out, order, max_delay, align
        self.awq, self.wq, self.arq = [], [], []       # items: [delay, payload]
        self.out_w = 0
        self.out_r = 0

    def _addr(self, rng):
        if self.addrs is None:
            self.addrs = addr_pool(rng, self.abits, self.nb)
        a = rng.choice(self.addrs) if rng.random() < self.p_pool else rng.getrandbits(self.abits)
        if self.align:
            a &= ~(self.nb - 1)
        else:
            a |= rng.getrandbits(self.abits) & (self.nb - 1)
        return a & ((1 << self.abits) - 1)

    def drive(self, rng):
        if self.out_w < self.max_out and rng.random() < self.p_wr:
            self.out_w += 1
            a = self._addr(rng)
            full = (1 << self.nb) - 1
            strb = rng.choice(self.strbs) if self.strbs else (full if rng.random() < 0.4 else rng.randint(0, full))
            data = rng.getrandbits(8 * self.nb)
            d1, d2 = rng.randint(0, self.max_delay), rng.randint(0, self.max_delay)
            o = self.order
            if o == "same":
                d2 = d1
            elif o == "aw_first":
                d1, d2 = min(d1, d2), max(d1, d2) + 1
            elif o == "w_first":
                d1, d2 = max(d1, d2) + 1, min(d1, d2)
            self.awq.append([d1, a])
            self.wq.append([d2, (data, strb)])
        if self.out_r < self.max_out and rng.random() < self.p_rd:
            self.out_r += 1
            self.arq.append([rng.randint(0, self.max_delay), self._addr(rng)])
        d = {}
        for q in (self.awq, self.wq, self.arq):
            if q and q[0][0] > 0:
                q[0][0] -= 1
        if self.awq and self.awq[0][0] == 0:
            d["awvalid"], d["awaddr"] = 1, self.awq[0][1]
        else:
            d["awvalid"], d["awaddr"] = 0, rng.getrandbits(self.abits)
        if self.wq and self.wq[0][0] == 0:
            d["wvalid"], (d["wdata"], d["wstrb"]) = 1, self.wq[0][1]
        else:
            d["wvalid"], d["wdata"], d["wstrb"] = 0, rng.getrandbits(8 * self.nb), rng.getrandbits(self.nb)
        if self.arq and self.arq[0][0] == 0:
            d["arvalid"], d["araddr"] = 1, self.arq[0][1]
        else:
            d["arvalid"], d["araddr"] = 0, rng.getrandbits(self.abits)
        d["bready"] = 1 if rng.random() < self.p_bready else 0
        d["rready"] = 1 if rng.random() < self.p_rready else 0
        return d

    def observe(self, drv, rsp):
        if drv["awvalid"] and rsp["awready"]:
            self.awq.pop(0)
        if drv["wvalid"] and rsp["wready"]:
            self.wq.pop(0)
        if drv["arvalid"] and rsp["arready"]:
            self.arq.pop(0)
        if rsp["bvalid"] and drv["bready"]:
            self.out_w = max(0, self.out_w - 1)
        if rsp["rvalid"] and drv["rready"]:
            self.out_r = max(0, self.out_r - 1)


class WbMaster:
    """Classic Wishbone master: presents a request and holds it until ack; random idle gaps."""

    def __init__(self, adr_bits, nb, addrs=None, p_start=0.5, p_we=0.5, sels=None):
        self.adr_bits, self.nb, self.addrs, self.p_start, self.p_we, self.sels = adr_bits, nb, addrs, p_start, p_we, sels
        self.cur = None

    def drive(self, rng):
        if self.cur is None and rng.random() < self.p_start:
            full = (1 << self.nb) - 1
            if self.addrs is None:
                self.addrs = addr_pool(rng, self.adr_bits, 1)
            adr = rng.choice(self.addrs) if rng.random() < 0.9 else rng.getrandbits(self.adr_bits)
            sel = rng.choice(self.sels) if self.sels else (full if rng.random() < 0.5 else rng.randint(1, full))
            self.cur = {"cyc": 1, "stb": 1, "we": 1 if rng.random() < self.p_we else 0, "adr": adr, "sel": sel,
                        "datw": rng.getrandbits(8 * self.nb)}
        if self.cur is not None:
            return dict(self.cur)
        return {"cyc": 1 if rng.random() < 0.2 else 0, "stb": 0, "we": rng.getrandbits(1),
                "adr": rng.getrandbits(self.adr_bits), "sel": rng.getrandbits(self.nb),
                "datw": rng.getrandbits(8 * self.nb)}

    def observe(self, drv, rsp):
        if drv["cyc"] and drv["stb"] and rsp["ack"]:
            self.cur = None


class WbPartner:
    """Wishbone byte memory with random latency (`p_ack` per waiting cycle) and optional error answers."""

    def __init__(self, nb, p_ack=0.5, p_err=0.0, mem=None, amap=None):
        self.nb, self.p_ack, self.p_err = nb, p_ack, p_err
        self.mem = mem or Mem()
        self.amap = amap or (lambda adr: adr * nb)

    def respond(self, rng, req):
        junk = rng.getrandbits(8 * self.nb)
        if req["cyc"] and req["stb"] and rng.random() < self.p_ack:
            if rng.random() < self.p_err:
                return {"ack": 1, "datr": junk, "err": 1}
            return {"ack": 1, "datr": self.mem.read_word(self.amap(req["adr"]), self.nb), "err": 0}
        return {"ack": 0, "datr": junk, "err": 1 if rng.random() < 0.1 else 0}

    def observe(self, req, rsp):
        if req["cyc"] and req["stb"] and rsp["ack"] and not rsp["err"] and req["we"]:
            self.mem.write_word(self.amap(req["adr"]), self.nb, req["sel"], req["datw"])


class AxlPartner:
    """AXI-Lite byte memory.  Outputs depend on its state and random choices only (no combinational path from
    its inputs).  `depth` = requests it accepts per channel before the corresponding response has left
    (1 = single outstanding, 2+ = pipelining slave).  Timing policy: `p_ready` (address/data acceptance),
    `p_exec` (internal latency), `p_resp` (raising a response).  Word address = byte address // nb."""

    def __init__(self, nb, depth=1, p_ready=0.6, p_exec=0.6, p_resp=0.6, p_err=0.0, mem=None, ready_idle=False,
                 aw_before_w=False, ordered=False):
        self.nb, self.depth = nb, depth
        self.aw_before_w, self.ordered = aw_before_w, ordered   # W only after its AW; reads after accepted writes
        self.p_ready, self.p_exec, self.p_resp, self.p_err = p_ready, p_exec, p_resp, p_err
        self.mem = mem or Mem()
        self.awq, self.wq, self.bq, self.arq, self.rq = [], [], [], [], []
        self.bheld = self.rheld = False
        self.ready_idle = ready_idle

    def drive(self, rng):
        d = {}
        d["awready"] = 1 if len(self.awq) + len(self.bq) < self.depth and rng.random() < self.p_ready else 0
        d["wready"] = 1 if len(self.wq) + len(self.bq) < self.depth and rng.random() < self.p_ready else 0
        if self.aw_before_w and len(self.awq) <= len(self.wq):
            d["wready"] = 0
        d["arready"] = 1 if len(self.arq) + len(self.rq) < self.depth and rng.random() < self.p_ready else 0
        if self.bq and (self.bheld or rng.random() < self.p_resp):
            d["bvalid"], d["bresp"] = 1, self.bq[0]
        else:
            d["bvalid"], d["bresp"] = 0, rng.getrandbits(2)
        if self.rq and (self.rheld or rng.random() < self.p_resp):
            d["rvalid"], (d["rresp"], d["rdata"]) = 1, self.rq[0]
        else:
            d["rvalid"], d["rresp"], d["rdata"] = 0, rng.getrandbits(2), rng.getrandbits(8 * self.nb)
        self._rng = rng
        return d

    def observe(self, req, drv):
        rng = self._rng
        if drv["bvalid"]:
            self.bheld = not req["bready"]
            if req["bready"]:
                self.bq.pop(0)
        if drv["rvalid"]:
            self.rheld = not req["rready"]
            if req["rready"]:
                self.rq.pop(0)
        # internal execution (uses requests accepted in earlier cycles)
        if self.awq and self.wq and rng.random() < self.p_exec:
            a, (data, strb) = self.awq.pop(0), self.wq.pop(0)
            if rng.random() < self.p_err:
                self.bq.append(rng.choice((2, 3)))
            else:
                self.mem.write_word((a // self.nb) * self.nb, self.nb, strb, data)
                self.bq.append(0)
        if self.arq and rng.random() < self.p_exec and not (self.ordered and (self.awq or self.wq)):
            a = self.arq.pop(0)
            if rng.random() < self.p_err:
                self.rq.append((rng.choice((2, 3)), rng.getrandbits(8 * self.nb)))
            else:
                self.rq.append((0, self.mem.read_word((a // self.nb) * self.nb, self.nb)))
        if req["awvalid"] and drv["awready"]:
            self.awq.append(req["awaddr"])
        if req["wvalid"] and drv["wready"]:
            self.wq.append((req["wdata"], req["wstrb"]))
        if req["arvalid"] and drv["arready"]:
            self.arq.append(req["araddr"])


class CsrPartner:
    """CSR-bus register file: `dat_r` shows, one cycle later, the register addressed in this cycle."""

    def __init__(self, mem=None, nb=4):
        self.mem = mem or Mem()
        self.nb = nb
        self.datr = 0

    def drive(self, rng):
        return {"datr": self.datr}

    def observe(self, req, drv):
        if req["we"]:
            self.mem.write_word(req["adr"] * self.nb, self.nb, (1 << self.nb) - 1, req["datw"])
        self.datr = self.mem.read_word(req["adr"] * self.nb, self.nb)


class AxiSinglePartner(AxlPartner):
    """AXI4 memory slave for single-beat bursts (what Wishbone2AXI / AXILite2AXI issue): an `AxlPartner` that
    returns the ids and sets `r.last`."""

    def __init__(self, nb, **kw):
        AxlPartner.__init__(self, nb, **kw)
        self.wids, self.rids = [], []

    def drive(self, rng):
        d = AxlPartner.drive(self, rng)
        d["bid"] = self.wids[0] if (d["bvalid"] and self.wids) else rng.getrandbits(1)
        d["rid"] = self.rids[0] if (d["rvalid"] and self.rids) else rng.getrandbits(1)
        d["rlast"] = 1 if d["rvalid"] else rng.getrandbits(1)
        return d

    def observe(self, req, drv):
        if drv["bvalid"] and req["bready"] and self.wids:
            self.wids.pop(0)
        if drv["rvalid"] and req["rready"] and self.rids:
            self.rids.pop(0)
        if req["awvalid"] and drv["awready"]:
            self.wids.append(req["awid"])
        if req["arvalid"] and drv["arready"]:
            self.rids.append(req["arid"])
        AxlPartner.observe(self, req, drv)


class Env:
    """Couples a master automaton and a partner automaton to an open bridge instance.  The partner of a
    Wishbone slave side may answer combinationally (it sees the bridge's request of the same cycle, obtained
    with `inst.peek`); AXI-Lite partners drive from their state only."""

    def __init__(self, master, partner, s_kind):
        import copy
        self._pristine = copy.deepcopy((master, partner))
        self.master, self.partner, self.s_kind = master, partner, s_kind
        self.pending = None

    def reset(self):
        """Back to the initial automata (a new run starts from reset: the partner memory is the initial one)."""
        import copy
        self.master, self.partner = copy.deepcopy(self._pristine)
        self.pending = None

    def gen(self, inst, rng, t):
        self.flush(inst)
        md = self.master.drive(rng)
        part = {"m." + k: v for k, v in md.items()}
        if self.s_kind == "wb":
            outs = inst.peek(part)
            req = {f: outs["s." + f] for f in WB_M}
            sd = self.partner.respond(rng, req)
        elif self.s_kind in ("axl", "axi"):
            sd = self.partner.drive(rng)
        else:
            sd = self.partner.drive(rng) if self.partner is not None else {}
        part.update({"s." + k: v for k, v in sd.items()})
        self.pending = (md, sd)
        return inst.letter_of(part)

    def flush(self, inst):
        """Feed last cycle's observed outputs back to the automata (called before the next drive)."""
        if self.pending is None or inst.last_seen is None:
            return
        md, sd = self.pending
        d = inst.last_seen
        self.master.observe(md, {k[2:]: v for k, v in d.items() if k.startswith("m.")})
        if self.partner is not None:
            self.partner.observe({k[2:]: v for k, v in d.items() if k.startswith("s.")}, sd)
        self.pending = None


# =========================================================================================================
# Monitors

def _hold(prev, cur, valid, ready, fields):
    """Stability of one channel between two consecutive cycles; returns the offending field or None."""
    if prev is None or not prev[valid] or prev[ready]:
        return None
    if not cur[valid]:
        return valid
    for f in fields:
        if prev[f] != cur[f]:
            return f
    return None


AXL_REQ_CH = (("awvalid", "awready", ("awaddr",)), ("wvalid", "wready", ("wdata", "wstrb")),
              ("arvalid", "arready", ("araddr",)))
AXL_RSP_CH = (("bvalid", "bready", ("bresp",)), ("rvalid", "rready", ("rresp", "rdata")))


def axi_beat_addrs(addr, blen, size, burst):
    """AXI4 beat addresses of a burst (specification A3.4.1), independent of the code under test."""
    nbytes = 1 << size
    out = []
    if burst == 0:                                   # FIXED
        return [addr] * (blen + 1)
    aligned = (addr // nbytes) * nbytes
    if burst == 1:                                   # INCR
        return [addr] + [aligned + k * nbytes for k in range(1, blen + 1)]
    total = nbytes * (blen + 1)                      # WRAP
    lower = (addr // total) * total
    a = addr
    for k in range(blen + 1):
        out.append(a)
        a = a + nbytes
        if a >= lower + total:
            a = lower
    return out


def axi_beat_lanes(beat_addr, size, nb):
    """Byte lanes of the data bus a beat transfers."""
    nbytes = 1 << size
    lo = beat_addr % nb
    hi = (lo // nbytes) * nbytes + nbytes
    return range(lo, min(hi, nb))


class AxiMaster:
    """Protocol-following AXI4 master issuing INCR/FIXED/WRAP bursts (`max_len` beats-1, sizes up to the bus width).
    `max_out` transactions per direction in flight; W beats follow their AW after a random delay (`w_early`: may
    also start before it)."""

    def __init__(self, abits, nb, max_len=3, p_wr=0.3, p_rd=0.3, p_bready=0.6, p_rready=0.6, max_out=1, ids=4,
                 bursts=(1, 1, 1, 0, 2), narrow=True, w_early=False, max_delay=3, p_wgap=0.3):
        self.abits, self.nb, self.max_len = abits, nb, max_len
        self.p_wr, self.p_rd, self.p_bready, self.p_rready = p_wr, p_rd, p_bready, p_rready
        self.max_out, self.ids, self.bursts, self.narrow, self.w_early = max_out, ids, bursts, narrow, w_early
        self.max_delay, self.p_wgap = max_delay, p_wgap
        self.awq, self.wq, self.arq = [], [], []
        self.out_w = self.out_r = 0
        self.pool = None
        self.wheld = False

    def _burst(self, rng):
        if self.pool is None:
            self.pool = addr_pool(rng, self.abits, self.nb, n=6)
        full = self.nb.bit_length() - 1
        size = full if (not self.narrow or rng.random() < 0.7) else rng.randint(0, full)
        burst = rng.choice(self.bursts)
        blen = rng.randint(0, self.max_len)
        base = rng.choice(self.pool) + rng.randint(0, 3) * self.nb
        if burst == 2:
            blen = rng.choice([l for l in (1, 3, 7, 15) if l <= max(self.max_len, 1)])
            base = (base // (1 << size)) * (1 << size) + rng.randint(0, blen) * (1 << size)
        elif rng.random() < 0.3:
            base += rng.randint(0, self.nb - 1)           # unaligned start
        else:
            base = (base // (1 << size)) * (1 << size)
        base &= (1 << self.abits) - 1
        # keep inside a 4 KB page
        if (base & 0xfff) + (blen + 1) * (1 << size) > 0x1000:
            base &= ~0xfff
        return dict(addr=base, len=blen, size=size, burst=burst, id=rng.randrange(self.ids))

    def drive(self, rng):
        if self.out_w < self.max_out and rng.random() < self.p_wr:
            self.out_w += 1
            b = self._burst(rng)
            d1 = rng.randint(0, self.max_delay)
            self.awq.append([d1, b])
            addrs = axi_beat_addrs(b["addr"], b["len"], b["size"], b["burst"])
            wd = rng.randint(0, self.max_delay) if self.w_early else d1 + 1 + rng.randint(0, self.max_delay)
            for k, a in enumerate(addrs):
                strb = 0
                for ln in axi_beat_lanes(a, b["size"], self.nb):
                    if rng.random() < 0.85:
                        strb |= 1 << ln
                self.wq.append([wd if k == 0 else 0, (rng.getrandbits(8 * self.nb), strb, 1 if k == b["len"] else 0)])
        if self.out_r < self.max_out and rng.random() < self.p_rd:
            self.out_r += 1
            self.arq.append([rng.randint(0, self.max_delay), self._burst(rng)])
        for q in (self.awq, self.arq):
            if q and q[0][0] > 0:
                q[0][0] -= 1
        if self.wq and self.wq[0][0] > 0:
            self.wq[0][0] -= 1
        d = {}
        for ch, q in (("aw", self.awq), ("ar", self.arq)):
            if q and q[0][0] == 0:
                b = q[0][1]
                d[ch + "valid"] = 1
            else:
                b = dict(addr=rng.getrandbits(self.abits), len=rng.getrandbits(8), size=rng.getrandbits(3),
                         burst=rng.getrandbits(2), id=rng.randrange(self.ids))
                d[ch + "valid"] = 0
            for f in ("addr", "len", "size", "burst", "id"):
                d[ch + f] = b[f]
        if self.wq and self.wq[0][0] == 0 and (self.wheld or rng.random() >= self.p_wgap):
            d["wvalid"], (d["wdata"], d["wstrb"], d["wlast"]) = 1, self.wq[0][1]
            self.wheld = True
        else:
            d["wvalid"], d["wdata"], d["wstrb"], d["wlast"] = 0, rng.getrandbits(8 * self.nb), rng.getrandbits(self.nb), rng.getrandbits(1)
        d["bready"] = 1 if rng.random() < self.p_bready else 0
        d["rready"] = 1 if rng.random() < self.p_rready else 0
        return d

    def observe(self, drv, rsp):
        if drv["awvalid"] and rsp["awready"]:
            self.awq.pop(0)
        if drv["wvalid"] and rsp["wready"]:
            self.wq.pop(0)
            self.wheld = False
        if drv["arvalid"] and rsp["arready"]:
            self.arq.pop(0)
        if rsp["bvalid"] and drv["bready"]:
            self.out_w = max(0, self.out_w - 1)
        if rsp["rvalid"] and drv["rready"] and rsp["rlast"]:
            self.out_r = max(0, self.out_r - 1)


AXI_REQ_CH = (("awvalid", "awready", ("awaddr", "awburst", "awlen", "awsize", "awid")),
              ("wvalid", "wready", ("wdata", "wstrb", "wlast")),
              ("arvalid", "arready", ("araddr", "arburst", "arlen", "arsize", "arid")))
AXI_RSP_CH = (("bvalid", "bready", ("bresp", "bid")), ("rvalid", "rready", ("rresp", "rdata", "rid", "rlast")))


class AxiMemOracle:
    """Reference byte memory seen through one AXI4 port: bursts fully and correctly answered (beat count, `last`
    on the final beat only, ids returned), data of a flat byte memory on the transferred lanes (a byte with a
    write in flight may read old or new), one B per write burst after its last W beat."""

    def __init__(self, nb, amap=None, check_data=True):
        self.nb = nb
        self.amap = amap or (lambda a: a)
        self.mem = SetMem()
        self.aws, self.wbeats = [], []         # accepted AW bursts / W beats not yet answered
        self.rds = []                          # open read bursts: dict(b, addrs, k, adm{byte: set})
        self.cur_ar = None
        self.events = []
        self.check_data = check_data
        self.b_beats_done = 0

    def _note_write(self, base, strb, data):
        for r in self.rds:
            for k in range(self.nb):
                if (strb >> k) & 1 and (base + k) in r["adm"]:
                    r["adm"][base + k].add((data >> (8 * k)) & 0xff)

    def _pending_writes(self):
        """(base, strb, data) of every W beat seen whose burst (address) is known and not yet answered."""
        out = []
        k = 0
        for b in self.aws:
            addrs = axi_beat_addrs(b["addr"], b["len"], b["size"], b["burst"])
            for a in addrs:
                if k < len(self.wbeats):
                    data, strb, _ = self.wbeats[k]
                    out.append((self.amap(a) & ~(self.nb - 1), strb, data))
                k += 1
        return out

    def observe(self, d):
        nb = self.nb
        msg = None
        if d["arvalid"] and self.cur_ar is None:
            b = {f: d["ar" + f] for f in ("addr", "len", "size", "burst", "id")}
            self.cur_ar = b
            addrs = axi_beat_addrs(b["addr"], b["len"], b["size"], b["burst"])
            adm = {}
            for a in addrs:
                base = self.amap(a) & ~(nb - 1)
                for k in range(nb):
                    adm.setdefault(base + k, set(self.mem.rd(base + k)))
            r = {"b": b, "addrs": addrs, "k": 0, "adm": adm, "accepted": False}
            self.rds.append(r)
            for (base, strb, data) in self._pending_writes():
                for k in range(nb):
                    if (strb >> k) & 1 and (base + k) in adm:
                        adm[base + k].add((data >> (8 * k)) & 0xff)
        if d["arvalid"] and d["arready"]:
            self.cur_ar = None
            for r in self.rds:
                if not r["accepted"]:
                    r["accepted"] = True
                    break
        if d["awvalid"] and d["awready"]:
            self.aws.append({f: d["aw" + f] for f in ("addr", "len", "size", "burst", "id")})
            for x in self._pending_writes():
                self._note_write(*x)
        if d["wvalid"] and d["wready"]:
            self.wbeats.append((d["wdata"], d["wstrb"], d["wlast"]))
            for x in self._pending_writes():
                self._note_write(*x)
        if d["bvalid"] and d["bready"]:
            if not self.aws:
                return "write response without an accepted write address"
            b = self.aws[0]
            n = b["len"] + 1
            if len(self.wbeats) < n:
                return "write response before the last data beat of the burst"
            if d["bid"] != b["id"]:
                return "b.id %d for a burst with id %d" % (d["bid"], b["id"])
            addrs = axi_beat_addrs(b["addr"], b["len"], b["size"], b["burst"])
            beats = self.wbeats[:n]
            self.aws.pop(0)
            self.wbeats = self.wbeats[n:]
            if not beats[-1][2] or any(x[2] for x in beats[:-1]):
                return None          # master's own w.last misplaced: not the bridge's problem
            for a, (data, strb, _) in zip(addrs, beats):
                base = self.amap(a) & ~(nb - 1)
                self.mem.write_word(base, nb, strb, data, ok=(d["bresp"] == 0))
                self._note_write(base, strb, data)
            self.events.append(("w", addrs[0], None, None, d["bresp"], n))
        if d["rvalid"] and d["rready"]:
            if not self.rds or not self.rds[0]["accepted"]:
                return "read data without an accepted read address"
            r = self.rds[0]
            b, k = r["b"], r["k"]
            final = (k == b["len"])
            if bool(d["rlast"]) != final:
                msg = "r.last = %d on beat %d of a burst of %d beats" % (d["rlast"], k + 1, b["len"] + 1)
            elif d["rid"] != b["id"]:
                msg = "r.id %d for a burst with id %d" % (d["rid"], b["id"])
            elif d["rresp"] == 0 and self.check_data:
                a = r["addrs"][k]
                base = self.amap(a) & ~(nb - 1)
                for ln in axi_beat_lanes(a, b["size"], nb):
                    v = (d["rdata"] >> (8 * ln)) & 0xff
                    if v not in r["adm"][base + ln]:
                        msg = "beat %d: read of byte address 0x%x returned 0x%02x, reference memory holds %s" % (
                            k + 1, base + ln, v, "/".join("0x%02x" % x for x in sorted(r["adm"][base + ln])))
                        break
            self.events.append(("r", r["addrs"][k], None, d["rdata"], d["rresp"], 1))
            r["k"] += 1
            if final or d["rlast"]:
                self.rds.pop(0)
        return msg

    def outstanding(self):
        return bool(self.aws or self.wbeats or self.rds)



class AhbMaster:
    """AHB-Lite master issuing single NONSEQ transfers (sizes up to the bus width) with IDLE/BUSY gaps.  The
    address phase of the next transfer overlaps the data phase of the current one; everything is held while
    `hreadyout` is low."""

    def __init__(self, abits, nb, p_start=0.6, p_write=0.5, sizes=None):
        self.abits, self.nb, self.p_start, self.p_write = abits, nb, p_start, p_write
        self.sizes = sizes if sizes is not None else list(range(nb.bit_length()))
        self.pool = None
        self.addr_phase = None       # control signals being presented (held while readyout is low)
        self.data_phase = None       # (write, wdata) of the transfer in its data phase

    def drive(self, rng):
        if self.pool is None:
            self.pool = addr_pool(rng, self.abits, self.nb, n=8)
        if self.addr_phase is None:
            if rng.random() < self.p_start:
                size = rng.choice(self.sizes)
                a = (rng.choice(self.pool) + rng.randrange(self.nb)) & ((1 << self.abits) - 1)
                a &= ~((1 << size) - 1)
                self.addr_phase = dict(haddr=a, hsize=size, htrans=2, hwrite=1 if rng.random() < self.p_write else 0,
                                       hsel=1, _wdata=rng.getrandbits(8 * self.nb))
            else:
                self.addr_phase = dict(haddr=rng.getrandbits(self.abits), hsize=rng.getrandbits(2),
                                       htrans=rng.choice((0, 0, 1)), hwrite=rng.getrandbits(1),
                                       hsel=rng.getrandbits(1), _wdata=0)
        d = {k: v for k, v in self.addr_phase.items() if not k.startswith("_")}
        d["hwdata"] = self.data_phase[1] if self.data_phase is not None else rng.getrandbits(8 * self.nb)
        return d

    def observe(self, drv, rsp):
        if rsp["hreadyout"]:
            ap = self.addr_phase
            self.data_phase = (ap["hwrite"], ap["_wdata"]) if (ap["htrans"] == 2 and ap["hsel"]) else None
            self.addr_phase = None


class AhbMemOracle:
    """Reference byte memory seen through an AHB-Lite slave port (single transfers)."""

    def __init__(self, nb, amap=None, check_resp=True):
        self.nb = nb
        self.amap = amap or (lambda a: a)
        self.mem = SetMem()
        self.cur = None          # transfer in its data phase: dict(addr,size,write)
        self.wdata = None
        self.events = []
        self.err_seen = False
        self.lg = nb.bit_length() - 1

    def observe(self, d):
        msg = None
        if self.cur is not None:
            if self.wdata is None:
                self.wdata = d["hwdata"]
            if d["hresp"] and not d["hreadyout"]:
                self.err_seen = True
            if d["hreadyout"]:
                t = self.cur
                base = self.amap(t["addr"]) & ~(self.nb - 1)
                lanes = range(t["addr"] % self.nb, t["addr"] % self.nb + (1 << t["size"]))
                strb = sum(1 << l for l in lanes)
                err = bool(d["hresp"])
                if t["write"]:
                    self.mem.write_word(base, self.nb, strb, self.wdata, ok=not err)
                    self.events.append(("w", base, strb, self.wdata, 2 if err else 0))
                else:
                    self.events.append(("r", base, strb, d["hrdata"], 2 if err else 0))
                    if not err:
                        for l in lanes:
                            v = (d["hrdata"] >> (8 * l)) & 0xff
                            if v not in self.mem.rd(base + l):
                                msg = "read of byte address 0x%x returned 0x%02x, reference memory holds %s" % (
                                    base + l, v, "/".join("0x%02x" % x for x in sorted(self.mem.rd(base + l))))
                                break
                self.cur = None
                self.wdata = None
        if self.cur is None and d["hreadyout"] and d["hsel"] and d["htrans"] == 2 and d["hsize"] <= self.lg:
            self.cur = dict(addr=d["haddr"], size=d["hsize"], write=d["hwrite"])
            self.wdata = None
            self.err_seen = False
        return msg

    def outstanding(self):
        return self.cur is not None



class AxlMemOracle:
    """Reference byte memory seen through one AXI-Lite port, with request/response matching.
    `amap(addr)` -> byte address of lane 0 in the reference memory (word aligned).
    A read may return, per byte, any value the byte held between the cycle its AR was first presented and its R
    handshake (values of writes in flight during that window included).  Returns a message on violation."""

    def __init__(self, nb, amap, mem=None, check_data=True):
        self.nb, self.amap = nb, amap
        self.mem = mem or SetMem()
        self.aw, self.w = [], []          # accepted, not yet answered
        self.wr_inflight = []             # [base, strb, data]  (AW and W both seen on the wires)
        self.rd = []                      # reads presented/accepted: dict(base, adm: [set]*nb, accepted)
        self.cur_aw = self.cur_w = self.cur_ar = None
        self.n_req = {"w": 0, "r": 0}
        self.n_rsp = {"w": 0, "r": 0}
        self.check_data = check_data
        self.events = []                  # completed transactions ("w"/"r", base, strb/None, data, resp)

    def _adm_add(self, base, strb, data):
        for r in self.rd:
            for k in range(self.nb):
                a = r["base"] + k
                if base <= a < base + self.nb and (strb >> (a - base)) & 1:
                    r["adm"][k].add((data >> (8 * (a - base))) & 0xff)

    def observe(self, d):
        """d: dict with the 17 AXI-Lite fields (no prefix)."""
        nb = self.nb
        # requests appearing on the wires
        if d["awvalid"] and self.cur_aw is None:
            self.cur_aw = d["awaddr"]
        if d["wvalid"] and self.cur_w is None:
            self.cur_w = (d["wdata"], d["wstrb"])
        # a write becomes "in flight" for read admissibility as soon as both parts are visible
        self._update_inflight()
        if d["arvalid"] and self.cur_ar is None:
            self.cur_ar = d["araddr"]
            base = self.amap(d["araddr"])
            adm = [set(self.mem.rd(base + k)) for k in range(nb)]
            r = {"base": base, "adm": adm, "accepted": False}
            self.rd.append(r)
            for (b, s, dat) in self.wr_inflight:
                self._adm_add_one(r, b, s, dat)
        msg = None
        if d["awvalid"] and d["awready"]:
            self.aw.append(d["awaddr"])
            self.cur_aw = None
        if d["wvalid"] and d["wready"]:
            self.w.append((d["wdata"], d["wstrb"]))
            self.cur_w = None
        if d["arvalid"] and d["arready"]:
            self.cur_ar = None
            for r in self.rd:
                if not r["accepted"]:
                    r["accepted"] = True
                    break
            self.n_req["r"] += 1
        if d["bvalid"] and d["bready"]:
            if not self.aw or not self.w:
                return "write response without an accepted address and data"
            a, (data, strb) = self.aw.pop(0), self.w.pop(0)
            base = self.amap(a)
            self.n_rsp["w"] += 1
            self.mem.write_word(base, nb, strb, data, ok=(d["bresp"] == 0))
            self.events.append(("w", base, strb, data, d["bresp"]))
            # no longer in flight
            for k, (b, s, dat) in enumerate(self.wr_inflight):
                if (b, s, dat) == (base, strb, data):
                    del self.wr_inflight[k]
                    break
            self._adm_add(base, strb, data)
        if d["rvalid"] and d["rready"]:
            if not self.rd or not self.rd[0]["accepted"]:
                return "read response without an accepted address"
            r = self.rd.pop(0)
            self.n_rsp["r"] += 1
            self.events.append(("r", r["base"], None, d["rdata"], d["rresp"]))
            if d["rresp"] == 0 and self.check_data:
                for k in range(nb):
                    v = (d["rdata"] >> (8 * k)) & 0xff
                    if v not in r["adm"][k]:
                        msg = "read of byte address 0x%x returned 0x%02x, reference memory holds %s" % (
                            r["base"] + k, v, "/".join("0x%02x" % x for x in sorted(r["adm"][k])))
                        break
        return msg

    def _adm_add_one(self, r, base, strb, data):
        for k in range(self.nb):
            a = r["base"] + k
            if base <= a < base + self.nb and (strb >> (a - base)) & 1:
                r["adm"][k].add((data >> (8 * (a - base))) & 0xff)

    def _update_inflight(self):
        """Writes whose address and data have both been seen (presented or accepted) but not yet answered."""
        aws = list(self.aw) + ([self.cur_aw] if self.cur_aw is not None else [])
        ws = list(self.w) + ([self.cur_w] if self.cur_w is not None else [])
        cur = []
        for a, (data, strb) in zip(aws, ws):
            cur.append((self.amap(a), strb, data))
        for x in cur:
            if x not in self.wr_inflight:
                self.wr_inflight.append(x)
                self._adm_add(*x)

    def outstanding(self):
        return bool(self.aw or self.w or self.rd or self.cur_aw is not None or self.cur_w is not None)


class WbMemOracle:
    """Reference byte memory seen through one Wishbone port (classic cycles, one at a time)."""

    def __init__(self, nb, amap=None, mem=None):
        self.nb = nb
        self.amap = amap or (lambda adr: adr * nb)
        self.mem = mem or SetMem()
        self.events = []

    def observe(self, d):
        if d["cyc"] and d["stb"] and d["ack"]:
            base = self.amap(d["adr"])
            if d["we"]:
                self.mem.write_word(base, self.nb, d["sel"], d["datw"], ok=not d["err"])
                self.events.append(("w", base, d["sel"], d["datw"], 2 if d["err"] else 0))
            else:
                self.events.append(("r", base, d["sel"], d["datr"], 2 if d["err"] else 0))
                if not d["err"]:
                    for k in range(self.nb):
                        if (d["sel"] >> k) & 1:
                            v = (d["datr"] >> (8 * k)) & 0xff
                            if v not in self.mem.rd(base + k):
                                return "read of byte address 0x%x returned 0x%02x, reference memory holds %s" % (
                                    base + k, v, "/".join("0x%02x" % x for x in sorted(self.mem.rd(base + k))))
        elif d["ack"] and not (d["cyc"] and d["stb"]):
            return "ack without cyc & stb"
        return None

    def outstanding(self):
        return False


def axi_attr_check(sig, nb, full=False, wrap_len_free=False):
    """AXI4 request attributes a bus master may drive (AMBA AXI A3.4.1), checked on the signals of one cycle of an AXI
    port whose data bus has `nb` byte lanes; independent of any model.  `full`: the master issues full-width single
    beats only (bridges from AXI-Lite / Wishbone).  `wrap_len_free`: the burst type is a constructor argument chosen
    by the user for single beats (the WRAP length rule is then the user's business).  Returns a message or None."""
    lg = nb.bit_length() - 1
    for ch in ("aw", "ar"):
        if not sig.get(ch + "valid"):
            continue
        size, ln, burst = sig.get(ch + "size"), sig.get(ch + "len"), sig.get(ch + "burst")
        if size is not None and size > lg:
            return "%s.size = %d announces %d-byte beats on a %d-byte data bus" % (ch, size, 1 << size, nb)
        if full and size is not None and (size != lg or ln not in (0, None)):
            return "%s: full-width single beat expected (size %d, len 0), got size %r len %r" % (ch, lg, size, ln)
        if burst == 3:
            return "%s.burst = 3 (reserved)" % ch
        if ln is not None and ln > 255:
            return "%s.len = %d" % (ch, ln)
        if burst == 0 and ln is not None and ln > 15:
            return "%s: FIXED burst of %d beats" % (ch, ln + 1)
        if burst == 2 and not wrap_len_free and ln not in (1, 3, 7, 15):
            return "%s: WRAP burst of %d beats" % (ch, (ln or 0) + 1)
    return None


class AxiAttrMonitor:
    """Monitor of an instance whose slave side is an AXI port the bridge masters (signals `s.*`)."""

    def __init__(self, inst, nb, full=False, wrap_len_free=False):
        self.inst, self.nb, self.full, self.wrap_len_free = inst, nb, full, wrap_len_free

    def observe(self, letter, outs):
        d = self.inst.sig_dict(letter, outs)
        s = {k[2:]: v for k, v in d.items() if k.startswith("s.")}
        msg = axi_attr_check(s, self.nb, self.full, self.wrap_len_free)
        return ("slave side: " + msg) if msg else None


class BridgeMonitor:
    """Property oracle for one open bridge instance.

    m_kind/s_kind: "axl" | "wb".  m_amap/s_amap: address maps of the two ports into the common reference memory
    (byte address of lane 0).  `errs`: check error propagation.  `hang`: cycles without any handshake while a
    master request is pending before a hang is reported (None = off)."""

    def __init__(self, inst, m_kind, s_kind, m_nb, s_nb, m_amap, s_amap, errs=True, hang=400, check_data=True,
                 b_order=False, fair=False):
        self.inst = inst
        self.m_kind, self.s_kind = m_kind, s_kind
        self.s_nb = s_nb
        mk = {"axl": lambda nb, amap: AxlMemOracle(nb, amap, check_data=check_data),
              "axi": lambda nb, amap: AxiMemOracle(nb, amap, check_data=check_data),
              "ahb": lambda nb, amap: AhbMemOracle(nb, amap),
              "wb": lambda nb, amap: WbMemOracle(nb, amap)}[m_kind]
        sk = {"axl": lambda nb, amap: AxlMemOracle(nb, amap), "axi": lambda nb, amap: AxiMemOracle(nb, amap),
              "wb": lambda nb, amap: WbMemOracle(nb, amap), None: None}[s_kind]
        self.m_or = mk(m_nb, m_amap)
        self.s_or = sk(s_nb, s_amap) if s_kind else None
        self.prev = None
        self.dead = False
        self.errs = errs
        self.err_acc = {"w": False, "r": False}
        self.err_first = {"w": 0, "r": 0}     # first non-OKAY slave-side response of the transaction under way
        self.b_order = b_order          # a write response stands for completed slave-side writes (1:1 bridges)
        self.s_wr_done = 0
        self.fair = fair                # read/write alternation (bridges that serve both directions with one engine)
        self.over = {"r-waits": 0, "w-waits": 0}
        self.hang = hang
        self.idle = {}
        self.t = 0
        self.strict = getattr(inst, "strict_env", False) and inst.env is not None

    def _disarm(self, why):
        """The environment broke its own rules: with a generated environment this is a machinery error."""
        self.dead = True
        if self.strict:
            raise RuntimeError("%s: protocol environment is not legal at cycle %d: %s" % (self.inst.name, self.t, why))
        return None

    @staticmethod
    def _side(d, side):
        p = side + "."
        return {k[2:]: v for k, v in d.items() if k.startswith(p)}

    def _stab(self, kind, prev, cur, driven_by_master):
        """Stability of the channels driven by the bus master (requests) or the bus slave (responses)."""
        if prev is None:
            return None
        if kind in ("axl", "axi"):
            chans = (AXL_REQ_CH, AXL_RSP_CH) if kind == "axl" else (AXI_REQ_CH, AXI_RSP_CH)
            for v, r, fs in chans[0 if driven_by_master else 1]:
                f = _hold(prev, cur, v, r, fs)
                if f:
                    return "%s withdrawn or %s changed before %s" % (v, f, r)
            return None
        if kind == "ahb":
            if driven_by_master and not prev["hreadyout"]:
                for f in ("haddr", "hsize", "htrans", "hwrite", "hsel", "hwdata"):
                    if prev[f] != cur[f]:
                        return "AHB %s changed while hreadyout was low" % f
            return None
        if driven_by_master:
            if prev["cyc"] and prev["stb"] and not prev["ack"]:
                for f in ("cyc", "stb", "we", "adr", "datw", "sel"):
                    if f in ("datw",) and not prev["we"]:
                        continue
                    if prev[f] != cur[f]:
                        return "Wishbone %s changed before ack" % f
        return None

    def observe(self, letter, outs):
        if self.dead:
            return None
        d = self.inst.sig_dict(letter, outs)
        m, s = self._side(d, "m"), (self._side(d, "s") if self.s_kind else None)
        pm, ps = (self.prev or (None, None))
        self.prev = (m, s)
        self.t += 1
        # ---- environment guard 1: the master keeps its requests
        g = self._stab(self.m_kind, pm, m, True)
        if g:
            return self._disarm("master: " + g)
        # ---- property: what the bridge drives is stable (judged before the partner guards: a bridge that changes
        #      a request under way must not be mistaken for a misbehaving partner)
        msg = self._stab(self.m_kind, pm, m, False)
        if msg:
            return "master side: " + msg
        if s is not None:
            msg = self._stab(self.s_kind, ps, s, True)
            if msg:
                return "slave side: " + msg
            if self.s_kind == "axi":
                msg = axi_attr_check(s, self.s_nb, full=self.m_kind in ("axl", "wb", "ahb"))
                if msg:
                    return "slave side: " + msg
            if self.s_kind == "wb" and s["cyc"] and s["stb"] and (s.get("cti", 0) or s.get("bte", 0)):
                return "slave side: Wishbone cti/bte = %d/%d on a classic cycle" % (s.get("cti", 0), s.get("bte", 0))
        # ---- environment guard 2: partner responses held and memory-behaved
        if s is not None and self.s_kind in ("axl", "axi"):
            g = self._stab(self.s_kind, ps, s, False)
            if g:
                return self._disarm("partner: " + g)
        if s is not None:
            n_before = len(self.s_or.events)
            g = self.s_or.observe(s)
            if g:
                return self._disarm("partner: " + g)
            for ev in self.s_or.events[n_before:]:
                if ev[4] != 0:
                    self.err_acc[ev[0]] = True
                    if self.err_first[ev[0]] == 0:
                        self.err_first[ev[0]] = ev[4]
                if ev[0] == "w":
                    self.s_wr_done += 1
        # ---- property: flat byte memory, one response per request
        n_before = len(self.m_or.events)
        msg = self.m_or.observe(m)
        for ev in self.m_or.events[n_before:]:
            if self.errs and s is not None:
                exp = self.err_acc[ev[0]]
                if (ev[4] != 0) != exp:
                    return "master side: %s response %d but the slave side %s an error" % (
                        "write" if ev[0] == "w" else "read", ev[4], "reported" if exp else "did not report")
                if exp and self.m_kind == "axl" and self.s_kind == "axl" and ev[4] != self.err_first[ev[0]]:
                    return "master side: %s response %d, the first error answered on the slave side was %d" % (
                        "write" if ev[0] == "w" else "read", ev[4], self.err_first[ev[0]])
            self.err_acc[ev[0]] = False
            self.err_first[ev[0]] = 0
            if ev[0] == "w" and s is not None:
                need = ev[5] if len(ev) > 5 else 1
                if self.b_order and self.s_wr_done < need:
                    return ("master side: write response given after %d of the %d slave-side write responses it "
                            "stands for" % (self.s_wr_done, need))
                self.s_wr_done = max(0, self.s_wr_done - need)
        if msg:
            return "master side: " + msg
        # ---- read/write alternation (bridges with one shared engine): while a request of one direction waits,
        #      at most two transactions of the other direction complete (one under way + one that won arbitration)
        if self.fair and self.m_kind in ("axl", "axi"):
            new_ev = self.m_or.events[n_before:]
            ar_wait = bool(m["arvalid"] and not m["arready"])
            w_there = bool(m["wvalid"]) or bool(getattr(self.m_or, "w", None)) or self.m_kind == "axi"
            aw_wait = bool(m["awvalid"] and not m["awready"] and w_there)
            nw = sum(1 for ev in new_ev if ev[0] == "w")
            nr = sum(1 for ev in new_ev if ev[0] == "r") if self.m_kind == "axl" else \
                (1 if (m["rvalid"] and m["rready"] and m["rlast"]) else 0)
            self.over["r-waits"] = self.over["r-waits"] + nw if ar_wait else 0
            self.over["w-waits"] = self.over["w-waits"] + nr if aw_wait else 0
            if self.over["r-waits"] > 2:
                return "master side: %d writes completed while a read address was waiting (starvation)" % self.over["r-waits"]
            if self.over["w-waits"] > 2:
                return "master side: %d reads completed while a write was waiting (starvation)" % self.over["w-waits"]
        # ---- progress (per direction: the read and write paths of a bridge may be independent)
        if self.hang:
            def hs(chs):
                for side in ("m.", "s."):
                    for v, r in chs:
                        if d.get(side + v) and d.get(side + r):
                            return True
                return False
            if self.m_kind in ("axl", "axi"):
                o = self.m_or
                wr_pend = bool(getattr(o, "aw", None) or getattr(o, "w", None) or getattr(o, "aws", None) or
                               getattr(o, "wbeats", None) or m["awvalid"] or m["wvalid"])
                rd_pend = bool(getattr(o, "rd", None) or getattr(o, "rds", None) or m["arvalid"])
                dirs = (("write", wr_pend, hs((("awvalid", "awready"), ("wvalid", "wready"), ("bvalid", "bready"),
                                               ("stb", "ack")))),
                        ("read", rd_pend, hs((("arvalid", "arready"), ("rvalid", "rready"), ("stb", "ack")))))
            else:
                pend = self.m_or.outstanding() if self.m_kind == "ahb" else bool(m["cyc"] and m["stb"])
                dirs = (("bus", pend, self.inst.nontrivial(letter, outs)),)
            for name, pend, busy in dirs:
                if busy or not pend:
                    self.idle[name] = 0
                else:
                    self.idle[name] = self.idle.get(name, 0) + 1
                    if self.idle[name] >= self.hang:
                        return "no handshake on any %s channel for %d cycles while a %s request is pending (hang)" % (
                            name, self.hang, name)
        return None
