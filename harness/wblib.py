"""Wishbone fabric instances, letters and protocol monitors (C06; reused read-only by C07/C11).

A *fabric* is any real-code module that sits between `n` master ports and `m` slave ports
(`InterconnectShared`, `Crossbar`, `InterconnectPointToPoint`, but also `Arbiter`/`Decoder` alone).
The harness plays all masters and all slaves: in every cycle it drives the master-to-slave signals of
every master port and the slave-to-master signals of every slave port, and observes the rest.

Letter (= per-cycle input, flat tuple, same order as `LitexModel/Wishbone/InterconnectNum.lean`):
    for each master i: cyc stb we adr dat_w sel cti bte     (M_FIELDS, 8 numbers)
    for each slave  j: ack err dat_r                        (S_FIELDS, 3 numbers)
Outputs (flat list):
    for each slave  j: cyc stb we adr dat_w sel cti bte     (what the slave sees)
    for each master i: ack err dat_r                        (what the master sees)
    error                                                   (`Timeout.error`, 0 when absent)
Comparison qualifiers: a slave's stb..bte are compared only while that slave sees cyc; a master's dat_r only
while that master sees ack.

Helpers: `m_idle/m_req/m_hold`, `s_silent/s_ack/s_err` build per-port letter parts, `product_letters` builds the
product alphabet, `Dec*` classes name address predicates once for the three users (Migen lambda for the real
code, word for the Lean driver, Python predicate = the *specification* used by the monitors).
`FabricMonitor` is the model-independent property oracle; `ProtocolEnv` is a feedback generator of
protocol-following masters and slaves with random latencies (mode B and failing-input search).
"""
import itertools
from netlist import Netlist
from litex.soc.interconnect import wishbone



def _memoize_tracer():
    """Performance only: Migen's `trace_back` asks `get_var_name(frame)` for every stack frame of every Signal that
    is created, and the py3.12 replacement installed by envshim disassembles the frame's whole code object each
    time (~1 ms; 0.1 s per wishbone.Interface).  The answer depends only on (code object, f_lasti), so it is
    memoised here.  Applied once, after envshim.install()."""
    import migen.fhdl.tracer as tracer
    f = tracer.get_var_name
    if getattr(f, "_memo", False):
        return
    cache = {}

    def get_var_name(frame):
        k = (frame.f_code, frame.f_lasti)
        try:
            return cache[k]
        except KeyError:
            v = cache[k] = f(frame)
            return v
    get_var_name._memo = True
    tracer.get_var_name = get_var_name


_memoize_tracer()

M_FIELDS = ("cyc", "stb", "we", "adr", "dat_w", "sel", "cti", "bte")
S_FIELDS = ("ack", "err", "dat_r")
NM, NS = len(M_FIELDS), len(S_FIELDS)


# ---------------------------------------------------------------------------------------------------------
# what the harness asked for (constructor arguments) — every value range is derived from this, never from the
# widths of the signals the implementation created: only the netlist may truncate.

class BusSpec:
    def __init__(self, data_width, adr_width, adr_widths=None, n=1):
        self.data_width = data_width
        self.sel_width = data_width // 8
        self.adr_widths = list(adr_widths) if adr_widths is not None else [adr_width] * n
        self.adr_width = max([adr_width] + self.adr_widths) if adr_widths is None else max(self.adr_widths)


# ---------------------------------------------------------------------------------------------------------
# address predicates

class DecAll:
    """lambda a: True"""
    def fn(self, bus):
        return lambda a: 1
    def word(self):
        return "all"
    def match(self, adr, bus=None):
        return True
    def example(self, rng, bus):
        return rng.getrandbits(bus.adr_width)


class DecHi:
    """lambda a: a[shift:] == val"""
    def __init__(self, shift, val):
        self.shift, self.val = shift, val
    def fn(self, bus):
        return lambda a: a[self.shift:] == self.val
    def word(self):
        return "hi:%d:%d" % (self.shift, self.val)
    def match(self, adr, bus=None):
        return (adr >> self.shift) == self.val
    def example(self, rng, bus):
        return ((self.val << self.shift) | rng.getrandbits(self.shift)) & ((1 << bus.adr_width) - 1)


class DecSet:
    """lambda a: (a == x0) | (a == x1) | ..."""
    def __init__(self, addrs):
        self.addrs = list(addrs)
    def fn(self, bus):
        def f(a):
            e = (a == self.addrs[0])
            for x in self.addrs[1:]:
                e = e | (a == x)
            return e
        return f
    def word(self):
        return "set:" + ",".join(map(str, self.addrs))
    def match(self, adr, bus=None):
        return adr in self.addrs
    def example(self, rng, bus):
        return rng.choice(self.addrs)


class DecRegion:
    """SoCRegion(origin, size).decoder(bus) — the real region predicate of litex/soc/integration/soc.py.
    `match` is the specification (byte address inside [origin, origin + size_pow2)), not the code's formula."""
    def __init__(self, origin, size):
        self.origin, self.size = origin, size
    def fn(self, bus):
        from litex.soc.integration.soc import SoCRegion
        return SoCRegion(origin=self.origin, size=self.size).decoder(bus)
    def word(self):
        return "region:%d:%d" % (self.origin, self.size)
    def match(self, adr, bus=None):
        size_pow2 = 1 << (self.size - 1).bit_length()
        byte = adr * (bus.data_width // 8)
        return self.origin <= byte < self.origin + size_pow2
    def example(self, rng, bus):
        """A word address inside the region (first/last words are favoured)."""
        size_pow2 = 1 << (self.size - 1).bit_length()
        w = bus.data_width // 8
        lo, hi = self.origin // w, (self.origin + size_pow2) // w - 1
        return rng.choice((lo, hi, rng.randint(lo, hi), rng.randint(lo, hi)))


# ---------------------------------------------------------------------------------------------------------
# letter parts

def m_idle(tag=0, adr=0):
    return (0, 0, 0, adr, 0, 0, 0, tag)


def m_req(adr, we=0, dat_w=0, sel=1, tag=0, cti=0, stb=1, cyc=1):
    """A classic request; `tag` travels on `bte` (pass-through field) so that monitors can tell masters apart."""
    return (cyc, stb, we, adr, dat_w, sel, cti, tag)


def s_silent(dat_r=0):
    return (0, 0, dat_r)


def s_ack(dat_r=0):
    return (1, 0, dat_r)


def s_err(dat_r=0):
    return (0, 1, dat_r)


def product_letters(master_sets, slave_sets):
    """Product alphabet: one part per master from `master_sets[i]`, one part per slave from `slave_sets[j]`."""
    out = []
    for combo in itertools.product(*(list(master_sets) + list(slave_sets))):
        out.append(tuple(itertools.chain.from_iterable(combo)))
    return out


def split_letter(letter, n, m):
    ms = [tuple(letter[NM * i:NM * (i + 1)]) for i in range(n)]
    ss = [tuple(letter[NM * n + NS * j:NM * n + NS * (j + 1)]) for j in range(m)]
    return ms, ss


def split_outs(outs, n, m):
    to_s = [tuple(outs[NM * j:NM * (j + 1)]) for j in range(m)]
    to_m = [tuple(outs[NM * m + NS * i:NM * m + NS * (i + 1)]) for i in range(n)]
    return to_s, to_m, outs[NM * m + NS * n]


# ---------------------------------------------------------------------------------------------------------
# instances

class LazyNetlist(Netlist):
    """`Netlist` whose `tick` commits the registers but leaves the combinational re-evaluation to the next
    `settle()` (every `apply`/`peek` settles before anything is read).  Same observable behaviour, about half
    the evaluator work per cycle."""
    def tick(self, cds=("sys",)):
        ev = self.ev
        for cd in cds:
            if cd in self.sync:
                ev.execute(self.sync[cd])
        ev.commit()


class WbFabric:
    """Instance protocol of explore.py for an n-master × m-slave Wishbone fabric.

    kind      : "shared" | "xbar" | "p2p"  (topology, used by the monitor: one bus owner vs one owner per slave)
    decs      : list of Dec* (one per slave)
    register  : Decoder(register=…)
    timeout   : None or cycles (shared only)
    """

    def __init__(self, name, kind, module, masters, slaves, decs, lean_open, register=False, timeout=None,
                 error_sig=None, alphabet=None, env=None, bus=None, spec=None, adr_shifts=None, exclusive=True,
                 adr_pool_extra=None, adr_maps=None, slave_shifts=None, model_shifts=True):
        self.name, self.kind, self.module = name, kind, module
        # `exclusive`: the address map is meant to be disjoint (everything SoCBusHandler accepts must be), so a
        # cycle presented to two slaves is a violation (monitor rule R10); False only for the deliberately
        # overlapping decoder sets that probe the model outside the theorems' hypothesis.
        self.exclusive = exclusive
        self.adr_pool_extra = list(adr_pool_extra or [])   # word addresses the generators must also visit
        self.masters, self.slaves, self.decs = masters, slaves, decs
        self.n, self.m = len(masters), len(slaves)
        self.register, self.timeout = register, timeout
        self.error_sig = error_sig
        self.lean_open = lean_open
        assert spec is not None, "WbFabric needs the BusSpec (constructor arguments) of the instance"
        self.spec = spec
        self.bus = spec                  # what Dec*.match / Dec*.example see: data_width, adr_width
        self.data_width = spec.data_width
        # byte-addressed master ports (SoC glue): master i drives adr << adr_shifts[i] relative to the bus word address
        self.adr_shifts = list(adr_shifts) if adr_shifts else None
        if self.adr_shifts and any(self.adr_shifts) and model_shifts:
            self.model_letter = self._word_letter        # (model_shifts=False: the Lean model converts by itself)
        # byte-addressed SLAVE ports (`add_slave` of an Interface(addressing="byte")): slave j's own adr is the byte address
        # of the bus word (word << slave_shifts[j]); the monitor sees it shifted back and checks the low bits are zero
        self.slave_shifts = list(slave_shifts) if slave_shifts and any(slave_shifts) else None
        # remapped master ports (`add_master(region=…)`): adr_maps[i] is the SPECIFICATION of the remapping (word
        # address driven -> word address the bus must see); used by the monitor only, the model remaps by itself
        self.adr_maps = list(adr_maps) if adr_maps and any(f is not None for f in adr_maps) else None
        self.netlist = LazyNetlist(module)
        self.inputs = None
        self.outputs = None
        self.alphabet = alphabet or []
        self.env_factory = env
        self._env = None
        self.last = None       # (letter, outs) of the previous cycle (feedback for generators)
        q = []
        for j in range(self.m):
            base = NM * j
            q += [None] + [base] * (NM - 1)
        for i in range(self.n):
            base = NM * self.m + NS * i
            q += [None, None, base]
        q += [None]
        self.qual = q
        self._in = [getattr(p, f) for p in masters for f in M_FIELDS] + [getattr(p, f) for p in slaves for f in S_FIELDS]
        self._out = [getattr(p, f) for p in slaves for f in M_FIELDS] + [getattr(p, f) for p in masters for f in S_FIELDS]

    def apply(self, letter):
        n = self.netlist
        for s, v in zip(self._in, letter):
            n.set(s, v)
        n.settle()
        self._letter = letter

    def sample(self):
        n = self.netlist
        outs = [n.getu(s) for s in self._out]
        outs.append(n.getu(self.error_sig) if self.error_sig is not None else 0)
        self.last = (self._letter, outs)
        return outs

    def _word_letter(self, letter):
        """The letter as the word-addressed bus sees it (byte-addressed master ports: adr >> shift)."""
        l = list(letter)
        for i, sh in enumerate(self.adr_shifts):
            l[NM * i + 3] >>= sh
        return tuple(l)

    def nontrivial(self, letter, outs):
        to_s, to_m, _ = split_outs(outs, self.n, self.m)
        return any(s[0] and s[1] for s in to_s) or any(x[0] or x[1] for x in to_m)

    def decode(self, j, adr):
        return bool(self.decs[j].match(adr, self.bus))

    def peek(self, master_parts):
        """What the slaves would see in the current state if the masters drove `master_parts` (slaves silent).
        Used by feedback generators so that simulated slaves can answer combinationally (latency 0).  Only the
        inputs are touched; the next `apply` overwrites all of them."""
        n = self.netlist
        flat = tuple(itertools.chain.from_iterable(master_parts)) + (0,) * (NS * self.m)
        for s, v in zip(self._in, flat):
            n.set(s, v)
        n.settle()
        return [tuple(n.getu(getattr(p, f)) for f in M_FIELDS) for p in self.slaves]

    def gen(self, rng, t):
        if t == 0 or self._env is None:
            self._env = (self.env_factory or ProtocolEnv)(self)
            self.last = None
        return self._env.next_letter(rng, t, self.last)

    def _mon_letter(self, letter):
        """The letter as the interconnect must see it according to the specification: byte-addressed master ports
        shifted to word addresses, remapped master ports folded into their region."""
        l = list(self._word_letter(letter)) if (self.adr_shifts and any(self.adr_shifts)) else list(letter)
        for i, f in enumerate(self.adr_maps or ()):
            if f is not None:
                l[NM * i + 3] = f(l[NM * i + 3])
        return tuple(l)

    def _mon_outs(self, outs):
        """(outs as the word-addressed bus specification sees them, violation or None): byte-addressed slave ports must
        carry word << shift (R11: the right slave-local address)."""
        if not self.slave_shifts:
            return outs, None
        o = list(outs)
        for j, sh in enumerate(self.slave_shifts):
            if sh:
                a = o[NM * j + 3]
                if o[NM * j] and (a & ((1 << sh) - 1)):
                    return o, "R11: byte-addressed slave %d sees address %#x, which is not the base of a bus word" % (j, a)
                o[NM * j + 3] = a >> sh
        return o, None

    def monitor(self):
        mon = FabricMonitor(self)
        if (self.adr_shifts and any(self.adr_shifts)) or self.adr_maps or self.slave_shifts:
            inner = mon.observe

            def observe(letter, outs):
                o, bad = self._mon_outs(outs)
                return bad or inner(self._mon_letter(letter), o)
            mon.observe = observe
        return mon


def _ifaces(k, data_width, adr_width):
    return [wishbone.Interface(data_width=data_width, adr_width=adr_width) for _ in range(k)]


def _addr_width(data_width, adr_width):
    return adr_width + (data_width // 8).bit_length() - 1


def _masters(n, data_width, adr_width, adr_widths):
    """Master ports; `adr_widths` (one per master) overrides the common `adr_width`.  Returns (masters, widest)."""
    if adr_widths is None:
        return _ifaces(n, data_width, adr_width), adr_width
    assert len(adr_widths) == n
    return [wishbone.Interface(data_width=data_width, adr_width=w) for w in adr_widths], max(adr_widths)


DEFAULT_TIMEOUT = 1000000     # documented default `timeout_cycles=1e6` of InterconnectShared (checked against the model)


def _err_sig(mod):
    """`Timeout.error` of a shared interconnect, if the implementation has one (absent -> the output reads 0 and the
    model comparison reports it; never an exception)."""
    return getattr(getattr(mod, "timeout", None), "error", None)


def make_shared(n, decs, register=False, timeout=None, data_width=8, adr_width=2, adr_widths=None, **kw):
    """`adr_widths=[w0, …]`: masters of different `adr_width` (slaves and decoders use the widest).
    `timeout="default"`: do not pass `timeout_cycles` (default-argument path, 1e6 cycles)."""
    m = len(decs)
    masters, adr_width = _masters(n, data_width, adr_width, adr_widths)
    slaves = _ifaces(m, data_width, adr_width)
    bus = wishbone.Interface(data_width=data_width, adr_width=adr_width)
    args = {} if timeout == "default" else {"timeout_cycles": timeout}
    mod = wishbone.InterconnectShared(masters, [(d.fn(bus), s) for d, s in zip(decs, slaves)], register=register, **args)
    tdesc = timeout
    if timeout == "default":
        timeout = DEFAULT_TIMEOUT
    name = "Shared %dx%d%s%s/%db" % (n, m, " reg" if register else "", " to=%s" % tdesc if tdesc is not None else "",
                                     data_width)
    lean_open = "shared %d %d %d %s %d %d %s" % (n, m, int(register), "none" if timeout is None else int(timeout),
                                                data_width, _addr_width(data_width, adr_width),
                                                " ".join(d.word() for d in decs))
    if adr_widths is not None:
        lean_open += " aws:" + ",".join(map(str, adr_widths))
    return WbFabric(kw.pop("name", name), "shared", mod, masters, slaves, decs, lean_open, register=register,
                    timeout=None if timeout is None else int(timeout), error_sig=_err_sig(mod),
                    spec=BusSpec(data_width, adr_width, adr_widths, n), **kw)


def make_xbar(n, decs, register=False, data_width=8, adr_width=2, timeout_arg=None, adr_widths=None, **kw):
    m = len(decs)
    masters, adr_width = _masters(n, data_width, adr_width, adr_widths)
    slaves = _ifaces(m, data_width, adr_width)
    bus = wishbone.Interface(data_width=data_width, adr_width=adr_width)
    args = {} if timeout_arg is None else {"timeout_cycles": timeout_arg}
    mod = wishbone.Crossbar(masters, [(d.fn(bus), s) for d, s in zip(decs, slaves)], register=register, **args)
    name = "Crossbar %dx%d%s/%db" % (n, m, " reg" if register else "", data_width)
    lean_open = "xbar %d %d %d %d %d %s" % (n, m, int(register), data_width, _addr_width(data_width, adr_width),
                                           " ".join(d.word() for d in decs))
    return WbFabric(kw.pop("name", name), "xbar", mod, masters, slaves, decs, lean_open, register=register,
                    spec=BusSpec(data_width, adr_width, adr_widths, n), **kw)


def make_arbiter(n, data_width=8, adr_width=2, controllers=False, **kw):
    """`wishbone.Arbiter(masters, target)` alone = shared model with one slave that matches every address.
    `controllers=True` uses the alternative keyword (`Arbiter(controllers=…, target=…)`)."""
    masters, slaves = _ifaces(n, data_width, adr_width), _ifaces(1, data_width, adr_width)
    mod = wishbone.Arbiter(controllers=masters, target=slaves[0]) if controllers else wishbone.Arbiter(masters, slaves[0])
    lean_open = "shared %d 1 0 none %d %d all" % (n, data_width, _addr_width(data_width, adr_width))
    return WbFabric(kw.pop("name", "Arbiter%s %dx1/%db" % ("(controllers=)" if controllers else "", n, data_width)),
                    "shared", mod, masters, slaves, [DecAll()], lean_open, spec=BusSpec(data_width, adr_width, None, n), **kw)


def make_decoder(decs, register=False, data_width=8, adr_width=2, **kw):
    """`wishbone.Decoder(master, slaves, register)` alone = shared model with one master."""
    m = len(decs)
    masters, slaves = _ifaces(1, data_width, adr_width), _ifaces(m, data_width, adr_width)
    mod = wishbone.Decoder(masters[0], [(d.fn(masters[0]), s) for d, s in zip(decs, slaves)], register=register)
    lean_open = "shared 1 %d %d none %d %d %s" % (m, int(register), data_width, _addr_width(data_width, adr_width),
                                                 " ".join(d.word() for d in decs))
    return WbFabric(kw.pop("name", "Decoder 1x%d%s/%db" % (m, " reg" if register else "", data_width)), "shared", mod,
                    masters, slaves, decs, lean_open, register=register, spec=BusSpec(data_width, adr_width, None, 1), **kw)


def expected_topology(n, regions, interconnect):
    """Specification of the fabric a SoC bus needs: point-to-point only for one master and one slave mapped at 0
    (what `do_finalize` implements since fix 13ff9a1); none without masters or slaves."""
    if n == 0 or not regions:
        return "none"
    if n == 1 and len(regions) == 1 and regions[0][0] == 0:
        return "p2p"
    return interconnect


def make_socbus(n, regions, interconnect="shared", register=True, timeout=1e6, data_width=32, address_width=32,
                extra_first=None, slaves_first=False, byte_masters=(), **kw):
    """End-to-end: a REAL `SoCBusHandler` (litex/soc/integration/soc.py) with `n` masters and one slave per
    `(origin, size)` in `regions`, finalized, so that `do_finalize` itself picks InterconnectPointToPoint /
    InterconnectShared / Crossbar and builds the decoders from the SoCRegions.
    `extra_first=(origin, size)` registers a slave-less (linker) region before the slaves (it must not influence the
    selection); `slaves_first` calls add_slave before add_master; `byte_masters` lists masters whose port is
    byte-addressed (`Interface(addressing="byte")`, converted by `add_adapter`): they drive byte addresses, the bus
    and the model see `adr >> log2(data_width/8)`.
    The Lean side (`open socbus …`) makes the selection with `busTopology`; the monitor's topology, timeout and
    address map come from the arguments (specification), not from what the implementation built."""
    from litex.soc.integration import soc as S
    bus = S.SoCBusHandler(standard="wishbone", data_width=data_width, address_width=address_width,
                          timeout=timeout, interconnect=interconnect, interconnect_register=register)
    if extra_first is not None:
        bus.add_region("extra", S.SoCRegion(origin=extra_first[0], size=extra_first[1], linker=True))
    sh = (data_width // 8).bit_length() - 1
    adr_width = address_width - sh
    masters = [wishbone.Interface(data_width=data_width, address_width=address_width, addressing="byte")
               if i in byte_masters else wishbone.Interface(data_width=data_width, adr_width=adr_width) for i in range(n)]
    slaves = _ifaces(len(regions), data_width, adr_width)

    def add_masters():
        for i, mst in enumerate(masters):
            bus.add_master("m%d" % i, mst)

    def add_slaves():
        for j, (slv, (o, sz)) in enumerate(zip(slaves, regions)):
            bus.add_slave("s%d" % j, slv, S.SoCRegion(origin=o, size=sz))
    for f in ((add_slaves, add_masters) if slaves_first else (add_masters, add_slaves)):
        f()
    bus.finalize()
    ic = bus._interconnect
    built = {"InterconnectPointToPoint": "p2p", "InterconnectShared": "shared", "Crossbar": "crossbar"}.get(
        type(ic).__name__, "none")
    topo = expected_topology(n, regions, interconnect)
    kind = {"crossbar": "xbar", "none": "shared"}.get(topo, topo)
    decs = [DecRegion(o, sz) for (o, sz) in regions]
    has_to = topo == "shared" and timeout is not None
    lean_open = "socbus %d %s %d %s %d %d %s" % (
        n, interconnect, int(register), "none" if timeout is None else int(timeout), data_width, address_width,
        " ".join("%d:%d" % r for r in regions))
    name = kw.pop("name", "SoCBusHandler %dx%d %s%s to=%s [%s]%s%s%s" % (
        n, len(regions), interconnect, " reg" if register else "", "none" if timeout is None else int(timeout),
        " ".join("%#x+%#x" % r for r in regions),
        " extra@%#x" % extra_first[0] if extra_first else "", " slaves-first" if slaves_first else "",
        " byte-masters=%s" % (list(byte_masters),) if byte_masters else ""))
    adr_widths = [address_width if i in byte_masters else adr_width for i in range(n)]
    inst = WbFabric(name, kind, bus, masters, slaves, decs, lean_open,
                    register=register and topo != "p2p", timeout=int(timeout) if has_to else None,
                    error_sig=_err_sig(ic), spec=BusSpec(data_width, adr_width, adr_widths, n),
                    adr_shifts=[sh if i in byte_masters else 0 for i in range(n)], **kw)
    inst.spec.adr_width = adr_width          # the bus / the slaves are word addressed
    inst.topology = built                    # what the implementation built, as named by the Lean model
    return inst



# ---------------------------------------------------------------------------------------------------------
# whole build scripts against a real SoCBusHandler (address-map glue: add_region / alloc_region /
# check_regions_overlap / add_slave / add_master / do_finalize)

def glue_word(op):
    """Script line -> word of the Lean driver (`open socglue` / `call socglue`)."""
    if op[0] in ("M", "MB"):
        return op[0]
    if op[0] == "MR":
        return "MR:%d:%d" % (op[1], op[2])
    if op[0] == "I":
        return "I:%d:%d" % (op[1], op[2])
    return "%s:%s:%d:%d:%d" % (op[0], "N" if op[1] is None else op[1], op[2], int(op[3]), int(op[4]))


def _pow2(size):
    return 1 << (size - 1).bit_length()


class GlueBuild:
    """A REAL `SoCBusHandler` driven by a build script.  Script lines (position k = name):
         ("M",)                                 add_master("n<k>", Interface)
         ("MR", origin, size)                   add_master("n<k>", Interface, region=SoCRegion(origin, size))  (remapper)
         ("MB",)                                add_master("n<k>", Interface(addressing="byte"))   (add_adapter converts)
         ("SB", origin|None, size, cached, linker)  add_slave of an Interface(addressing="byte")
         ("S", origin|None, size, cached, linker)   add_slave("n<k>", Interface, SoCRegion(...))
         ("R", origin|None, size, cached, linker)   add_region("n<k>", SoCRegion(...))       (no slave)
         ("I", origin, size)                    add_region("n<k>", SoCIORegion(origin, size, cached=False))
    `verdict`: "ok" | ("rej", k) (SoCError raised by call k) | "finrej" (SoCError in do_finalize)."""

    def __init__(self, script, interconnect="shared", register=True, timeout=8, data_width=32, address_width=32):
        import sys
        from litex.soc.integration import soc as S
        self.script = [tuple(op) for op in script]
        self.args = dict(interconnect=interconnect, register=register, timeout=timeout, data_width=data_width,
                         address_width=address_width)
        self.sh = (data_width // 8).bit_length() - 1
        self.adr_width = address_width - self.sh
        bus = S.SoCBusHandler(standard="wishbone", data_width=data_width, address_width=address_width,
                              timeout=timeout, interconnect=interconnect, interconnect_register=register)
        self.bus = bus
        self.masters, self.slaves, self.slave_names = [], [], []
        self.remaps = []                      # per master: (origin, size) of `add_master(region=…)` or None
        self.mbyte, self.sbyte = [], []       # per master / per slave: byte-addressed port
        self.verdict = "ok"
        stderr = sys.stderr
        try:
            for k, op in enumerate(self.script):
                name = "n%d" % k
                try:
                    if op[0] == "MB":
                        mst = wishbone.Interface(data_width=data_width, address_width=address_width, addressing="byte")
                        bus.add_master(name, mst)
                        self.masters.append(mst)
                        self.remaps.append(None)
                        self.mbyte.append(True)
                    elif op[0] in ("M", "MR"):
                        self.mbyte.append(False)
                        mst = wishbone.Interface(data_width=data_width, adr_width=self.adr_width)
                        if op[0] == "MR":
                            bus.add_master(name, mst, region=S.SoCRegion(origin=op[1], size=op[2]))
                        else:
                            bus.add_master(name, mst)
                        self.masters.append(mst)
                        self.remaps.append((op[1], op[2]) if op[0] == "MR" else None)
                    elif op[0] in ("S", "SB"):
                        self.sbyte.append(op[0] == "SB")
                        slv = (wishbone.Interface(data_width=data_width, address_width=address_width, addressing="byte")
                               if op[0] == "SB" else wishbone.Interface(data_width=data_width, adr_width=self.adr_width))
                        bus.add_slave(name, slv, S.SoCRegion(origin=op[1], size=op[2], cached=bool(op[3]), linker=bool(op[4])))
                        self.slaves.append(slv)
                        self.slave_names.append(name)
                    elif op[0] == "R":
                        bus.add_region(name, S.SoCRegion(origin=op[1], size=op[2], cached=bool(op[3]), linker=bool(op[4])))
                    elif op[0] == "I":
                        bus.add_region(name, S.SoCIORegion(origin=op[1], size=op[2], cached=False))
                    else:
                        raise ValueError(op)
                except S.SoCError:
                    self.verdict = ("rej", k)
                    break
            if self.verdict == "ok":
                try:
                    bus.finalize()
                except S.SoCError:
                    self.verdict = "finrej"
        finally:
            sys.stderr = stderr               # SoCError.__init__ sets sys.stderr = None
        self.n, self.m = len(self.masters), len(self.slaves)
        self.slave_regions = [(bus.regions[nm].origin, bus.regions[nm].size) for nm in self.slave_names
                              if nm in bus.regions]
        ic = getattr(bus, "_interconnect", None)
        self.topology = {"InterconnectPointToPoint": "p2p", "InterconnectShared": "shared", "Crossbar": "crossbar"}.get(
            type(ic).__name__, "none")

    def summary(self):
        """Canonical outcome, same shape as the Lean driver's `call socglue` answer."""
        if self.verdict == "ok":
            return ("ok %s %d %s" % (self.topology, self.n, " ".join("%d:%d" % r for r in self.slave_regions))).strip()
        if self.verdict == "finrej":
            return "finrej"
        return "rej %d" % self.verdict[1]

    def lean_args(self):
        a = self.args
        return "%s %d %s %d %d %s" % (a["interconnect"], int(a["register"]),
                                      "none" if a["timeout"] is None else int(a["timeout"]), a["data_width"],
                                      a["address_width"], " ".join(glue_word(op) for op in self.script))

    def describe(self):
        return "SoCBusHandler(%s%s to=%s) script [%s]" % (
            self.args["interconnect"], " reg" if self.args["register"] else "", self.args["timeout"],
            " ".join(glue_word(op) for op in self.script))

    def boundary_words(self):
        """Word addresses at every region boundary, in every rounding gap and outside all regions."""
        mask = (1 << self.args["address_width"]) - 1
        pts = {0, mask}
        regs = [(r.origin, r.size) for r in list(self.bus.regions.values()) + list(self.bus.io_regions.values())
                if r.origin is not None]
        for (o, sz) in regs:
            p2 = _pow2(sz)
            for b in (o - 1, o, o + sz - 1, o + sz, o + (sz + p2) // 2, o + p2 - 1, o + p2, o + 2 * p2):
                pts.add(b & mask)
        return sorted({b >> self.sh for b in pts})

    def overlap_witness(self):
        """Specification check (independent of check_regions_overlap and of the Lean model): a byte address that
        lies in the decoded (size_pow2) windows of two different slaves' non-linker regions, or None."""
        regs = []
        for j, nm in enumerate(self.slave_names):
            r = self.bus.regions.get(nm)
            if r is not None and not r.linker:
                regs.append((j, r.origin, _pow2(r.size)))
        for a in range(len(regs)):
            for b in range(a + 1, len(regs)):
                (ja, oa, pa), (jb, ob, pb) = regs[a], regs[b]
                lo, hi = max(oa, ob), min(oa + pa, ob + pb)
                if lo < hi:
                    return {"slaves": [ja, jb], "byte_address": lo,
                            "windows": ["[%#x, %#x)" % (oa, oa + pa), "[%#x, %#x)" % (ob, ob + pb)]}
        return None

    def fabric(self, **kw):
        """The finalized bus as a fabric instance (only for verdict ok with masters and slaves).  Monitor map =
        the regions registered (explicit origins from the script, allocated ones validated by overlap_witness)."""
        assert self.verdict == "ok" and self.n and self.m
        a = self.args
        topo = expected_topology(self.n, self.slave_regions, a["interconnect"])
        kind = {"crossbar": "xbar", "none": "shared"}.get(topo, topo)
        decs = [DecRegion(o, sz) for (o, sz) in self.slave_regions]
        has_to = topo == "shared" and a["timeout"] is not None
        linker_slaves = any(self.bus.regions[nm].linker for nm in self.slave_names)
        sh = self.sh
        # specification of a remapped port (power-of-two, aligned regions): region origin + offset modulo its size
        maps = [None if r is None else (lambda a, o=r[0], sz=r[1]: (o >> sh) | (a & ((sz >> sh) - 1))) for r in self.remaps]
        inst = WbFabric(kw.pop("name", self.describe()), kind, self.bus, self.masters, self.slaves, decs,
                        "socglue " + self.lean_args(), register=a["register"] and topo != "p2p",
                        timeout=int(a["timeout"]) if has_to else None,
                        error_sig=_err_sig(getattr(self.bus, "_interconnect", None)),
                        spec=BusSpec(a["data_width"], self.adr_width,
                                     [a["address_width"] if b else self.adr_width for b in self.mbyte[:self.n]], self.n),
                        exclusive=not linker_slaves, adr_pool_extra=self.boundary_words(), adr_maps=maps,
                        adr_shifts=[sh if b else 0 for b in self.mbyte[:self.n]], model_shifts=False,
                        slave_shifts=[sh if b else 0 for b in self.sbyte[:self.m]], **kw)
        inst.spec.adr_width = self.adr_width     # the bus is word addressed
        inst.topology = self.topology
        return inst


def make_socglue(script, **kw):
    """Fabric instance of a build script that the specification expects to be accepted."""
    name = kw.pop("name", None)
    gb = GlueBuild(script, **kw)
    if gb.verdict != "ok":
        raise RuntimeError("build script rejected by the real SoCBusHandler (%s): %s" % (gb.summary(), gb.describe()))
    return gb.fabric(**({"name": name} if name else {}))

def make_p2p(data_width=8, adr_width=2, **kw):
    masters, slaves = _ifaces(1, data_width, adr_width), _ifaces(1, data_width, adr_width)
    mod = wishbone.InterconnectPointToPoint(masters[0], slaves[0])
    return WbFabric(kw.pop("name", "PointToPoint/%db" % data_width), "p2p", mod, masters, slaves, [DecAll()], "p2p",
                    spec=BusSpec(data_width, adr_width, None, 1), **kw)


# ---------------------------------------------------------------------------------------------------------
# alphabets for exhaustive exploration

def small_alphabet(n, m, adrs=(0, 1, 2, 3), full=False, slave_full=False, adr_widths=None):
    """Protocol-shaped letters for n masters × m slaves on a 2-bit address / 8-bit data fabric.
    Masters: idle, request(adr, we = adr & 1) [+ with `full`: both we values, cyc without stb, stb without cyc];
    every master carries its index on `bte` and on dat_w bit i.
    Slaves: silent (garbage on dat_r), ack, err [+ with `slave_full`: ack and err together]; slave j answers
    dat_r = 1 << j, so the OR data mux is observable bit by bit.
    `adr_widths`: per-master address width (masters of different `adr_width`)."""
    msets = []
    all_adrs = adrs
    for i in range(n):
        # a master of narrower adr_width only drives the addresses it can express
        adrs = [a for a in all_adrs if adr_widths is None or a < (1 << adr_widths[i])]
        s = [m_idle(tag=i, adr=adrs[-1])]
        for a in adrs:
            wes = (0, 1) if full else (a & 1,)
            for we in wes:
                s.append(m_req(a, we=we, dat_w=1 << i, tag=i))
            if full:
                s.append(m_req(a, we=0, dat_w=1 << i, tag=i, stb=0))
        if full:
            s.append(m_req(adrs[0], we=1, dat_w=1 << i, tag=i, cyc=0))
        msets.append(s)
    ssets = []
    for j in range(m):
        s = [s_silent(1 << (j + 4)), s_ack(1 << j), s_err(1 << j)]
        if slave_full:
            s.append((1, 1, 1 << j))
        ssets.append(s)
    return product_letters(msets, ssets)


# ---------------------------------------------------------------------------------------------------------
# protocol-following environment (feedback generator)

class ProtocolEnv:
    """Masters follow the classic handshake (assert cyc/stb with stable address/data until ack or err, then
    idle, continue with cyc held, or start the next request back to back; occasionally withdraw an unanswered
    request).  Slaves see the strobe presented in the current cycle (`inst.peek`) and answer it after a random
    latency (0 = combinationally in the first cycle); with probability `misbehave_p` an unaddressed slave
    acknowledges anyway.  Regimes (request rate, latency range, error rate) change every 128 cycles so runs
    sweep idle/busy and fast/slow phases."""

    def __init__(self, inst, withdraw_p=0.03, garbage=True, misbehave_p=0.005):
        self.inst = inst
        self.misbehave_p = misbehave_p
        self.n, self.m = inst.n, inst.m
        self.req = [None] * self.n          # current request part of master i (or None)
        self.hold_cyc = [False] * self.n
        self.lat = [None] * self.m          # remaining latency of slave j for the strobe it currently sees
        self.withdraw_p = withdraw_p
        self.garbage = garbage
        self.adr_pool = None

    def _addresses(self, rng):
        """Pool of addresses: some inside every slave's region (from the decoder's own `example`), plus the
        neighbours just outside and a few unmapped ones."""
        inst = self.inst
        if self.adr_pool is None:
            mask = (1 << inst.spec.adr_width) - 1
            pool = []
            for j in range(self.m):
                ex = [inst.decs[j].example(rng, inst.bus) & mask for _ in range(8)]
                pool += ex + [(min(ex) - 1) & mask, (max(ex) + 1) & mask]
            extra = [a & mask for a in getattr(inst, "adr_pool_extra", [])]
            if extra:
                # region boundaries / rounding gaps / unmapped addresses named by the instance: half of the pool
                pool += extra * max(1, len(pool) // max(1, len(extra)))
            self.adr_pool = pool or [0]
        return self.adr_pool

    def _madr(self, i, word_adr, rng):
        """Word address -> what master i drives: limited to the adr_width it was constructed with; byte-addressed
        master ports drive the byte address (random low bits)."""
        inst = self.inst
        sh = (inst.adr_shifts or [0] * self.n)[i]
        a = (word_adr << sh) | (rng.getrandbits(sh) if sh else 0)
        return a & ((1 << inst.spec.adr_widths[i]) - 1)

    def next_letter(self, rng, t, last):
        inst = self.inst
        n, m = self.n, self.m
        regime = (t // 128) % 6
        p_start = (0.5, 0.95, 0.15, 1.0, 0.6, 0.3)[regime]
        max_lat = (2, 0, 5, 1, 3, 8)[regime]
        p_err = (0.1, 0.0, 0.2, 0.05, 0.5, 0.1)[regime]
        aw = inst.spec.adr_width
        dwm = (1 << inst.data_width) - 1
        selm = (1 << inst.spec.sel_width) - 1
        if last is not None:
            (pl, po) = last
            to_s, to_m, _ = split_outs(po, n, m)
            for i in range(n):
                if self.req[i] is not None and (to_m[i][0] or to_m[i][1]):
                    self.req[i] = None
                    self.hold_cyc[i] = rng.random() < 0.3
        parts = []
        pool = self._addresses(rng)
        for i in range(n):
            if self.req[i] is not None and rng.random() < self.withdraw_p:
                self.req[i] = None
                self.hold_cyc[i] = False
            if self.req[i] is None and rng.random() < p_start:
                adr = self._madr(i, rng.choice(pool) if rng.random() < 0.9 else rng.getrandbits(aw), rng)
                we = rng.getrandbits(1)
                dat = ((i + 1) << (inst.data_width - 4)) | rng.getrandbits(max(1, inst.data_width - 4)) if inst.data_width >= 8 else rng.getrandbits(inst.data_width)
                self.req[i] = m_req(adr, we=we, dat_w=dat & dwm, sel=rng.randint(1, selm) if selm > 1 else 1,
                                    tag=i & 3, cti=rng.choice((0, 0, 2, 7)))
            if self.req[i] is not None:
                parts.append(self.req[i])
            elif self.hold_cyc[i] and rng.random() < 0.7:
                parts.append(m_req(self._madr(i, rng.choice(pool), rng), stb=0, tag=i & 3))
            else:
                self.hold_cyc[i] = False
                g = rng.getrandbits(inst.spec.adr_widths[i]) if self.garbage else 0
                parts.append((0, rng.getrandbits(1) if self.garbage else 0, 0, g, 0, 0, 0, i & 3))
        # slaves: see the strobes of the *current* cycle (peek) and answer after a random latency (0 = same cycle)
        now_s = inst.peek(parts)
        for j in range(m):
            seen = now_s[j][0] and now_s[j][1]
            d = rng.getrandbits(inst.data_width)
            if not seen:
                self.lat[j] = None
                if rng.random() < self.misbehave_p:
                    parts.append(s_ack(d))          # a slave answering although it is not addressed
                else:
                    parts.append(s_silent(d if self.garbage else 0))
                continue
            if self.lat[j] is None:
                self.lat[j] = rng.randint(0, max_lat)
            if self.lat[j] == 0:
                self.lat[j] = None
                parts.append(s_err(d) if rng.random() < p_err else s_ack(d))
            else:
                self.lat[j] -= 1
                parts.append(s_silent(d if self.garbage else 0))
        return tuple(itertools.chain.from_iterable(parts))


# ---------------------------------------------------------------------------------------------------------
# property oracle (independent of the Lean model)

class FabricMonitor:
    """Checks C06 on a trace of (letter, outs) of the real code.  It knows only the topology (`kind`), the address
    map as a Python predicate (`inst.decode`), `register`, `timeout` and the number of ports.

    Per cycle:
      R1 (route)     a slave that sees cyc is driven by some master that drives cyc with exactly these signals and
                     whose address its decoder matches;  (shared) all slaves seeing cyc have a common such master.
      R2 (no cycle)  a master's cycle whose address matches no decoder is presented to no slave; a slave whose
                     decoder does not match the owner's address sees no cyc.
      R3 (answer)    a master sees ack/err only if it is a possible owner of a slave that answers in this cycle
                     (or the timeout fired: `error` = 1, then dat_r must be all ones);
                     an answering slave that is presented a strobe is seen by at least one of its possible owners.
      R4 (data)      a master that sees ack from slave j (and no timeout) sees dat_r = slave j's dat_r — for
                     register=True only if the previous cycle already selected j for this master (documented
                     limitation of the registered decoder).
      R5 (ownership) the owner of a slave/bus changes only when the previous owner does not request it any more.
      R6 (wait)      while a master keeps requesting a slave/bus, ownership changes at most n-1 times before it
                     becomes the owner.
      R9 (progress)  when the owner has released a slave/bus (does not request it) and another master requests it, the
                     ownership moves at the next clock edge, and to a requesting master (no starvation by a stuck grant).
      R8 (timeout)   the timeout fires (`error`) only after `timeout` consecutive cycles in which the bus owner
                     drove cyc & stb and saw no ack (never early; the timing itself is C11's property).
      R10 (one slave) (address maps that are meant to be disjoint, `inst.exclusive`) one master's cycle is presented
                     (cyc & stb) to at most one slave: on a shared/point-to-point bus at most one slave sees
                     cyc & stb per cycle, on a crossbar no master is the only possible owner of two such slaves.
      R7 (one term.) in a cycle in which every slave answers only a presented strobe: the number of masters that see
                     a termination equals the number of slaves answering (plus one if the timeout fired), and no
                     master sees a termination without driving cyc & stb.
    Owners are identified by comparing the signals a slave sees with what the masters drive; cycles in which two
    requesting masters drive identical signals are ambiguous and only the set-based checks apply."""

    def __init__(self, inst):
        self.inst = inst
        self.n, self.m = inst.n, inst.m
        self.kind = inst.kind
        nres = 1 if self.kind in ("shared", "p2p") else self.m
        self.prev_owner = [None] * nres        # unique owner in the previous cycle (or None)
        self.prev_req = [[False] * self.n for _ in range(nres)]
        self.waitchg = [[0] * self.n for _ in range(nres)]   # ownership changes seen while master i kept requesting
        self.prev_sel = [None] * self.n        # (xbar: per master / shared: index 0) slave selected in the previous cycle
        self.waitrun = 0                       # consecutive preceding cycles the bus owner waited (None = unknown)
        self.t = 0

    def _requests(self, ms, res):
        """Does master i request resource `res` (shared: the bus; xbar: slave `res`)?"""
        if self.kind in ("shared", "p2p"):
            return [bool(x[0]) for x in ms]
        return [bool(x[0]) and self.inst.decode(res, x[3]) for x in ms]

    def observe(self, letter, outs):
        inst, n, m = self.inst, self.n, self.m
        ms, ss = split_letter(letter, n, m)
        to_s, to_m, error = split_outs(outs, n, m)
        self.t += 1
        allones = (1 << inst.data_width) - 1
        # ---- possible owners per slave ---------------------------------------------------------------------
        owners = []
        for j in range(m):
            if to_s[j][0]:
                cand = [i for i in range(n) if ms[i][0] and ms[i][1:] == to_s[j][1:] and inst.decode(j, ms[i][3])]
                if not cand:
                    return "R1: slave %d sees a cycle %r that no requesting master with a matching address drives" % (j, to_s[j])
                owners.append(cand)
            else:
                owners.append(None)
        if self.kind in ("shared", "p2p"):
            # one bus: every slave sees the owner's non-cyc signals; identify the owner from them
            bus_cand = [i for i in range(n) if all(ms[i][1:] == to_s[j][1:] for j in range(m))]
            if not bus_cand:
                return "R1: the slaves see signals %r that no single master drives" % (to_s,)
            for j in range(m):
                if owners[j] is not None and not set(owners[j]) & set(bus_cand):
                    return "R1: slave %d is driven by a master that does not own the shared bus" % j
            # R2: with the owner known, cyc at slave j must equal owner.cyc & dec_j(owner.adr)
            if len(bus_cand) == 1 or all(ms[i] == ms[bus_cand[0]] for i in bus_cand):
                o = bus_cand[0]
                for j in range(m):
                    exp = bool(ms[o][0]) and inst.decode(j, ms[o][3])
                    if bool(to_s[j][0]) != exp:
                        return "R2: owner %d drives cyc=%d adr=%d but slave %d sees cyc=%d" % (o, ms[o][0], ms[o][3], j, to_s[j][0])
        else:
            # R2 for the crossbar: the master an arbiter points at is recognisable by its non-cyc signals (forwarded
            # even while idle); the slave must see cyc exactly when that master drives cyc with a matching address.
            # (A cycle matching no decoder appears nowhere: R1 demands a matching address for every cyc seen.)
            bus_cand = None
            for j in range(m):
                cand = [i for i in range(n) if ms[i][1:] == to_s[j][1:]]
                if cand:
                    exps = {bool(ms[i][0]) and inst.decode(j, ms[i][3]) for i in cand}
                    if len(exps) == 1 and bool(to_s[j][0]) != exps.pop():
                        return "R2: slave %d is pointed at master %r (cyc=%d adr=%d) but sees cyc=%d" % (
                            j, cand, ms[cand[0]][0], ms[cand[0]][3], to_s[j][0])
        # ---- R10: one master's cycle reaches at most one slave ------------------------------------------------
        if getattr(inst, "exclusive", True):
            seeing = [j for j in range(m) if to_s[j][0] and to_s[j][1]]
            if len(seeing) > 1:
                if self.kind in ("shared", "p2p"):
                    return "R10: the cycle at word address %#x is presented to %d slaves %r at once" % (
                        to_s[seeing[0]][3], len(seeing), seeing)
                for a in range(len(seeing)):
                    for b in range(a + 1, len(seeing)):
                        ja, jb = seeing[a], seeing[b]
                        if len(owners[ja]) == 1 and owners[ja] == owners[jb]:
                            return "R10: master %d's cycle at word address %#x is presented to slaves %d and %d at once" % (
                                owners[ja][0], to_s[ja][3], ja, jb)
        # ---- R3/R4: answers ---------------------------------------------------------------------------------
        timeout_fired = bool(error)
        if timeout_fired and inst.timeout is None:
            return "R3: error flag without a timeout module"
        # ---- R8: the timeout never fires early ---------------------------------------------------------------
        if inst.timeout is not None and bus_cand is not None:
            if timeout_fired and self.waitrun is not None and self.waitrun < inst.timeout:
                return "R8: timeout fired after only %d consecutive waiting cycle(s) (configured %d)" % (
                    self.waitrun, inst.timeout)
            if len(bus_cand) == 1:
                o = bus_cand[0]
                waiting = ms[o][0] and ms[o][1] and not to_m[o][0]
                self.waitrun = (self.waitrun + 1 if self.waitrun is not None else None) if waiting else 0
            else:
                self.waitrun = None
        for i in range(n):
            ack, err, dat = to_m[i]
            if not (ack or err):
                continue
            if self.kind in ("shared", "p2p"):
                if i not in bus_cand:
                    return "R3: master %d sees ack=%d err=%d but the bus is owned by %r" % (i, ack, err, bus_cand)
                src_ack = [j for j in range(m) if ss[j][0]]
                src_err = [j for j in range(m) if ss[j][1]]
                if ack and not src_ack and not timeout_fired:
                    return "R3: master %d sees ack but no slave acknowledges and no timeout fired" % i
                if err and not src_err:
                    return "R3: master %d sees err but no slave signals an error" % i
                if ack and timeout_fired and dat != allones:
                    return "R4: timeout answer with dat_r=%#x" % dat
                if ack and not timeout_fired:
                    sel = [j for j in range(m) if inst.decode(j, ms[i][3])]
                    if len(bus_cand) == 1 and len(sel) == 1 and sel[0] in src_ack and to_s[sel[0]][0]:
                        if (not inst.register) or self.prev_sel[0] == sel:
                            if dat != ss[sel[0]][2]:
                                return "R4: master %d reads %#x, selected slave %d returns %#x" % (i, dat, sel[0], ss[sel[0]][2])
            else:
                src_ack = [j for j in range(m) if ss[j][0] and self._xb_possible_owner(i, j, ms, to_s)]
                src_err = [j for j in range(m) if ss[j][1] and self._xb_possible_owner(i, j, ms, to_s)]
                if ack and not src_ack:
                    return "R3: master %d sees ack but owns no acknowledging slave" % i
                if err and not src_err:
                    return "R3: master %d sees err but owns no erroring slave" % i
                if ack:
                    sel = [j for j in range(m) if inst.decode(j, ms[i][3])]
                    if len(sel) == 1 and src_ack == sel and to_s[sel[0]][0] and owners[sel[0]] == [i]:
                        if (not inst.register) or self.prev_sel[i] == sel:
                            if dat != ss[sel[0]][2]:
                                return "R4: master %d reads %#x, selected slave %d returns %#x" % (i, dat, sel[0], ss[sel[0]][2])
        # an answering slave that is presented a strobe reaches one of its possible owners
        for j in range(m):
            if to_s[j][0] and to_s[j][1] and (ss[j][0] or ss[j][1]):
                got = [i for i in owners[j] if (ss[j][0] and to_m[i][0]) or (ss[j][1] and to_m[i][1])]
                if not got:
                    return "R3: slave %d answers its presented strobe but none of its possible owners %r sees it" % (j, owners[j])
        # ---- R7: exactly one termination ---------------------------------------------------------------------
        behaved = all((not (ss[j][0] or ss[j][1])) or (to_s[j][0] and to_s[j][1]) for j in range(m))
        if behaved:
            nterm_m = sum(1 for i in range(n) if to_m[i][0] or to_m[i][1])
            nterm_s = sum(1 for j in range(m) if ss[j][0] or ss[j][1])
            exp = nterm_s + (1 if timeout_fired and not any(ss[j][0] or ss[j][1] for j in range(m)) else 0)
            sel_sets = [[j for j in range(m) if inst.decode(j, ms[i][3])] for i in range(n)]
            disjoint = all(len(s) <= 1 for s in sel_sets)
            if disjoint and nterm_m != exp:
                return "R7: %d slave termination(s)%s but %d master(s) see a termination" % (
                    nterm_s, " + timeout" if timeout_fired else "", nterm_m)
            for i in range(n):
                if (to_m[i][0] or to_m[i][1]) and not (ms[i][0] and ms[i][1]) and not timeout_fired:
                    return "R7: master %d sees a termination without an outstanding strobe" % i
        # ---- R5/R6: ownership -------------------------------------------------------------------------------
        nres = len(self.prev_owner)
        for r in range(nres):
            req = self._requests(ms, r)
            if self.kind in ("shared", "p2p"):
                cand = bus_cand
            else:
                # the arbiter in front of slave r forwards the granted master's non-cyc signals even while idle
                cand = [i for i in range(n) if ms[i][1:] == to_s[r][1:]]
                if owners[r] is not None:
                    cand = [i for i in cand if i in owners[r]]
            # the owner is identifiable only when exactly one master drives these signals
            cur = cand[0] if len(cand) == 1 else None
            po = self.prev_owner[r]
            if po is not None and cur is not None and not self.prev_req[r][po] and any(
                    self.prev_req[r][i] for i in range(n) if i != po):
                # R9: the owner had released the resource while somebody else requested it
                if cur == po:
                    return "R9: resource %d stays with master %d, which had released it, although %r requested it (starvation)" % (
                        r, po, [i for i in range(n) if self.prev_req[r][i]])
                if not self.prev_req[r][cur]:
                    return "R9: resource %d handed to master %d, which did not request it" % (r, cur)
            if po is not None and cur is not None and cur != po:
                if self.prev_req[r][po]:
                    return "R5: resource %d moved from master %d to master %d although %d still requested it" % (r, po, cur, po)
                for i in range(n):
                    if self.prev_req[r][i]:
                        self.waitchg[r][i] += 1
                        if self.waitchg[r][i] > max(n - 1, 0):
                            return "R6: master %d kept requesting resource %d through %d ownership changes (bound %d)" % (
                                i, r, self.waitchg[r][i], n - 1)
            for i in range(n):
                if not req[i] or cur == i:
                    self.waitchg[r][i] = 0
            self.prev_owner[r] = cur
            self.prev_req[r] = req
        # ---- previous-cycle select (registered decoder limitation) -------------------------------------------
        if self.kind in ("shared", "p2p"):
            o = bus_cand[0]
            same = all(ms[i][3] == ms[o][3] for i in bus_cand)
            self.prev_sel[0] = [j for j in range(m) if inst.decode(j, ms[o][3])] if same else None
        else:
            for i in range(n):
                self.prev_sel[i] = [j for j in range(m) if inst.decode(j, ms[i][3])]
        return None

    def _xb_possible_owner(self, i, j, ms, to_s):
        """Crossbar: could master i be the master arbiter j currently points at?  The arbiter forwards the granted
        master's non-cyc signals even when that master does not request the slave."""
        return ms[i][1:] == to_s[j][1:]
