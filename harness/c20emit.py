"""C20 - emitted primitive read-back.

After do_finalize every item of the emitted primitive Instance (parameters, input/output port connections, synthesis
attributes) is read back and canonicalised into a flat {key: value} dict:

    p_NAME -> int | float | str                (Instance.Parameter; Constant -> its value)
    i_NAME / o_NAME / io_NAME -> token          (what the port is connected to, by object identity)
    a_NAME -> str                               (attr tuples)

Tokens: a symbolic name for every signal the helper owns ("clkin", "reset", "locked", "clkout<n>", ...), "open" for
Open(), "c<v>w<n>" for a constant, "~<tok>" / "<tok>[i]" for the two operators the helpers use, "loop:<PORT>" for a
private signal that only connects two ports of the same instance (feedback), "clk:<cd>" for ClockSignal, "sig?w<n>" for
anything else.  Nothing is derived from signal NAMES (the py3.12 tracer shim degrades them).

`expected_*` build the dict the emitted instance must equal from the captured compute_config() result and the request
only (they do not look at the instance and do not use the Lean model): the placed-parameters half of the C20 oracle.
`clock_wiring` checks which ClockDomain is driven from which clkout signal (directly or through the requested
buffer) and the reset synchroniser of every domain."""
import math
from fractions import Fraction as F


# ------------------------------------------------------------------------------------------------------------------
# read-back
# ------------------------------------------------------------------------------------------------------------------

def _specials(module):
    import c20lib as L
    return list(L.frag_of(module).specials)


def _comb(module):
    import c20lib as L
    fr = L.frag_of(module)
    out = []

    def walk(sts):
        for s in sts:
            if isinstance(s, (list, tuple)):
                walk(s)
            else:
                out.append(s)
    walk(fr.comb)
    return out


class Sym:
    """identity -> symbolic name table."""

    def __init__(self):
        self.t = {}

    def add(self, sig, name):
        if sig is not None:
            self.t.setdefault(id(sig), name)
            self.keep = getattr(self, "keep", [])
            self.keep.append(sig)
        return self

    def tok(self, e, loops=None):
        from migen.fhdl.structure import Constant, Signal, ClockSignal, ResetSignal, _Operator, _Slice, Cat
        from litex.gen.signal import Open
        if id(e) in self.t:
            return self.t[id(e)]
        if isinstance(e, Open):
            return "open"
        if isinstance(e, Constant):
            return "c%dw%d" % (e.value, e.nbits)
        if isinstance(e, bool):
            return "c%dw1" % int(e)
        if isinstance(e, int):
            return "c%dw%d" % (e, max(1, e.bit_length()))
        if isinstance(e, ClockSignal):
            return "clk:" + str(e.cd)
        if isinstance(e, ResetSignal):
            return "rst:" + str(e.cd)
        if isinstance(e, _Operator):
            if e.op == "~" and len(e.operands) == 1:
                return "~" + self.tok(e.operands[0], loops)
            return "(" + e.op.join(self.tok(x, loops) for x in e.operands) + ")"
        if isinstance(e, _Slice):
            return "%s[%d:%d]" % (self.tok(e.value, loops), e.start, e.stop)
        if isinstance(e, Cat):
            return "cat(" + ",".join(self.tok(x, loops) for x in e.l) + ")"
        if isinstance(e, Signal):
            if loops is not None and id(e) in loops:
                return "loop:" + loops[id(e)]
            return "sig?w%d" % len(e)
        return "?" + type(e).__name__


def find_instances(module, of_names):
    from migen.fhdl.specials import Instance
    return [s for s in _specials(module) if isinstance(s, Instance) and s.of in of_names]


def read_instance(inst, sym):
    """flat canonical dict of one Instance."""
    from migen.fhdl.specials import Instance
    from migen.fhdl.structure import Constant, Signal
    # private signals connecting an output port to an input port of the same instance
    outs, ins = {}, {}
    for it in inst.items:
        if isinstance(it, Instance.Output) and isinstance(it.expr, Signal):
            outs.setdefault(id(it.expr), it.name)
        if isinstance(it, Instance.Input) and isinstance(it.expr, Signal):
            ins.setdefault(id(it.expr), it.name)
    loops = {k: v for k, v in outs.items() if k in ins and k not in sym.t}
    d = {"of": inst.of}
    dup = []
    for it in inst.items:
        if isinstance(it, Instance.Parameter):
            v = it.value
            key, val = "p_" + it.name, (v.value if isinstance(v, Constant) else v)
        elif isinstance(it, Instance.Input):
            key, val = "i_" + it.name, sym.tok(it.expr, loops)
        elif isinstance(it, Instance.Output):
            key, val = "o_" + it.name, sym.tok(it.expr, loops)
        elif isinstance(it, Instance.InOut):
            key, val = "io_" + it.name, sym.tok(it.expr, loops)
        else:
            key, val = "?_" + getattr(it, "name", "?"), "?"
        if key in d:
            dup.append(key)
        d[key] = val
    for a in (inst.attr or []):
        if isinstance(a, tuple) and len(a) == 2:
            if "a_" + a[0] in d:
                dup.append("a_" + a[0])
            d["a_" + a[0]] = a[1]
        else:
            d["a_" + str(a)] = True
    if dup:
        d["!duplicate"] = sorted(dup)
    return d


def reset_chain(module, rst_expr, reset0, ff, clk_port, d_port, q_port, consts, clkin, sym, maxlen=64):
    """Length of the FF chain (`ff` instances, each clocked from clkin with the given constant pins) that leads from the
    helper's original reset signal to `rst_expr`; -1 if the chain is broken."""
    from migen.fhdl.specials import Instance
    by_q = {}
    for s in find_instances(module, (ff,)):
        it = {("i_" if isinstance(x, Instance.Input) else "o_") + x.name: x.expr for x in s.items
              if isinstance(x, (Instance.Input, Instance.Output))}
        by_q[id(it.get("o_" + q_port))] = it
    cur, n = rst_expr, 0
    while cur is not reset0:
        it = by_q.get(id(cur))
        if it is None or n > maxlen:
            return -1
        if it.get("i_" + clk_port) is not clkin:
            return -1
        for k, v in consts.items():
            if sym.tok(it.get("i_" + k)) != v:
                return -1
        cur = it.get("i_" + d_port)
        n += 1
    return n


def clock_wiring(module, cds, clkouts, sym, bufs=None, with_reset=None, rst_tok="~locked"):
    """-> list of violations.  cds[n].clk must be driven (one comb assignment) from clkouts[n], directly or through
    exactly the requested buffer primitive; an AsyncResetSynchronizer(cd, <rst_tok>) exists iff with_reset."""
    from migen.fhdl.structure import _Assign
    from migen.fhdl.specials import Instance
    from migen.genlib.resetsync import AsyncResetSynchronizer
    viol = []
    drivers = {}
    for st in _comb(module):
        if isinstance(st, _Assign):
            drivers.setdefault(id(st.l), []).append(st.r)
    bufinst = {}
    for s in _specials(module):
        if isinstance(s, Instance) and s.of in ("BUFG", "BUFR", "BUFH", "BUFIO", "BUFGCE"):
            it = {("i_" if isinstance(x, Instance.Input) else "o_") + x.name: x.expr for x in s.items
                  if isinstance(x, (Instance.Input, Instance.Output))}
            bufinst[id(it.get("o_O"))] = (s.of, it)
    syncs = {}
    for s in _specials(module):
        if isinstance(s, AsyncResetSynchronizer):
            syncs.setdefault(id(s.cd), []).append(sym.tok(s.async_reset))
    for n, cd in enumerate(cds):
        if cd is None:
            continue
        drv = drivers.get(id(cd.clk), [])
        want_buf = (bufs[n] if bufs else None)
        want_buf = want_buf.upper() if isinstance(want_buf, str) else None
        if len(drv) != 1:
            viol.append("clock domain %d: clk has %d drivers" % (n, len(drv)))
        else:
            src = drv[0]
            if want_buf is None:
                if src is not clkouts[n]:
                    viol.append("clock domain %d is not driven from clkout%d (driven from %s)" % (n, n, sym.tok(src)))
            else:
                b = bufinst.get(id(src))
                if b is None or b[0] != want_buf or b[1].get("i_I") is not clkouts[n]:
                    viol.append("clock domain %d: expected %s(clkout%d), found %s(%s)" % (
                        n, want_buf, n, b[0] if b else "no buffer", sym.tok(b[1].get("i_I")) if b else sym.tok(src)))
        if with_reset is not None:
            got = syncs.get(id(cd), [])
            want = [rst_tok] if with_reset[n] else []
            if got != want:
                viol.append("clock domain %d: reset synchronisers %s, expected %s" % (n, got, want))
    return viol


# ------------------------------------------------------------------------------------------------------------------
# comparison
# ------------------------------------------------------------------------------------------------------------------

class Approx:
    """expected float value (compared with a relative tolerance; the emitted value must be a float)."""

    def __init__(self, v, as_str=False, rel=F(1, 10 ** 12)):
        self.v, self.as_str, self.rel = F(v), as_str, rel

    def matches(self, x):
        if self.as_str:
            if not isinstance(x, str):
                return False
            try:
                x = float(x)
            except ValueError:
                return False
        elif not isinstance(x, float):
            return False
        x = F(x)
        return x == self.v or abs(x - self.v) <= self.rel * max(abs(x), abs(self.v))

    def __repr__(self):
        return ("str~" if self.as_str else "~") + repr(float(self.v))


def same_value(want, got):
    if isinstance(want, Approx):
        return want.matches(got)
    if isinstance(want, bool) or isinstance(got, bool):
        return want is got
    if isinstance(want, float) or isinstance(got, float):
        return type(want) is type(got) and want == got
    return type(want) is type(got) and want == got


def diff_dicts(want, got, label="instance"):
    """every key missing, extra or different -> one violation string each (max 6)."""
    out = []
    for k in sorted(set(want) | set(got)):
        if k not in got:
            out.append("%s: %s is not placed (expected %r)" % (label, k, want[k]))
        elif k not in want:
            out.append("%s: unexpected %s=%r" % (label, k, got[k]))
        elif not same_value(want[k], got[k]):
            out.append("%s: %s=%r, the configuration/request says %r" % (label, k, got[k], want[k]))
    return out[:6]


def jsonable_emit(d):
    return {k: (v if isinstance(v, (int, float, str, bool, list)) else repr(v)) for k, v in d.items()}


class AnyStr:
    """a string parameter whose value is not a function of the clock configuration (analog loop-filter settings)."""

    def matches(self, x):
        return isinstance(x, str) and len(x) > 0

    def __repr__(self):
        return "<str>"


class NearInt:
    """int(float expression): the exact value truncated toward zero; one off is accepted only when the exact value is
    within 1e-6 of an integer (float rounding of the real code)."""

    def __init__(self, exact):
        self.exact = F(exact)

    def matches(self, x):
        if isinstance(x, bool) or not isinstance(x, int):
            return False
        t = math.floor(self.exact) if self.exact >= 0 else -math.floor(-self.exact)
        if x == t:
            return True
        return abs(self.exact - round(self.exact)) < F(1, 10 ** 6) and abs(x - t) <= 1

    def __repr__(self):
        return "int(%s)" % float(self.exact)


_same_value_plain = same_value


class Number:
    """a number handed through from the request (int or float): compared by value."""

    def __init__(self, v):
        self.v = F(v)

    def matches(self, x):
        return isinstance(x, (int, float)) and not isinstance(x, bool) and F(x) == self.v

    def __repr__(self):
        return "num(%s)" % float(self.v)


def same_value(want, got):           # noqa: F811  (extends the plain comparison with the matcher classes)
    if isinstance(want, (AnyStr, NearInt, Number)):
        return want.matches(got)
    return _same_value_plain(want, got)


def py_round(x):
    x = F(x)
    fl = math.floor(x)
    r = x - fl
    if r < F(1, 2):
        return fl
    if r > F(1, 2):
        return fl + 1
    return fl if fl % 2 == 0 else fl + 1


def fstr(x):
    """expected `str(float)` parameter."""
    return Approx(x, as_str=True)


# ------------------------------------------------------------------------------------------------------------------
# expected instances (from the captured configuration + the request only)
# ------------------------------------------------------------------------------------------------------------------

def expect_xilinx(cls, of, clkin, cfg, outs, rst_stages=8):
    """cfg = dict returned by compute_config (numbers only); outs = [(f, p, m)] as requested."""
    k = len(outs)
    per = Approx(F(10 ** 9) / F(clkin))
    if cls == "S6DCM":
        return {"of": of, "p_CLKFX_MULTIPLY": cfg["clkfbout_mult"],
                "p_CLKFX_DIVIDE": cfg["clkout0_divide"] * cfg["divclk_divide"], "p_SPREAD_SPECTRUM": "NONE",
                "p_CLKIN_PERIOD": per, "i_CLKIN": "clkin", "i_RST": "reset0>>FDCE*%d" % rst_stages, "i_FREEZEDCM": "c0w1",
                "o_CLKFX": "clkout0", "o_LOCKED": "locked"}
    d = {"of": of, "i_RST": "reset0>>FDCE*%d" % rst_stages, "o_LOCKED": "locked", "p_CLKIN1_PERIOD": per,
         "p_DIVCLK_DIVIDE": cfg["divclk_divide"], "i_CLKIN1": "clkin", "i_CLKFBIN": "loop:CLKFBOUT",
         "o_CLKFBOUT": "loop:CLKFBOUT"}
    mmcm = "MMCM" in cls
    if cls == "S6PLL":
        d.update({"p_SIM_DEVICE": "SPARTAN6", "p_BANDWIDTH": "OPTIMIZED", "p_COMPENSATION": "INTERNAL", "p_REF_JITTER": .01,
                  "p_CLK_FEEDBACK": "CLKFBOUT", "p_CLKIN2_PERIOD": 0., "p_CLKFBOUT_MULT": cfg["clkfbout_mult"],
                  "p_CLKFBOUT_PHASE": 0., "i_CLKINSEL": "c1w1"})
    elif mmcm:
        d.update({"p_BANDWIDTH": "OPTIMIZED", "i_PWRDWN": "power_down", "p_REF_JITTER1": 0.01,
                  "p_CLKFBOUT_MULT_F": cfg["clkfbout_mult"]})
    else:
        d.update({"p_STARTUP_WAIT": "FALSE", "i_PWRDWN": "power_down", "p_REF_JITTER1": 0.01,
                  "p_CLKFBOUT_MULT": cfg["clkfbout_mult"]})
    for n in range(k):
        dv = cfg["clkout%d_divide" % n]
        p = outs[n][1]
        d["p_CLKOUT%d_DIVIDE%s" % (n, "_F" if mmcm and n == 0 else "")] = dv
        d["p_CLKOUT%d_PHASE" % n] = float(p) if cls == "S6PLL" else p
        if cls == "S6PLL":
            d["p_CLKOUT%d_DUTY_CYCLE" % n] = 0.5
        d["o_CLKOUT%d" % n] = "clkout%d" % n
    return d


N2L = {0: "P", 1: "S", 2: "S2", 3: "S3", 4: "S4"}


def expect_ecp5(clkin, cfg, outs, ndivs, dpa_en, bel=None):
    """outs = [(f, p, m, dpa)] requested; ndivs = number of enabled outputs (requests + spare feedback output)."""
    d = {"of": "EHXPLLL", "a_FREQUENCY_PIN_CLKI": fstr(F(clkin) / 10 ** 6), "a_ICP_CURRENT": "6", "a_LPF_RESISTOR": "16",
         "a_MFG_ENABLE_FILTEROPAMP": "1", "a_MFG_GMCREF_SEL": "2", "i_RST": "reset", "i_CLKI": "clkin", "i_STDBY": "stdby",
         "o_LOCK": "lock_raw", "p_FEEDBK_PATH": "INT_O" + N2L.get(cfg["clkfb"], "?"), "p_CLKFB_DIV": cfg["clkfb_div"],
         "p_CLKI_DIV": cfg["clki_div"]}
    if dpa_en:
        d.update({"p_DPHASE_SOURCE": "ENABLED", "i_PHASESEL0": "phase_sel[0:1]", "i_PHASESEL1": "phase_sel[1:2]",
                  "i_PHASEDIR": "phase_dir", "i_PHASESTEP": "phase_step", "i_PHASELOADREG": "phase_load"})
    for n in range(ndivs):
        l = N2L[n]
        div = cfg["clko%d_div" % n]
        p = F(outs[n][1]) if n < len(outs) else F(0)
        ph = py_round(p * div / 45)
        d["p_CLKO%s_ENABLE" % l] = "ENABLED"
        d["p_CLKO%s_DIV" % l] = div
        d["p_CLKO%s_FPHASE" % l] = ph & 7
        d["p_CLKO%s_CPHASE" % l] = (ph >> 3) + (div - 1)
        d["o_CLKO%s" % l] = "clkout%d" % n
        if n < len(outs):
            d["a_FREQUENCY_PIN_CLKO%s" % l] = fstr(F(outs[n][0]) / 10 ** 6)
    if bel:
        d["a_BEL"] = bel
    return d


ICE40_FILTER = [(17e6, 1), (26e6, 2), (44e6, 3), (66e6, 4), (101e6, 5), (133e6, 6)]


def expect_ice40(prim, clkin, cfg):
    pfd = F(clkin) / (cfg["divr"] + 1)
    d = {"of": prim, "p_FEEDBACK_PATH": "SIMPLE", "p_FILTER_RANGE": next((v for t, v in ICE40_FILTER if pfd < F(t)), None),
         "i_RESETB": "~reset", "o_LOCK": "locked", "p_DIVR": cfg["divr"], "p_DIVF": cfg["divf"], "p_DIVQ": cfg["divq"],
         "o_PLLOUTGLOBAL": "clkout0"}
    d["i_REFERENCECLK" if prim == "SB_PLL40_CORE" else "i_PACKAGEPIN"] = "clkin"
    return d


NX_ANALOG = ("p_CSET", "p_CRIPPLE", "p_V2I_PP_RES", "p_IPP_SEL", "p_IPP_CTRL", "p_BW_CTL_BIAS", "p_IPI_CMP")


def expect_nx(cfg, outs):
    """REF_MMD_DIG (the input divider) is handled by the caller: open finding C20-nx-clki-div-not-placed."""
    fb = cfg["clkfb_div"]
    d = {"of": "PLL", "p_V2I_PP_ICTRL": "0b11111", "p_IPI_CMPN": "0b0011", "p_V2I_1V_EN": "ENABLED", "p_V2I_KVCO_SEL": "60",
         "p_KP_VCO": "0b00011", "p_PLLPD_N": "USED", "p_PLLRESET_ENA": "ENABLED", "p_REF_INTEGER_MODE": "ENABLED",
         "i_PLLRESET": "reset", "i_REFCK": "clkin", "o_LOCK": "locked", "p_SEL_FBK": "FBKCLK5", "p_ENCLK_CLKOS5": "ENABLED",
         "p_DIVF": str(fb - 1), "p_DELF": str(fb - 1), "p_CLKMUX_FB": "CMUX_CLKOS5", "i_FBKCK": "loop:CLKOS5",
         "o_CLKOS5": "loop:CLKOS5", "p_FBK_INTEGER_MODE": "ENABLED", "p_FBK_MASK": "0b00000000", "p_FBK_MMD_DIG": "1"}
    for k in NX_ANALOG:
        d[k] = AnyStr()
    for n, (f, p, m) in enumerate(outs):
        div = cfg["clko%d_div" % n]
        ph = (1 + F(p) / 360) * div
        ph = math.floor(ph) if ph >= 0 else -math.floor(-ph)
        L_ = chr(65 + n)
        d["p_ENCLK_CLKO" + N2L[n]] = "ENABLED"
        d["p_DIV" + L_] = str(div - 1)
        d["p_PHI" + L_] = "0"
        d["p_DEL" + L_] = str(ph - 1)
        d["o_CLKO" + N2L[n]] = "clkout%d" % n
    return d


def expect_nxosc(hf_div, hfsdc_div, lf):
    d = {"of": "OSCA"}
    if hf_div is not None:
        d.update({"i_HFOUTEN": "c1w1", "p_HF_CLK_DIV": str(hf_div), "o_HFCLKOUT": "hf", "p_HF_OSC_EN": "ENABLED"})
    if hfsdc_div is not None:
        d.update({"i_HFSDSCEN": "c1w1", "p_HF_SED_SEC_DIV": str(hfsdc_div), "o_HFSDCOUT": "hfsdc"})
    if lf:
        d.update({"o_LFCLKOUT": "lf[0:1]", "p_LF_OUTPUT_EN": "ENABLED"})
    return d


def expect_intel(clkin, cfg, outs, nmax, rst_stages=8):
    k = len(outs)
    d = {"of": "ALTPLL", "p_BANDWIDTH_TYPE": "AUTO", "p_COMPENSATE_CLOCK": "CLK0",
         "p_INCLK0_INPUT_FREQUENCY": NearInt(F(10 ** 12) / F(clkin)), "p_OPERATION_MODE": "NORMAL", "i_INCLK": "clkin",
         "o_CLK": "clks", "i_ARESET": "reset0>>DFFE*%d" % rst_stages, "i_CLKENA": "c%dw%d" % (2 ** nmax - 1, nmax),
         "i_EXTCLKENA": "c15w4", "i_FBIN": "c1w1", "i_PFDENA": "c1w1", "i_PLLENA": "c1w1", "o_LOCKED": "locked"}
    for n, (f, p, m) in enumerate(outs):
        dv = cfg["clk%d_divide" % n]
        fo = F(clkin) * cfg["m"] / F(dv)
        d["p_CLK%d_DIVIDE_BY" % n] = dv
        d["p_CLK%d_DUTY_CYCLE" % n] = 50
        d["p_CLK%d_MULTIPLY_BY" % n] = cfg["m"]
        d["p_CLK%d_PHASE_SHIFT" % n] = NearInt((F(10 ** 12) / fo) * F(p) / 360)
    return d


def expect_gw1n(devicename, device, clkin, cfg, pinmap, outs):
    """pinmap: {pin name: index of the requested clock the CONFIGURATION assigns to it}."""
    pllvr = device.startswith("GW1NS")
    d = {"of": "PLLVR" if pllvr else "rPLL", "p_DEVICE": devicename, "p_FCLKIN": fstr(F(clkin) / 10 ** 6),
         "p_DYN_IDIV_SEL": "false", "p_IDIV_SEL": cfg["idiv"] - 1, "p_DYN_FBDIV_SEL": "false", "p_FBDIV_SEL": cfg["fdiv"] - 1,
         "p_DYN_ODIV_SEL": "false", "p_ODIV_SEL": cfg["odiv"], "p_PSDA_SEL": cfg["PSDA_SEL"], "p_DYN_DA_EN": "false",
         "p_DUTYDA_SEL": "1000", "p_CLKOUT_FT_DIR": 1, "p_CLKOUTP_FT_DIR": 1, "p_CLKOUT_DLY_STEP": 0, "p_CLKOUTP_DLY_STEP": 0,
         "p_CLKFB_SEL": "internal", "p_CLKOUT_BYPASS": "false", "p_CLKOUTP_BYPASS": "false", "p_CLKOUTD_BYPASS": "false",
         "p_DYN_SDIV_SEL": cfg["SDIV_SEL"], "i_CLKIN": "clkin", "i_CLKFB": "c0w1", "i_RESET": "reset", "i_RESET_P": "c0w1",
         "i_ODSEL": "c0w6", "i_FBDSEL": "c0w6", "i_IDSEL": "c0w6", "i_PSDA": "c0w4", "i_DUTYDA": "c0w4",
         "i_FDLY": "c0w4" if device.startswith("GW1N-1") else "c15w4", "o_LOCK": "locked"}
    if pllvr:
        d["i_VREN"] = "c1w1"
    for pin in ("CLKOUT", "CLKOUTP", "CLKOUTD", "CLKOUTD3"):
        d["o_" + pin] = ("clkout%d" % pinmap[pin]) if pin in pinmap else "open"
        if pin in ("CLKOUTD", "CLKOUTD3"):
            # source tap of the divided output: the phase-shifted CLKOUTP tap iff the clock on this pin asked for a phase
            d["p_%s_SRC" % pin] = ("CLKOUT" if F(outs[pinmap[pin]][1]) == 0 else "CLKOUTP") if pin in pinmap else "CLKOUT"
    return d


def expect_gwosc(device, div):
    return {"of": "OSC", "p_DEVICE": device, "p_FREQ_DIV": div, "o_OSCOUT": "clk"}


def expect_gw5a(device, clkin, cfg, outs):
    d = {"p_FCLKIN": fstr(F(clkin) / 10 ** 6), "p_IDIV_SEL": cfg["idiv"], "p_FBDIV_SEL": cfg["fdiv"], "p_ODIV0_FRAC_SEL": 0,
         "p_MDIV_SEL": cfg["mdiv"], "p_MDIV_FRAC_SEL": 0, "p_CLKFB_SEL": "INTERNAL", "p_DYN_DPA_EN": "FALSE",
         "p_RESET_I_EN": "FALSE", "p_RESET_O_EN": "FALSE", "p_SSC_EN": "FALSE",
         "i_CLKIN": "clkin", "i_CLKFB": "c0w1", "i_RESET": "reset", "i_PLLPWD": "c0w1", "i_RESET_I": "c0w1", "i_RESET_O": "c0w1",
         "i_PSDIR": "c0w1", "i_PSSEL": "c0w3", "i_PSPULSE": "c0w1", "i_SSCPOL": "c0w1", "i_SSCON": "c0w1", "i_SSCMDSEL": "c0w7",
         "i_SSCMDSEL_FRAC": "c0w3", "o_LOCK": "locked", "o_CLKFBOUT": "open"}
    for n in range(7):
        used = n < len(outs)
        od = cfg["odiv%d" % n] if used else 8
        p = F(outs[n][1]) if used else F(0)
        x = p * od / 360
        d["p_ODIV%d_SEL" % n] = od
        d["p_CLKOUT%d_EN" % n] = "TRUE" if used else "FALSE"
        d["p_CLKOUT%d_PE_COARSE" % n] = (math.floor(x) if x >= 0 else -math.floor(-x)) if used else 0
        d["p_CLKOUT%d_PE_FINE" % n] = py_round(p * od * 8 / 360) % 8 if used else 0
        d["p_DYN_PE%d_SEL" % n] = "FALSE"
        d["p_DE%d_EN" % n] = "FALSE"
        d["o_CLKOUT%d" % n] = ("clkout%d" % n) if used else "open"
        if n < 4:
            d["p_CLKOUT%d_DT_DIR" % n] = 1
            d["p_CLKOUT%d_DT_STEP" % n] = 0
        if n < 6:
            d["p_CLK%d_IN_SEL" % n] = 0
            d["p_CLK%d_OUT_SEL" % n] = 0
    if device.startswith("GW5A-") or device.startswith("GW5AT-"):
        d["of"] = "PLLA"
        d.update({"i_MDCLK": "c0w1", "i_MDOPC": "c0w2", "i_MDAINC": "c0w1", "i_MDWDI": "c0w8"})
    else:
        d["of"] = "PLL"
        d.update({"p_DYN_IDIV_SEL": "FALSE", "p_DYN_FBDIV_SEL": "FALSE", "p_DYN_ICP_SEL": "FALSE", "p_DYN_LPF_SEL": "FALSE",
                  "i_FBDSEL": "c0w6", "i_IDSEL": "c0w6", "i_MDSEL": "c0w7", "i_MDSEL_FRAC": "c0w3", "i_ODSEL0_FRAC": "c0w3",
                  "i_ICPSEL": "c0w6", "i_LPFRES": "c0w3", "i_LPFCAP": "c0w2"})
        for n in range(7):
            d["p_DYN_ODIV%d_SEL" % n] = "FALSE"
            d["i_ODSEL%d" % n] = "c0w7"
            d["i_ENCLK%d" % n] = "c1w1"
            if n < 4:
                d["p_DYN_DT%d_SEL" % n] = "FALSE"
                d["i_DT%d" % n] = "c0w4"
    return d


def expect_gatemate(clkin, outs, perf_mode, low_jitter, lock_req, usr_clk_ref):
    """outs = {phase: freq}.  CC_PLL has no search: OUT_CLK is the slowest requested frequency, the 180/270 outputs may
    run at twice that (CLKxxx_DOUB)."""
    fmin = min(outs.values())
    d = {"of": "CC_PLL", "p_REF_CLK": fstr(F(clkin) / 10 ** 6), "p_OUT_CLK": fstr(F(fmin) / 10 ** 6), "p_LOW_JITTER": low_jitter,
         "p_PERF_MD": perf_mode.upper(), "p_LOCK_REQ": lock_req, "p_CI_FILTER_CONST": 2, "p_CP_FILTER_CONST": 4,
         "i_CLK_REF": "open" if usr_clk_ref else "clkin", "i_USR_CLK_REF": "clkin" if usr_clk_ref else "open",
         "i_CLK_FEEDBACK": "c0w1", "i_USR_LOCKED_STDY_RST": "c0w1", "o_CLK_REF_OUT": "open", "o_USR_PLL_LOCKED_STDY": "open",
         "o_USR_PLL_LOCKED": "lock_raw"}
    for ph in (0, 90, 180, 270):
        d["o_CLK%d" % ph] = ("clk%d" % ph) if ph in outs else "open"
    for ph in (180, 270):
        d["p_CLK%d_DOUB" % ph] = 1 if (ph in outs and F(outs[ph]) == 2 * F(fmin)) else 0
    return d
