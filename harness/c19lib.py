"""C19 — instances (real cores from /repo driven through `netlist.Netlist`) and pin-level property monitors for
serial peripherals and timers.

CSR-backed controls are driven by writing the underlying `storage` / `re` / `fields.*` signals directly: CSR objects
are not submodules of a LiteXModule, so without a CSR bank these signals have no driver and behave as inputs
(the CSR bank itself is C12's subject, the event manager C15's).

Every instance follows the protocol of `explore.py`; letters and compared outputs are documented per builder and
in `lean/LitexModel/Periph/Num.lean`.  Monitors never look at the Lean model: they decode pins and count cycles.
"""
import itertools
from netlist import Netlist
from migen import Module, Signal, If
from migen.genlib.record import Record

M32 = 1 << 32


class PInst:
    """Generic instance: `inputs`/`outputs` are real signals in protocol order."""

    def __init__(self, name, module, lean_open, inputs, outputs, alphabet, gen, nontrivial, monitor=None,
                 qual=None, fixed=None, idle=None):
        self.name = name
        self.module = module
        self.lean_open = lean_open
        self.netlist = Netlist(module)
        self.inputs = list(inputs) if inputs is not None else None
        self.outputs = list(outputs) if outputs is not None else None
        self.alphabet = alphabet
        self._gen = gen
        self._nontrivial = nontrivial
        self.qual = qual if qual is not None else [None] * len(self.outputs or [])
        if monitor is not None:
            self.monitor = monitor
        if idle is not None:
            self.idle_letter = idle      # last letter -> a letter that lets the core finish what it started
        if fixed:
            for s, v in fixed:
                self.netlist.set(s, v)
            self.netlist.settle()

    def gen(self, rng, t):
        return self._gen(rng, t)

    def nontrivial(self, letter, outs):
        return bool(self._nontrivial(letter, outs))


class Scripted:
    """An instance whose mode-B generator plays a fixed trace (corpus witnesses)."""
    def __init__(self, inst, trace, tag):
        self.__dict__.update(inst.__dict__)
        self._inst = inst
        self._trace = trace
        self.name = "corpus/%s: %s" % (tag, inst.name)
        for k in ("apply", "sample", "monitor", "model_letter", "nontrivial"):
            if hasattr(inst, k):
                setattr(self, k, getattr(inst, k))

    def gen(self, rng, t):
        if t < len(self._trace):
            return self._trace[t]
        last = self._trace[-1]               # beyond the witness (random extensions of the search): let the core idle
        return self._inst.idle_letter(last) if hasattr(self._inst, "idle_letter") else last


def soc_parts(clk=2e6, baud=250000, depth=4, wd_width=12, wd_delay=5):
    """A real SoCMini with the cores added the way users add them: `with_timer` (add_timer), `with_uart` (add_uart:
    UARTPHY + UART with the SoC's clock, baud rate and FIFO depth) and `add_watchdog`.  Returns (soc, uart pads,
    watchdog reset signal); the cores are then simulated on their own."""
    from litex.soc.integration.soc_core import SoCMini
    from litex.build.sim.platform import SimPlatform
    from litex.build.generic_platform import Pins, Subsignal
    import envshim
    plat = SimPlatform("SIM", [("sys_clk", 0, Pins(1)), ("sys_rst", 0, Pins(1)),
                               ("serial", 0, Subsignal("tx", Pins(1)), Subsignal("rx", Pins(1)))])
    soc = SoCMini(plat, clk, with_timer=True, with_uart=True, uart_name="serial", uart_baudrate=baud, uart_fifo_depth=depth)
    rst = Signal()
    soc.add_watchdog(width=wd_width, crg_rst=rst, reset_delay=wd_delay)
    envshim.quiet_stderr()
    return soc, plat.lookup_request("serial"), rst


def prod(*axes):
    return [tuple(l) for l in itertools.product(*axes)]


# ---------------------------------------------------------------------------------------------------------
# Timer

class TimerMonitor:
    """Independent reference: shadow down-counter maintained from the documented behaviour.
       - disabled: the counter is (re)loaded with `load`;
       - enabled: one step down per cycle; at 0 it takes `reload` (0 = stays at 0: one-shot);
       - `zero` is high exactly in the cycles in which the count is 0 -> a one-shot enabled with load = L shows
         zero exactly L cycles after the first enabled cycle (checked with an explicit cycle counter);
       - `value` holds the count of the last cycle in which `update_value` was written."""

    def __init__(self):
        self.count = 0
        self.latched = 0
        self.oneshot = None      # (L, k): the current cycle is k cycles after the loaded value L became visible

    def observe(self, letter, outs):
        load, reload, en, upd = letter
        zero, status = outs
        msg = None
        if zero != (1 if self.count == 0 else 0):
            msg = "zero=%d while the reference count is %d" % (zero, self.count)
        elif status != self.latched:
            msg = "value register %d, expected latched count %d" % (status, self.latched)
        elif self.oneshot is not None:
            L, k = self.oneshot
            if (k >= L) != bool(zero):
                msg = "one-shot load=%d: zero=%d, %d cycles after the enable became visible" % (L, zero, k)
        # explicit cycle counter for the one-shot claim: (re)armed by every disabled cycle, dropped when a non-zero
        # reload is taken at 0 (periodic mode)
        if not en:
            self.oneshot = (load, 0)
        elif self.oneshot is not None:
            L, k = self.oneshot
            self.oneshot = None if (k >= L and reload != 0) else (L, k + 1)
        if upd:
            self.latched = self.count
        if en:
            self.count = reload if self.count == 0 else self.count - 1
        else:
            self.count = load
        return msg


def mk_timer(width, values=None, core=None, name=None):
    from litex.soc.cores.timer import Timer
    core = core if core is not None else Timer(width=width)
    top = (1 << width) - 1
    vals = list(values) if values is not None else (list(range(1 << width)) if width <= 4 else [0, 1, 2, top])
    small = [0, 1, 2, 3, 5, 8, 13]
    edges = sorted({v & top for k in range(1, width + 1) for v in ((1 << k) - 1, 1 << k, (1 << k) + 1)})

    def gen(rng, t):
        regime = (t // 61) % 4
        pen = (0.9, 0.5, 0.98, 0.7)[regime]
        pick = lambda: (rng.choice(small) if rng.random() < 0.75 else
                        rng.choice([top, top - 1, rng.getrandbits(width), rng.choice(edges), rng.choice(edges)])) & top
        return (pick(), pick() if rng.random() < 0.6 else 0, 1 if rng.random() < pen else 0, 1 if rng.random() < 0.2 else 0)

    return PInst(name or "Timer(width=%d)" % width, core, "timer %d" % width,
                 [core._load.storage, core._reload.storage, core._en.storage, core._update_value.re],
                 [core.ev.zero.trigger, core._value.status],
                 prod(vals, vals, (0, 1), (0, 1)), gen,
                 lambda l, o: l[2] or l[3] or o[0], monitor=TimerMonitor, idle=lambda l: (l[0], l[1], l[2], 0))


# ---------------------------------------------------------------------------------------------------------
# Watchdog

class WatchdogMonitor:
    """Reference from the documentation: `remaining` counts down one step per enabled cycle and saturates at 0;
    feeding reloads it with `cycles`; halted (with pause_halted) or disabled freezes it; `execute` (and the wdt event
    while enabled) is raised the cycle after an enabled cycle that saw remaining == 0; with reset mode the reset
    output rises after `reset_delay` further cycles of continuous timeout, never earlier."""

    def __init__(self, delay, halt_direct=False):
        self.delay = delay           # None: built without crg_rst (no reset output to judge)
        self.halt_direct = halt_direct
        self.rem = 0
        self.exe = 0
        self.streak = 0          # consecutive cycles of (enabled & execute & reset mode)

    def observe(self, letter, outs):
        feed, enf, rstf, pausef, halted, cycles = letter
        trig, crg_rst, remaining, execute = outs
        if self.halt_direct:
            pausef = 1
        en = 1 if (enf and not (halted and pausef)) else 0
        msg = None
        if remaining != self.rem:
            msg = "remaining=%d, reference %d" % (remaining, self.rem)
        elif execute != self.exe:
            msg = "execute=%d, reference %d" % (execute, self.exe)
        elif trig != (en & self.exe):
            msg = "wdt event trigger=%d with enable=%d execute=%d" % (trig, en, self.exe)
        elif self.delay is not None and crg_rst != (1 if (en and self.exe and rstf and self.streak >= self.delay) else 0):
            msg = "crg_rst=%d after %d cycles of timeout in reset mode (reset_delay=%d)" % (crg_rst, self.streak, self.delay)
        self.streak = self.streak + 1 if (en and self.exe and rstf) else 0
        if self.delay is None and crg_rst:
            msg = msg or "reset output driven although no crg_rst was given"
        if feed:
            self.rem = cycles
        elif en:
            self.exe = 1 if self.rem == 0 else 0
            if self.rem:
                self.rem -= 1
        return msg


def mk_watchdog(width, delay, values=None, with_halted=True, with_crg=True, core=None, crg=None, name=None):
    """`with_halted=False` / `with_crg=False` take the constructor's `halted=None` / `crg_rst=None` paths: the core's own
    `halted` signal is then a free input (no pause_halted gating), and there is no reset timer."""
    from litex.soc.cores.watchdog import Watchdog
    halted, crg_rst = Signal(), (crg if crg is not None else Signal())
    if core is None:
        core = Watchdog(width=width, crg_rst=crg_rst if with_crg else None, reset_delay=delay,
                        halted=halted if with_halted else None)
    f = core._control.fields
    top = (1 << width) - 1
    vals = list(values) if values is not None else (list(range(1 << width)) if width <= 4 else [0, 1, 2, top])

    wedges = sorted({v & top for k in range(1, width + 1) for v in ((1 << k) - 1, 1 << k)})

    def gen(rng, t):
        regime = ((t // max(83, 3 * delay)) + (2 if delay > 50 else 0)) % 4
        pfeed = (0.02, 0.2, 0.0, 0.05)[regime]
        pen = (0.95, 0.8, 1.0, 0.5)[regime]
        cyc = rng.choice([0, 1, 2, 3, 7, 12]) if rng.random() < 0.8 else rng.choice([rng.getrandbits(width), rng.choice(wedges)])
        if regime == 2 and delay > 50:
            return (0, 1, 1, 0, 0, 0)                       # long uninterrupted timeout in reset mode
        return (1 if rng.random() < pfeed else 0, 1 if rng.random() < pen else 0, 1 if rng.random() < 0.7 else 0,
                1 if rng.random() < 0.5 else 0, 1 if rng.random() < 0.15 else 0, cyc & top)

    inst = PInst(name or "Watchdog(width=%d,reset_delay=%d%s%s)" % (width, delay, "" if with_halted else ",halted=None",
                                                                   "" if with_crg else ",crg_rst=None"),
                 core, "watchdog %d %d" % (width, delay),
                 [f.feed, f.enable, f.reset, f.pause_halted, halted if with_halted else core.halted, core._cycles.storage],
                 [core.ev.wdt.trigger, crg_rst, core._remaining.status, core.execute],
                 prod((0, 1), (0, 1), (0, 1), (0, 1), (0, 1), vals), gen,
                 lambda l, o: l[0] or l[1] or o[0],
                 monitor=lambda: WatchdogMonitor(delay if with_crg else None, halt_direct=not with_halted),
                 qual=[None, None if with_crg else (lambda a: False), None, None],
                 idle=lambda l: (0,) + tuple(l[1:]))
    if not with_halted:
        inst.model_letter = lambda l: (l[0], l[1], l[2], 1, l[4], l[5])     # the free `halted` acts ungated
    return inst


# ---------------------------------------------------------------------------------------------------------
# WaitTimer, timeline, PWM

class WaitTimerMonitor:
    """done exactly when `wait` has been held for the last t cycles (or more)."""
    def __init__(self, t):
        self.t = t
        self.streak = 0

    def observe(self, letter, outs):
        msg = None
        if outs[0] != (1 if self.streak >= self.t else 0):
            msg = "done=%d after %d consecutive wait cycles (t=%d)" % (outs[0], self.streak, self.t)
        self.streak = self.streak + 1 if letter[0] else 0
        return msg


def mk_waittimer(t):
    from litex.gen.genlib.misc import WaitTimer
    core = WaitTimer(t)          # `t` may be a float (e.g. 100e-3 * clk_freq): the constructor takes int(t)
    t = int(t)
    state = {"p": 0.5}

    def gen(rng, t_):
        if t_ % (3 * t + 7) == 0:
            state["p"] = rng.choice([0.5, 0.9, 0.99, 1.0]) if t < 200 else rng.choice([1.0, 1.0, 1.0 - 0.5 / t])
        return (1 if rng.random() < state["p"] else 0,)

    return PInst("WaitTimer(%d)" % t, core, "waittimer %d" % t, [core.wait], [core.done], [(0,), (1,)], gen,
                 lambda l, o: l[0] or o[0], monitor=lambda: WaitTimerMonitor(t))


class TimelineTop(Module):
    def __init__(self, times):
        from litex.gen.genlib.misc import timeline
        self.trigger = Signal()
        self.pulses = [Signal() for _ in times]
        self.sync += [p.eq(0) for p in self.pulses]
        self.sync += timeline(self.trigger, [(e, [p.eq(1)]) for e, p in zip(times, self.pulses)])


class TimelineMonitor:
    """Event `e` fires exactly e cycles after the trigger that started the sequence; triggers during a running
    sequence are ignored; a new sequence can start the cycle after the last event."""
    def __init__(self, times):
        self.times = times
        self.last = max(times)
        self.pos = None          # cycles since the accepted trigger
        self.expect = [0] * len(times)

    def observe(self, letter, outs):
        msg = None
        if list(outs) != self.expect:
            msg = "event pulses %r, expected %r" % (list(outs), self.expect)
        if self.pos is None and letter[0]:
            self.pos = 0
        self.expect = [1 if (self.pos is not None and self.pos == e) else 0 for e in self.times]
        if self.pos is not None:
            self.pos = None if self.pos == self.last else self.pos + 1
        return msg


def mk_timeline(times):
    core = TimelineTop(times)
    last = max(times)
    return PInst("timeline(%s)" % ",".join(map(str, times)), core,
                 "timeline %d %s" % (last, " ".join(map(str, times))), [core.trigger], core.pulses, [(0,), (1,)],
                 lambda rng, t: (1 if rng.random() < 0.2 else 0,), lambda l, o: l[0] or any(o),
                 monitor=lambda: TimelineMonitor(times))


class PwmMonitor:
    """While enabled (no reset) with constant period P >= 1 and width W, measured from a cycle in which the counter
    restarted: the output (one register later) is high in the first min(W, P) cycles of every P."""
    def __init__(self):
        self.pos = None          # position inside the period (None = unknown phase)
        self.cfg = None
        self.expect = None

    def observe(self, letter, outs):
        en, rst, w, p = letter
        msg = None
        if self.expect is not None and outs[0] != self.expect:
            msg = "pwm=%d, expected %d (position %r of period %r, width %r)" % (outs[0], self.expect, self.pos, p, w)
        if not en:
            self.expect = 0
            self.pos = 0 if True else None
            self.cfg = None
            self.pos = 0
            return msg
        if rst:
            # counter forced to 0 for the next cycle; output still compares the current position
            self.expect = (1 if (self.pos is not None and self.pos < w) else 0) if self.pos is not None else None
            self.pos = 0
            self.cfg = None
            return msg
        if p < 1:
            self.expect = None
            self.pos = None
            return msg
        if self.pos is None or self.pos >= p:
            # phase unknown (period shrank below the running position): resynchronise when the output tells nothing
            self.expect = None
            self.pos = None
            return msg
        self.expect = 1 if self.pos < w else 0
        self.pos = self.pos + 1 if self.pos + 1 < p else 0
        return msg


def mk_pwm(values=None, wide=False, csr=False, fixed=None):
    """`fixed=(period, width)`: constant large values, enabled throughout (the counter must really reach them)."""
    from litex.soc.cores.pwm import PWM
    core = PWM(with_csr=csr)
    vals = list(values) if values is not None else [0, 1, 2, 3]
    state = {"w": 1, "p": 4}

    def gen(rng, t):
        if fixed:
            return (0 if t == 0 else 1, 0, fixed[1], fixed[0])      # one disabled cycle defines the phase
        if t % 53 == 0:
            state["p"] = rng.choice([1, 2, 3, 5, 8, 17]) if not wide or rng.random() < 0.7 else rng.getrandbits(32)
            state["w"] = rng.randint(0, state["p"] + 1) if rng.random() < 0.9 else rng.getrandbits(32)
        return (1 if rng.random() < 0.97 else 0, 1 if rng.random() < 0.02 else 0, state["w"],
                state["p"] if rng.random() < 0.99 else rng.choice([0, 1, 2]))

    ins = [core._enable.storage, core.reset, core._width.storage, core._period.storage] if csr else \
        [core.enable, core.reset, core.width, core.period]
    return PInst("PWM%s%s%s" % ("/32b" if wide else "", ",with_csr" if csr else "",
                                ",period=%d,width=%d" % fixed if fixed else ""), core, "pwm", ins,
                 [core.pwm], prod((0, 1), (0, 1), vals, vals), gen, lambda l, o: l[0] and not l[1],
                 monitor=PwmMonitor)


class McPwmMonitor:
    """Every channel: output (one register later) = enable_k and shared position < width_k, where the position runs
    0 .. period-1 while channel 0 is enabled with a constant period >= 1 (phase tracked from a disabled cycle)."""
    def __init__(self, n):
        self.n, self.pos, self.expect, self.p = n, 0, None, None

    def observe(self, letter, outs):
        period, chans = letter[0], [(letter[1 + 2 * k], letter[2 + 2 * k]) for k in range(self.n)]
        msg = None
        if self.expect is not None and list(outs) != self.expect:
            msg = "pwm outputs %r, expected %r" % (list(outs), self.expect)
        if self.pos is None or (self.p is not None and period != self.p and self.pos >= max(period, 1)):
            self.expect, self.pos = None, None
        if self.pos is not None:
            self.expect = [1 if (e and self.pos < w) else 0 for e, w in chans]
        if not chans[0][0]:
            self.pos = 0
        elif self.pos is not None and period >= 1:
            self.pos = self.pos + 1 if self.pos + 1 < period else 0
        else:
            self.pos = None
        self.p = period
        return msg


class _PadVec:
    def __init__(self, sigs):
        self.sigs = sigs

    def __len__(self):
        return len(self.sigs)

    def __getitem__(self, k):
        return self.sigs[k]


def mk_mcpwm(n, values=(0, 1, 2, 3)):
    """MultiChannelPWM: letter = (period, enable_0, width_0, ..., enable_{n-1}, width_{n-1}) written to the CSR storages."""
    from litex.soc.cores.pwm import MultiChannelPWM
    pads = _PadVec([Signal() for _ in range(n)])
    core = MultiChannelPWM(pads)
    ch = [getattr(core, "channel%d" % k) for k in range(n)]
    ins = [ch[0]._period.storage]
    for c in ch:
        ins += [c._enable.storage, c._width.storage]
    state = {}

    def gen(rng, t):
        if t % 61 == 0:
            state["p"] = rng.choice([1, 2, 3, 5, 9, 17])
            state["w"] = [rng.randint(0, state["p"] + 1) for _ in range(n)]
        l = [state["p"] if rng.random() < 0.995 else rng.choice([0, 1, 4])]
        for k in range(n):
            l += [1 if rng.random() < (0.98 if k == 0 else 0.9) else 0, state["w"][k]]
        return tuple(l)

    vals = list(values)
    alpha = [(p, e0, w0) + tuple(x for k in range(1, n) for x in (e0 if k % 2 else 1 - e0, vals[(w0 + k) % len(vals)]))
             for p in vals for e0 in (0, 1) for w0 in vals]
    return PInst("MultiChannelPWM(%d)" % n, core, "mcpwm %d" % n, ins, list(pads.sigs), alpha, gen,
                 lambda l, o: l[1], monitor=lambda: McPwmMonitor(n))


class UptimeMonitor:
    """uptime_cycles.status = number of clock cycles before the last latch request."""
    def __init__(self):
        self.t, self.latched = 0, 0

    def observe(self, letter, outs):
        msg = None if outs[0] == self.latched else "uptime_cycles=%d, expected %d" % (outs[0], self.latched)
        if letter[0]:
            self.latched = self.t
        self.t += 1
        return msg


def mk_uptime():
    from litex.soc.cores.timer import Timer
    core = Timer(width=8)
    core.add_uptime()
    return PInst("Timer.add_uptime()", core, "uptime", [core._uptime_latch.re], [core._uptime_cycles.status], [(0,), (1,)],
                 lambda rng, t: (1 if rng.random() < 0.05 else 0,), lambda l, o: l[0], monitor=UptimeMonitor)


# ---------------------------------------------------------------------------------------------------------
# UART

def ideal_frame(byte):
    return [0] + [(byte >> k) & 1 for k in range(8)] + [1]


class AccumMonitor:
    """Tick count of a phase accumulator: after j enabled cycles (following a disabled one) the number of ticks
    produced is floor((p0 + j*tw) / 2^32) with p0 = tw (tx) or 2^31 (rx); recomputed with integers."""
    def __init__(self, tw, rx):
        self.tw, self.rx = tw, rx
        self.j = None
        self.ticks = 0

    def observe(self, letter, outs):
        msg = None
        if self.j is not None:
            p0 = (1 << 31) if self.rx else self.tw
            exp_total = (p0 + self.j * self.tw) // M32
            self.ticks += outs[0]
            if self.ticks != exp_total:
                msg = "%d ticks after %d enabled cycles, expected %d" % (self.ticks, self.j, exp_total)
        if letter[0]:
            if self.j is not None:
                self.j += 1
        else:
            self.j, self.ticks = 0, 0
        return msg


def mk_accum(tw, rx):
    from litex.soc.cores.uart import RS232ClkPhaseAccum
    core = RS232ClkPhaseAccum(tw, mode="rx" if rx else "tx")
    return PInst("RS232ClkPhaseAccum(0x%x,%s)" % (tw, "rx" if rx else "tx"), core, "accum %d %d" % (tw, 1 if rx else 0),
                 [core.enable], [core.tick], [(0,), (1,)],
                 lambda rng, t: (1 if rng.random() < (0.98 if (t // 200) % 2 else 0.7) else 0,),
                 lambda l, o: l[0], monitor=lambda: AccumMonitor(tw, rx))


class UartTxMonitor:
    """Pin-level UART frame checker, timing recomputed with exact integers (independent of the model):
    a transfer starts in the cycle the idle transmitter sees sink.valid (byte = sink.data in that cycle); with cycle
    r = 0 the next one, the pad must carry frame[floor(r*tw/2^32)] (frame = start 0, d0..d7, stop 1) while
    r*tw < 10*2^32, i.e. bit b occupies exactly the cycles between ideal bit boundaries b and b+1 rounded up to the
    clock grid (each bit lasts floor or ceil of 2^32/tw cycles, cumulative error below one cycle); sink.ready pulses
    exactly once, in the last cycle of the stop bit; then the line is high until the next transfer; the line is never
    low outside a frame."""

    def __init__(self, tw):
        self.tw = tw
        self.r = None
        self.byte = None

    def observe(self, letter, outs):
        valid, data = letter
        tx, ready = outs
        msg = None
        if self.r is None:
            if tx != 1:
                msg = "line low while idle"
            elif ready:
                msg = "sink.ready while idle"
            elif valid:
                self.r, self.byte = 0, data & 0xff
            return msg
        b = self.r * self.tw // M32
        frame = ideal_frame(self.byte)
        if b > 9:
            return "frame did not end after 10 bit periods"
        if tx != frame[b]:
            msg = "cycle %d of the frame: line=%d, expected bit %d of the frame = %d (byte 0x%02x)" % (self.r, tx, b, frame[b], self.byte)
        last = (self.r + 1) * self.tw // M32 >= 10
        if msg is None and bool(ready) != last:
            msg = "sink.ready=%d in cycle %d of the frame (frame ends: %s)" % (ready, self.r, last)
        self.r = None if last else self.r + 1
        return msg


class UartBaudMonitor:
    """TX frame checker against the *requested* baud rate (clk_freq, baudrate as given to UARTPHY), exact rationals:
    in cycle r of a frame the pad carries bit floor(r*baud/clk) of start/d0..d7/stop, one cycle of slack around every bit
    boundary; sink.ready pulses once, within one cycle of 10 bit periods; the line idles high."""

    def __init__(self, clk, baud):
        self.clk, self.baud = int(clk), int(baud)
        self.r = None

    def observe(self, letter, outs):
        valid, data = letter
        tx, ready = outs
        if self.r is None:
            if tx != 1:
                return "line low while idle"
            if ready:
                return "sink.ready while idle"
            if valid:
                self.r, self.byte = 0, data & 0xff
            return None
        fr = ideal_frame(self.byte) + [1, 1]
        lo, hi = max(self.r - 1, 0) * self.baud // self.clk, (self.r + 1) * self.baud // self.clk
        msg = None
        if lo > 10:
            return "frame did not end after 10 bit periods at %d baud" % self.baud
        if tx not in (fr[min(lo, 11)], fr[min(hi, 11)]):
            msg = "cycle %d of the frame: line=%d, expected bit %d of the frame at %d baud" % (self.r, tx, lo, self.baud)
        if ready:
            if not (lo <= 10 <= hi + 1) and not (lo == 9 and hi >= 9 and (self.r + 2) * self.baud // self.clk >= 10):
                msg = msg or "sink.ready in cycle %d, 10 bit periods are %d cycles" % (self.r, 10 * self.clk // self.baud)
            self.r = None
        else:
            self.r += 1
        return msg


def phy_tuning_word(clk_freq, baudrate):
    """The tuning word RS232PHY is documented to program: baudrate / clk_freq as a 32-bit fraction."""
    return int((baudrate / clk_freq) * 2 ** 32)


def mk_uart_tx(tw, bytes_=(0x00, 0xff, 0xa5, 0x3c), name=None, phy=None, dynamic=False):
    """`phy=(clk_freq, baudrate)`: the transmitter is built through the UARTPHY factory / RS232PHY (tuning word computed
    by that glue, optionally held in the `with_dynamic_baudrate` CSR storage left at its reset value)."""
    from litex.soc.cores.uart import RS232PHYTX, UARTPads, UARTPHY
    pads = UARTPads()
    if phy:
        core = UARTPHY(pads, phy[0], phy[1], with_dynamic_baudrate=dynamic)
        tw = phy_tuning_word(*phy)
        name = name or "UARTPHY(%g Hz,%d baud%s).tx" % (phy[0], phy[1], ",dynamic" if dynamic else "")
    else:
        core = RS232PHYTX(pads, tw)
    period = M32 // tw
    state = {"p": 0.5}

    def gen(rng, t):
        if t % (12 * period + 5) == 0:
            state["p"] = rng.choice([1.0, 1.0, 0.5, 1.0 / (3 * period + 1), 1.0 / (15 * period + 1)])
        return (1 if rng.random() < state["p"] else 0, rng.getrandbits(8))

    return PInst(name or "RS232PHYTX(tw=0x%x)" % tw, core, "uarttx %d" % tw, [core.sink.valid, core.sink.data],
                 [pads.tx, core.sink.ready], prod((0, 1), bytes_), gen, lambda l, o: o[1] or (l[0] and o[0]),
                 monitor=(lambda: UartBaudMonitor(*phy)) if phy else (lambda: UartTxMonitor(tw)), idle=lambda l: (0, 0))


class UartTopMonitor:
    """Scoreboards of the UART's CSR side (independent of the model):
      - a character written to rxtx while txfull = 0 is handed to the PHY exactly once, in order; nothing else is;
      - a character accepted from the PHY (sink.valid & sink.ready) is shown on rxtx.w, in order, until software pops it
        (ev.rx.clear, or a read of rxtx with rx_fifo_rx_we); rxempty = 0 promises a character;
      - txfull = ~sink side ready and the triggers mirror the flags; queued characters surface within 3 cycles."""

    def __init__(self, dtx, drx, rx_we):
        self.dtx, self.drx, self.rx_we = dtx, drx, rx_we
        self.txq, self.rxq = [], []
        self.tx_wait = self.rx_wait = 0

    def observe(self, letter, outs):
        re, r, we, clr, sv, sd, rdy = letter
        srcv, srcd, srdy, w, txfull, txempty, rxempty, rxfull, ttx, trx = outs
        msg = None
        if ttx != 1 - txfull or trx != 1 - rxempty:
            msg = "event triggers (tx=%d, rx=%d) do not mirror txfull=%d / rxempty=%d" % (ttx, trx, txfull, rxempty)
        elif txempty != 1 - srcv:
            msg = "txempty=%d while source.valid=%d" % (txempty, srcv)
        elif rxfull != 1 - srdy:
            msg = "rxfull=%d while sink.ready=%d" % (rxfull, srdy)
        elif srcv and (not self.txq or self.txq[0] != srcd):
            msg = "PHY offered 0x%02x, software wrote %s" % (srcd, "0x%02x" % self.txq[0] if self.txq else "nothing")
        elif not rxempty and (not self.rxq or self.rxq[0] != w):
            msg = "rxtx shows 0x%02x, PHY delivered %s" % (w, "0x%02x" % self.rxq[0] if self.rxq else "nothing")
        elif len(self.txq) > self.dtx + 1 or len(self.rxq) > self.drx + 1:
            msg = "more characters in flight than the FIFO holds"
        self.tx_wait = self.tx_wait + 1 if (self.txq and not srcv) else 0
        self.rx_wait = self.rx_wait + 1 if (self.rxq and rxempty) else 0
        if msg is None and (self.tx_wait > 3 or self.rx_wait > 3):
            msg = "a queued character did not surface within 3 cycles"
        if srcv and rdy and self.txq:
            self.txq.pop(0)
        if not rxempty and (clr or (self.rx_we and we)) and self.rxq:
            self.rxq.pop(0)
        if re and not txfull:
            self.txq.append(r & 0xff)
        if sv and srdy:
            self.rxq.append(sd & 0xff)
        return msg


class UartTopInst(PInst):
    """UART(phy=None, tx_fifo_depth, rx_fifo_depth, rx_fifo_rx_we).
       letter  = (rxtx.re, rxtx.r, rxtx.we, clear rx event, sink.valid, sink.data, source.ready)
       outputs = (source.valid, source.data, sink.ready, rxtx.w, txfull, txempty, rxempty, rxfull, ev.tx.trigger,
                  ev.rx.trigger)"""

    def __init__(self, dtx, drx, rx_we=False, alphabet=None):
        from litex.soc.cores.uart import UART
        core = UART(phy=None, tx_fifo_depth=dtx, rx_fifo_depth=drx, rx_fifo_rx_we=rx_we)
        self.core, self.d = core, (dtx, drx, rx_we)
        PInst.__init__(self, "UART(tx_fifo_depth=%d,rx_fifo_depth=%d%s)" % (dtx, drx, ",rx_fifo_rx_we" if rx_we else ""), core,
                       "uarttop %d %d %d" % (dtx, drx, 1 if rx_we else 0), None,
                       [core.source.valid, core.source.data, core.sink.ready, core._rxtx.w, core._txfull.status,
                        core._txempty.status, core._rxempty.status, core._rxfull.status, core.ev.tx.trigger,
                        core.ev.rx.trigger], alphabet, None, lambda l, o: l[0] or l[4] or o[0] or not o[6],
                       qual=[None, 0, None, (lambda a: a[6] == 0), None, None, None, None, None, None])
        self.monitor = lambda: UartTopMonitor(dtx, drx, rx_we)

    def apply(self, letter):
        n, c = self.netlist, self.core
        re, r, we, clr, sv, sd, rdy = letter
        n.set(c._rxtx.re, re); n.set(c._rxtx.r, r); n.set(c._rxtx.we, we)
        n.set(c.ev.pending.re, clr); n.set(c.ev.pending.r, 3)
        n.set(c.sink.valid, sv); n.set(c.sink.data, sd); n.set(c.source.ready, rdy)
        n.settle()

    def sample(self):
        return [self.netlist.getu(sig) for sig in self.outputs]

    def gen(self, rng, t):
        regime = (t // 97) % 4
        pw, pr, pv, pc = ((0.5, 0.2, 0.5, 0.2), (0.1, 0.8, 0.1, 0.8), (0.9, 0.05, 0.9, 0.05), (0.3, 0.5, 0.3, 0.5))[regime]
        return (1 if rng.random() < pw else 0, rng.getrandbits(8), 1 if rng.random() < 0.3 else 0,
                1 if rng.random() < pc else 0, 1 if rng.random() < pv else 0, rng.getrandbits(8),
                1 if rng.random() < pr else 0)


class UartSysMonitor:
    """UART with its RS232 PHY, pads.tx looped back to pads.rx (by the stimulus; checked here): every character software
    writes while txfull = 0 comes back on rxtx.w, in order, each within (position + 2) * 11 bit periods; nothing else
    does.  txfull / rxfull are not reported while fewer than tx_fifo_depth / rx_fifo_depth characters are outstanding
    (the depths given to the constructor or to SoC.add_uart).  The ordering check is disarmed once the RX FIFO reports
    full (characters may then be dropped) or if the stimulus is not a loopback."""

    def __init__(self, bit_cycles, rx_we=False, dtx=None, drx=None):
        self.bit, self.rx_we, self.dtx, self.drx = bit_cycles, rx_we, dtx, drx
        self.t, self.frames, self.next_ok, self.starts = 0, 0, 0, []   # frames seen on the pad (start edges >= 9 bits apart)
        self.q, self.age, self.armed, self.prev_tx, self.done = [], 0, True, 1, 0

    def observe(self, letter, outs):
        re, r, we, clr, padrx = letter
        tx, w, txfull, txempty, rxempty, rxfull = outs
        if padrx != self.prev_tx:
            self.armed = False
        if self.prev_tx and not tx and self.t >= self.next_ok:
            self.starts.append(self.t)
            self.next_ok = self.t + 9 * max(self.bit - 1, 1)
        while self.starts and self.starts[0] <= self.t - 9 * max(self.bit - 1, 1):
            self.starts.pop(0)                           # old enough to have reached the receiver's stop-bit sample
            self.frames += 1
        self.t += 1
        self.prev_tx = tx
        if not self.armed:
            return None
        waiting = min(len(self.q), self.frames - self.done)      # characters that can have reached the RX FIFO
        if rxfull and self.drx is not None and waiting < self.drx:
            return "rxfull with at most %d characters received and not read, rx_fifo_depth=%d" % (waiting, self.drx)
        if txfull and self.dtx is not None and len(self.q) < self.dtx:
            return "txfull with %d characters outstanding, tx_fifo_depth=%d" % (len(self.q), self.dtx)
        if rxfull:
            self.armed = False
            return None
        msg = None
        if not rxempty:
            if not self.q or self.q[0] != w:
                msg = "received 0x%02x, sent %s" % (w, "0x%02x" % self.q[0] if self.q else "nothing")
            elif clr or (self.rx_we and we):
                self.q.pop(0)
                self.age = 0
                self.done += 1
        self.age = self.age + 1 if self.q else 0
        if msg is None and self.q and self.age > (len(self.q) + 2) * 11 * self.bit + 20:
            msg = "character 0x%02x not received %d cycles after it was written" % (self.q[0], self.age)
        if re and not txfull:
            self.q.append(r & 0xff)
        return msg


class UartSysInst(PInst):
    """UART(UARTPHY(pads, clk_freq, baudrate), tx_fifo_depth, rx_fifo_depth): built the way SoCs build it.
       letter  = (rxtx.re, rxtx.r, rxtx.we, clear rx event, pads.rx);  the generator loops pads.tx back to pads.rx
       outputs = (pads.tx, rxtx.w, txfull, txempty, rxempty, rxfull)"""

    def __init__(self, clk, baud, dtx=16, drx=16, rx_we=False, soc=None):
        from litex.soc.cores.uart import UART, UARTPHY, UARTPads
        top = Module()
        if soc is not None:          # (soc, pads): the PHY and the UART that SoC.add_uart built
            pads = soc[1]
            top.submodules.phy = phy = soc[0].uart_phy
            top.submodules.uart = core = soc[0].uart
        else:
            pads = UARTPads()
            top.submodules.phy = phy = UARTPHY(pads, clk, baud)
            top.submodules.uart = core = UART(phy, tx_fifo_depth=dtx, rx_fifo_depth=drx, rx_fifo_rx_we=rx_we)
        self.core, self.pads = core, pads
        tw = phy_tuning_word(clk, baud)
        self.bit = -(-int(clk) // int(baud))
        PInst.__init__(self, ("SoCMini.add_uart(%g Hz,%d baud,fifo_depth=%d)" % (clk, baud, dtx)) if soc is not None else
                       "UART(UARTPHY(%g Hz,%d baud),tx%d,rx%d%s)" % (clk, baud, dtx, drx, ",rx_we" if rx_we else ""), top,
                       "uartsys %d %d %d %d" % (tw, dtx, drx, 1 if rx_we else 0), None,
                       [pads.tx, core._rxtx.w, core._txfull.status, core._txempty.status, core._rxempty.status,
                        core._rxfull.status], None, None, lambda l, o: l[0] or not o[3] or not o[4],
                       qual=[None, (lambda a: a[4] == 0), None, None, None, None])
        self.monitor = lambda: UartSysMonitor(self.bit, rx_we, dtx, drx)

    def apply(self, letter):
        n, c = self.netlist, self.core
        re, r, we, clr, padrx = letter
        n.set(c._rxtx.re, re); n.set(c._rxtx.r, r); n.set(c._rxtx.we, we)
        n.set(c.ev.pending.re, clr); n.set(c.ev.pending.r, 3)
        n.set(self.pads.rx, padrx)
        n.settle()

    def sample(self):
        o = [self.netlist.getu(sig) for sig in self.outputs]
        self._tx, self._rxempty, self._txfull = o[0], o[4], o[2]
        return o

    def gen(self, rng, t):
        if t == 0:
            self._tx, self._rxempty, self._txfull = 1, 1, 0
        burst = (t // (40 * self.bit)) % 4               # sparse / burst / idle / burst while software does not read
        pw = (0.002, 0.3, 0.0, 0.3)[burst] if not self._txfull else 0.05
        re = 1 if rng.random() < pw else 0
        clr = 1 if (not self._rxempty and rng.random() < 0.2) else (1 if rng.random() < 0.01 else 0)
        if burst == 3:
            clr = 0
        return (re, rng.getrandbits(8), 1 if rng.random() < 0.05 else 0, clr, self._tx)


class RefTransmitter:
    """Bit-banging reference transmitter for RX stimuli: frames at `period` clock cycles per bit (a fraction),
    random gaps and phase; keeps the list of (byte, cycle of stop-bit end)."""
    def __init__(self, period_num, period_den=1):
        self.pn, self.pd = period_num, period_den
        self.queue = []          # line values still to play
        self.sent = []

    def frame_line(self, byte, offset_num=0):
        # line value in cycle c of the frame: bit floor((c*pd + offset)/pn)
        out = []
        c = 0
        fr = ideal_frame(byte)
        while True:
            b = (c * self.pd + offset_num) // self.pn
            if b > 9:
                break
            out.append(fr[b])
            c += 1
        return out


class UartRxMonitor:
    """Independent receiver check at pin level.

    Announced mode (mode-B generators call `announce(byte, first cycle, last cycle)` for every well-formed frame they put
    on the line, at the transmitter's own rate and phase): every such frame must produce exactly one source.valid with
    the right byte between its start and a few cycles after its end, and nothing is produced while the line idles.

    Unannounced mode (arbitrary pad sequences: exploration traces, replays): the monitor decodes the pad history itself:
      - a byte needs a start edge: some falling edge of the pad 9.5 bit periods (+0..8 cycles of latency) earlier;
      - a *clean* frame - line high for a full frame time before, then exactly the pad sequence of an ideal transmitter
        at the receiver's own tuning word (bit b in cycles floor-aligned to b*2^32/tw), at least 4 cycles per bit -
        must be received: one source.valid with that byte 9.5 bit periods (+0..8 cycles) after the start edge."""

    def __init__(self, latency, tw=None):
        self.pending = []        # (byte, earliest cycle, latest cycle)
        self.t = 0
        self.latency = latency
        self.clean = True        # announced stimulus so far consists of well-formed frames separated by idle line only
        self.announced = False
        self.tw = tw
        self.hist = []           # pad history
        self.valids = {}         # cycle -> data
        if tw:
            self.R = -(-10 * M32 // tw)                       # frame length in cycles
            self.c10 = -(-19 * (1 << 31) // tw)               # nominal cycle of the stop-bit sample
            self.shape = [r * tw // M32 for r in range(self.R)]

    def announce(self, byte, t_first, t_last):
        self.announced = True
        self.pending.append((byte, t_first, t_last))

    def _observe_announced(self, valid, data):
        msg = None
        if valid and self.clean:
            if not self.pending:
                msg = "byte 0x%02x produced without a frame on the line" % data
            else:
                byte, t0, t1 = self.pending.pop(0)
                if data != byte:
                    msg = "received 0x%02x, line carried 0x%02x" % (data, byte)
                elif not (t0 <= self.t <= t1 + self.latency):
                    msg = "byte 0x%02x produced in cycle %d, frame occupied cycles %d..%d" % (data, self.t, t0, t1)
        if msg is None and self.clean and self.pending and self.t > self.pending[0][2] + self.latency:
            msg = "frame with byte 0x%02x ended in cycle %d and nothing was received by cycle %d" % (
                self.pending[0][0], self.pending[0][2], self.t)
        return msg

    def _observe_decoding(self, valid, data):
        h, t = self.hist, self.t
        msg = None
        if valid:
            self.valids[t] = data
            lo, hi = t - self.c10 - 8, t - self.c10
            if not any(0 < ts < len(h) and h[ts - 1] == 1 and h[ts] == 0 for ts in range(max(lo, 1), hi + 1)):
                msg = "byte 0x%02x produced in cycle %d without a start edge 9.5 bit periods earlier" % (data, t)
        if msg is None and 4 * self.tw <= M32:
            ts = t - self.R - 8                               # a frame that started here is complete by now
            if ts >= self.R + 4 and h[ts] == 0 and all(v == 1 for v in h[ts - self.R - 4:ts]):
                fr = h[ts:ts + self.R]
                bits = [None] * 10
                ok = True
                for r, b in enumerate(self.shape):
                    if bits[b] is None:
                        bits[b] = fr[r]
                    elif bits[b] != fr[r]:
                        ok = False
                        break
                if ok and bits[0] == 0 and bits[9] == 1:
                    byte = sum(bits[1 + k] << k for k in range(8))
                    got = [(tt, d) for tt, d in self.valids.items() if ts + self.c10 <= tt <= ts + self.c10 + 8]
                    if len(got) != 1 or got[0][1] != byte:
                        msg = "clean frame with byte 0x%02x started in cycle %d; received %s" % (
                            byte, ts, ["0x%02x@%d" % (d, tt) for tt, d in got] or "nothing")
            for tt in [k for k in self.valids if k < t - 3 * self.R - 32]:
                del self.valids[tt]
        return msg

    def observe(self, letter, outs):
        valid, data = outs
        self.hist.append(letter[0])
        if self.announced or self.tw is None:
            msg = self._observe_announced(valid, data)
        else:
            msg = self._observe_decoding(valid, data)
        self.t += 1
        return msg


class UartRxInst(PInst):
    """letter = (pads.rx,), outputs = (source.valid, source.data qualified by valid).  Mode B stimulus: frames from a
    reference transmitter whose bit period differs from the receiver's by `ppm_num/ppm_den` (e.g. +-2 %), arbitrary
    gaps (>= 1 bit) and phases; plus an unannounced noisy tail regime for model comparison only."""

    def __init__(self, tw, mismatch=(1, 1), noise=False, name=None, phy=None):
        from litex.soc.cores.uart import RS232PHYRX, UARTPads, UARTPHY
        pads = UARTPads()
        if phy:                      # through the UARTPHY factory; the reference transmitter runs at exactly `baud`
            core = UARTPHY(pads, phy[0], phy[1])
            tw = phy_tuning_word(*phy)
            name = name or "UARTPHY(%g Hz,%d baud).rx" % phy
        else:
            core = RS232PHYRX(pads, tw)
        self.tw = tw
        self.phy = phy
        self.mismatch = mismatch
        self.noise = noise
        PInst.__init__(self, name or "RS232PHYRX(tw=0x%x%s%s)" % (
            tw, "" if mismatch == (1, 1) else ",tx rate x%d/%d" % mismatch, ",noise" if noise else ""), core,
            "uartrx %d" % tw, [pads.rx], [core.source.valid, core.source.data], [(0,), (1,)], None,
            lambda l, o: o[0] or not l[0], qual=[None, 0])
        self._line = []
        self._mon = None

    def monitor(self):
        self._mon = UartRxMonitor(latency=6, tw=self.tw)
        self._line = []
        self._t = 0
        return self._mon

    def gen(self, rng, t):
        if t == 0:
            self._line = [1] * 4
            self._t = 0
            if self._mon is None:
                self._mon = UartRxMonitor(latency=6, tw=self.tw)
        if not self._line:
            if self.noise and rng.random() < 0.3:
                n = rng.randint(1, 40)
                self._line = [rng.randint(0, 1) for _ in range(n)]
            else:
                # bit period of the transmitter in cycles, as a fraction: (2^32/tw) * num/den
                num, den = self.mismatch
                pn, pd = M32 * num, self.tw * den
                if self.phy:                            # exactly the requested baud rate (times the mismatch)
                    pn, pd = int(self.phy[0]) * num, int(self.phy[1]) * den
                byte = rng.getrandbits(8)
                off = rng.randrange(0, pd)              # sub-cycle phase of the transmitter
                tx = RefTransmitter(pn, pd)
                fl = tx.frame_line(byte, off)
                bitp = max(1, M32 // self.tw)
                gap = rng.choice([0, 1, 2, bitp // 2, bitp, 3 * bitp]) if rng.random() < 0.7 else rng.randint(0, 12 * bitp)
                self._line = fl + [1] * gap
                t0 = self._t
                if not self.noise:          # noisy stimulus: the monitor decodes the pad history itself
                    self._mon.announce(byte, t0, t0 + len(fl))
        v = self._line.pop(0)
        self._t += 1
        return (v,)


# ---------------------------------------------------------------------------------------------------------
# SPI master

class SpiMasterMonitor:
    """Pin-level SPI mode-0 decoder + cycle counter (independent of the model).  Armed for transfers with
    1 <= length <= data_width, cs = 1, constant divider >= 2, cs_mode = 0, started while done = 1:
      - pads.clk shows exactly `length` pulses, all while cs_n is low; cs_n is low from before the first rising edge
        until after the last falling edge and high again when done returns;
      - each pulse is high for div - div//2 cycles and the clock period is div cycles;
      - MOSI at rising edge i is bit (width-1-i | length-1-i) of the word given at start (raw | aligned);
      - the received word (low `length` bits, MSB first) equals the MISO values sampled in the cycle before each
        rising edge of the pad clock;
      - chip select is asserted at most div + 2 cycles after start (the divider's next fall strobe), done returns within
        (length + 2) * div + 2 cycles and irq pulses exactly once, in the last cycle;
      - chip selects (`ncs` lines): during a transfer exactly the lines selected in `cs` are low; outside transfers (automatic
        mode) every line is high; in manual mode (`cs_mode = 1`) cs_n is the registered complement of `cs`."""

    def __init__(self, dw, aligned, ncs=1):
        self.dw, self.aligned = dw, aligned
        self.mask = (1 << ncs) - 1
        self.idle_run = 0
        self.prev_ctl = None     # (cs, cs_mode) of the previous cycle
        self.x = None            # current transfer
        self.prev = None         # (clk, cs_n, mosi pad, miso pad) of the previous cycle
        self.check_miso = None
        self.div0 = None         # the divider must have been constant since reset (its counter compares with `==`)
        self.dead = False

    def observe(self, letter, outs):
        start, length, mosi, cs, csm, lb, div, miso_pad = letter
        clk, cs_n, mosi_pad, done, irq, miso = outs
        msg = None
        if self.div0 is None:
            self.div0 = div
        if div != self.div0:
            self.dead = True
        if self.dead:
            return None
        prev = self.prev
        mask = self.mask
        cs_vec = cs & mask
        pc = self.prev_ctl
        self.prev_ctl = (cs_vec, csm)
        if pc is not None and pc[1] and cs_n != (mask ^ pc[0]):
            return "manual CS mode: cs_n=0x%x, cs was 0x%x" % (cs_n, pc[0])
        if self.x is None:
            self.idle_run += 1
            if self.idle_run >= 2 and pc is not None and not pc[1] and cs_n != mask:
                return "cs_n=0x%x outside a transfer (automatic CS mode)" % cs_n
        else:
            self.idle_run = 0
        # from here on `cs_n` means "the selected lines are not (all and only) asserted"
        sel = self.x["cs"] if self.x is not None else cs_vec
        cs_n_raw, cs_n = cs_n, (0 if cs_n == (mask ^ sel) else 1)
        if prev is not None:
            prev = (prev[0], 0 if prev[1] == (mask ^ sel) else 1, prev[2], prev[3])
        self.prev = (clk, cs_n_raw, mosi_pad, miso_pad)
        if self.check_miso is not None:
            exp, n = self.check_miso
            self.check_miso = None
            if (miso & ((1 << n) - 1)) != exp:
                return "received word 0x%x (low %d bits), MISO carried 0x%x" % (miso & ((1 << n) - 1), n, exp)
        x = self.x
        if x is None:
            if clk:
                msg = "clock high outside a transfer"
            elif irq:
                msg = "irq outside a transfer"
            if start and msg is None:      # core is idle here (done was 1 unless start, which hides it)
                ok = (1 <= length <= self.dw) and cs_vec != 0 and not csm and div >= 2
                self.x = {"ok": ok, "len": length, "word": mosi, "div": div, "rises": 0, "falls": 0, "t": 0,
                          "bits": [], "high": 0, "lb": lb, "last_rise_t": None, "cs": cs_vec}
            return msg
        x["t"] += 1
        if not x["ok"] or cs_vec != x["cs"] or csm or div != x["div"] or lb != x["lb"] or length != x["len"]:
            x["ok"] = False          # registers changed during the transfer: outside the armed domain
        if x["ok"]:
            rising = prev is not None and clk and not prev[0]
            falling = prev is not None and (not clk) and prev[0]
            if rising:
                x["rises"] += 1
                i = x["rises"] - 1
                if cs_n or (prev is not None and prev[1]):
                    msg = "clock rising edge %d while cs_n is high" % i
                elif i >= x["len"]:
                    msg = "more than %d clock pulses" % x["len"]
                else:
                    pos = (x["len"] - 1 - i) if self.aligned else (self.dw - 1 - i)
                    exp = (x["word"] >> pos) & 1
                    if mosi_pad != exp or prev[2] != exp:
                        msg = "MOSI at rising edge %d is %d, expected bit %d of 0x%x = %d" % (i, mosi_pad, pos, x["word"], exp)
                    x["bits"].append(prev[2] if x["lb"] else prev[3])
                if x["last_rise_t"] is not None and msg is None and x["t"] - x["last_rise_t"] != x["div"]:
                    msg = "clock period %d cycles, divider %d" % (x["t"] - x["last_rise_t"], x["div"])
                x["last_rise_t"] = x["t"]
                x["high"] = 0
            if clk:
                x["high"] += 1
            if falling:
                x["falls"] += 1
                if cs_n:
                    msg = msg or "clock falling edge while cs_n is high"
                elif x["high"] != x["div"] - x["div"] // 2:
                    msg = msg or "clock high for %d cycles, expected %d" % (x["high"], x["div"] - x["div"] // 2)
            if msg is None and irq and not (x["falls"] == x["len"]):
                msg = "irq after %d of %d pulses" % (x["falls"], x["len"])
            if msg is None and not x.get("cs_seen"):
                if not cs_n:
                    x["cs_seen"] = True
                elif x["t"] > x["div"] + 2:
                    msg = "chip select not asserted %d cycles after start (divider %d): the transfer does not begin" % (
                        x["t"], x["div"])
            if msg is None and x["t"] > (x["len"] + 2) * x["div"] + 2:
                msg = "transfer of %d bits with divider %d not finished after %d cycles" % (x["len"], x["div"], x["t"])
        if done or (start and x["t"] > 1 and x.get("irq_seen")):
            # transfer over (done visible, or hidden by a new start right after the irq cycle)
            if x["ok"] and msg is None:
                if x["rises"] != x["len"] or x["falls"] != x["len"]:
                    msg = "%d rising / %d falling clock edges for length %d" % (x["rises"], x["falls"], x["len"])
                elif not x.get("irq_seen"):
                    msg = "done returned without an irq pulse"
                else:
                    exp = 0
                    for b in x["bits"]:
                        exp = (exp << 1) | b
                    if (miso & ((1 << x["len"]) - 1)) != exp:
                        msg = "received word 0x%x (low %d bits), MISO carried 0x%x" % (miso & ((1 << x["len"]) - 1), x["len"], exp)
            self.x = None
            if start and msg is None:
                ok = (1 <= length <= self.dw) and cs_vec != 0 and not csm and div >= 2
                self.x = {"ok": ok, "len": length, "word": mosi, "div": div, "rises": 0, "falls": 0, "t": 0,
                          "bits": [], "high": 0, "lb": lb, "last_rise_t": None, "cs": cs_vec}
            return msg
        if irq:
            if x.get("irq_seen") and x["ok"] and msg is None:
                msg = "second irq pulse"
            x["irq_seen"] = True
        return msg


class SpiMasterInst(PInst):
    """letter = (start, length, mosi, cs, cs_mode, loopback, clk_divider, pads.miso)
       outputs = (pads.clk, pads.cs_n, pads.mosi, done, irq, miso)
    Options: `ncs` chip selects (cs / cs_n are vectors); `csr=True` builds the core with its CSR glue (`add_csr`, and
    `add_clk_divider` unless `default_div`) and drives / observes the CSR-side signals (`_control.fields.*`, `_mosi.storage`,
    `_cs.fields.*`, `_loopback.fields.mode`, `_clk_divider.storage`; `_status.fields.done`, `_miso.status`);
    `default_div=(sys_clk_freq, spi_clk_freq)` leaves the divider at the value the constructor computes - the letters
    then carry ceil(sys/spi), computed here from the constructor arguments."""

    def __init__(self, dw, aligned, alphabet=None, divs=(2, 3, 4, 5), tag="", ncs=1, csr=False, default_div=None,
                 max_len=None, pstarts=None, manual=False):
        import math
        from litex.soc.cores.spi.spi_master import SPIMaster
        self.manual = manual                      # mode B: whole regimes in manual chip-select mode (bulk transfers)
        pads = Record([("clk", 1), ("cs_n", ncs), ("mosi", 1), ("miso", 1)])
        sysf, spif = default_div if default_div else (1e6, 1e6 / 4)
        core = SPIMaster(pads, dw, sysf, spif, with_csr=csr, mode="aligned" if aligned else "raw")
        self.dw, self.aligned, self.ncs = dw, aligned, ncs
        self.max_len, self.pstarts = max_len or dw, pstarts
        self.divs = [math.ceil(sysf / spif)] if default_div else list(divs)
        self._skip_div = bool(default_div)
        if csr:
            if not default_div:
                core.add_clk_divider()
            f = core._control.fields
            ins = [f.start, f.length, core._mosi.storage, core._cs.fields.sel, core._cs.fields.mode,
                   core._loopback.fields.mode, core.clk_divider if default_div else core._clk_divider.storage, pads.miso]
            outs = [pads.clk, pads.cs_n, pads.mosi, core._status.fields.done, core.irq, core._miso.status]
        else:
            ins = [core.start, core.length, core.mosi, core.cs, core.cs_mode, core.loopback, core.clk_divider, pads.miso]
            outs = [pads.clk, pads.cs_n, pads.mosi, core.done, core.irq, core.miso]
        PInst.__init__(self, "SPIMaster(%d,%s%s%s%s)%s" % (
            dw, "aligned" if aligned else "raw", ",ncs=%d" % ncs if ncs != 1 else "", ",with_csr" if csr else "",
            ",default divider %g/%g" % (sysf, spif) if default_div else "", tag), core,
            "spimastern %d %d %d" % (dw, 1 if aligned else 0, ncs), ins, outs, alphabet, None,
            lambda l, o: l[0] or not o[3] or o[0])
        self._st = None
        self._ins, self._outs = ins, outs         # custom apply: a default divider is left at its reset value

    def apply(self, letter):
        n = self.netlist
        for k, (sig, v) in enumerate(zip(self._ins, letter)):
            if k != 6 or not self._skip_div:
                n.set(sig, v)
        n.settle()

    def sample(self):
        o = [self.netlist.getu(sig) for sig in self._outs]
        self._done_out = o[3]
        return o

    def monitor(self):
        return SpiMasterMonitor(self.dw, self.aligned, self.ncs)

    def idle_letter(self, last):
        return (0,) + tuple(last[1:])

    def gen(self, rng, t):
        if t == 0:
            self._div = rng.choice(self.divs)
        if t == 0:
            self._done_out, self._due = 1, False
        if t % 997 == 0:
            self._due = True
        # disturbances (register changes while busy, CS glitches) are rare enough that most transfers, also the long
        # ones of large dividers, run undisturbed; a new regime starts only while the core is idle
        f = min(1.0, 100.0 / (self._div * (self.max_len + 2)))
        if t == 0 or self._st is None or (self._due and self._done_out):
            self._due = False
            div = self._div
            self._st = {"div": div, "lb": 1 if rng.random() < 0.3 else 0,
                        "pstart": rng.choice(self.pstarts or [1.0 / (3 * self.max_len * div), 0.2, 0.8]),
                        "sticky": rng.random() < 0.5,      # registers constant for the whole regime (overlapping starts)
                        "len": rng.randint(1, self.max_len), "word": rng.getrandbits(self.dw)}
            if self.manual:
                self._st["csm"] = 1 if rng.random() < 0.6 else 0
                self._st["lb"] = 1 if rng.random() < 0.5 else 0
        st = self._st
        start = 1 if rng.random() < st["pstart"] else 0
        # software writes new length / word with a start issued while the core is idle (rarely also while it is busy)
        if not st["sticky"] and ((start and self._done_out) or rng.random() < 0.002 * f):
            st["len"] = rng.randint(1, self.max_len) if rng.random() < 0.97 else rng.choice([0, self.dw + 1, 255])
            if self.max_len < self.dw:
                st["len"] = min(st["len"], self.max_len) or 1
            st["word"] = rng.getrandbits(self.dw)
        if "cs" not in st:
            st["cs"] = rng.randrange(1, 1 << self.ncs)
        cs = st["cs"] if rng.random() >= 0.002 * f else rng.randrange(0, 1 << self.ncs)
        csm = 1 if rng.random() < 0.002 * f else 0
        if self.manual:
            csm ^= st["csm"]
        return (start, st["len"], st["word"], cs, csm, st["lb"], st["div"], rng.randint(0, 1))


# ---------------------------------------------------------------------------------------------------------
# SPI slave

class SpiSlaveMonitor:
    """Reference slave at pin level for well-formed mode-0 frames.  A frame is *well-formed* (checked on the pad
    history, otherwise the frame is skipped): cs_n was high for at least 4 cycles before it, the clock is low when
    cs_n falls and for 3 cycles before cs_n rises, every clock level inside lasts at least 3 cycles, MOSI does not change
    within one cycle of a rising clock edge.  Then, after cs_n is released, the core pulses irq once within 6 cycles and
    reports length = number of rising clock edges inside the frame and (in the low min(length, width) bits) the
    received word = MOSI at those edges, MSB first.  MISO (no loopback, the word to send constant from the cs_n edge on, at
    least 3 cycles between the cs_n edge and the first clock edge): at rising clock edge k the pad carries bit width-1-k of
    the word to send (0 beyond the width).
    For ANY pad activity (well-formed or not, this slave selected or not): the received word is exactly the shift register
    of the MOSI values at the pad clock rising edges (clk 0 -> 1 between consecutive cycles) at which cs_n was low, seen
    three cycles later (two synchroniser registers + the capture register) - so the word presented after irq is the word
    of that transfer and stays unchanged while the slave is deselected, whatever the clock and MOSI do (foreign traffic
    on a shared bus)."""

    def __init__(self, dw):
        self.dw = dw
        self.ref = 0             # reference receive register
        self.pend = [None, None, None]   # captures on their way through the synchroniser: visible 3 cycles later
        self.hist = []           # pad history (clk, cs_n, mosi)
        self.frame = None
        self.expect = None
        self.high_run = 0        # consecutive cycles with cs_n high before now

    def observe(self, letter, outs):
        clk, cs_n, mosi, tx, lb = letter
        miso, start, length, done, irq, rx = outs
        msg = None
        h = self.hist
        h.append((clk, cs_n, mosi))
        t = len(h) - 1
        # exact reference of the received word, for any pad activity
        due = self.pend.pop(0)
        if due is not None:
            self.ref = ((self.ref << 1) | due) & ((1 << self.dw) - 1)
        prev_clk = h[-2][0] if t >= 1 else 0
        self.pend.append(mosi if (clk and not prev_clk and not cs_n) else None)
        if rx != self.ref:
            msg = "received word is 0x%x, the MOSI bits at the clock rising edges under chip select give 0x%x%s" % (
                rx, self.ref, " (this slave is deselected: cs_n high)" if cs_n else "")
        fr = self.frame
        if t >= 1:
            pc, pn, pm = h[-2]
            if pn and not cs_n:
                self.frame = fr = {"bits": [], "clean": self.high_run >= 4 and not clk and not pc, "lvl": 1, "t0": t,
                                   "tx": tx, "tx_ok": not lb}
            elif fr is not None and not cs_n:
                if lb or (t - fr["t0"] <= 3 and tx != fr["tx"]):
                    fr["tx_ok"] = False
                if clk != pc:
                    if fr["lvl"] < 3 and t - fr["t0"] > fr["lvl"]:
                        fr["clean"] = False
                    if fr["lvl"] < 3 and t - fr["t0"] <= fr["lvl"] and fr["lvl"] < 3:
                        fr["clean"] = False
                    fr["lvl"] = 1
                    if clk:
                        k = len(fr["bits"])
                        if fr["clean"] and fr["tx_ok"] and (k > 0 or t - fr["t0"] >= 3):
                            exp = (fr["tx"] >> (self.dw - 1 - k)) & 1 if k < self.dw else 0
                            if miso != exp:
                                msg = "MISO at rising edge %d is %d, expected bit %d of 0x%x = %d" % (
                                    k, miso, self.dw - 1 - k, fr["tx"], exp)
                        fr["bits"].append(mosi)
                        if pm != mosi:
                            fr["clean"] = False
                        fr["edge_t"] = t
                else:
                    fr["lvl"] += 1
                if fr.get("edge_t") == t - 1 and pm != mosi:
                    fr["clean"] = False
            elif fr is not None and cs_n and not pn:
                if clk or pc or fr["lvl"] < 3:
                    fr["clean"] = False
                if fr["clean"]:
                    self.expect = (t + 6, list(fr["bits"]))
                self.frame = None
        self.high_run = self.high_run + 1 if cs_n else 0
        if irq and self.expect is not None:
            deadline, bits = self.expect
            self.expect = None
            nb = min(len(bits), self.dw)            # bits above the transfer length keep older data
            mask = (1 << nb) - 1
            word = 0
            for b in bits:
                word = ((word << 1) | b) & mask
            if length != len(bits) % 256:
                msg = "length=%d, the frame had %d rising clock edges" % (length, len(bits))
            elif (rx & mask) != word:
                msg = "received 0x%x (low %d bits), MOSI carried 0x%x" % (rx & mask, nb, word)
        elif self.expect is not None and t > self.expect[0]:
            msg = "no irq within 6 cycles after cs_n was released"
            self.expect = None
        elif self.expect is not None and not cs_n:
            self.expect = None                      # next frame began before the irq window closed: not well-formed
        return msg


class SpiSlaveInst(PInst):
    """letter = (pads.clk, pads.cs_n, pads.mosi, miso (word to send), loopback)
       outputs = (pads.miso, start, length, done, irq, mosi (word received))"""

    def __init__(self, dw, alphabet=None, wellformed=True, long_frames=False):
        from litex.soc.cores.spi.spi_slave import SPISlave
        self.long_frames = long_frames
        pads = Record(SPISlave.pads_layout)
        core = SPISlave(pads, dw)
        self.dw = dw
        self.wellformed = wellformed
        PInst.__init__(self, "SPISlave(%d)%s%s" % (dw, "" if wellformed else "/random pins",
                                                   "/frames up to 300 bits" if long_frames else ""), core, "spislave %d" % dw,
                       [pads.clk, pads.cs_n, pads.mosi, core.miso, core.loopback],
                       [pads.miso, core.start, core.length, core.done, core.irq, core.mosi], alphabet, None,
                       lambda l, o: (not l[1]) or o[4])
        self._script = []
        self.monitor = lambda: SpiSlaveMonitor(dw)        # skips frames that are not well-formed on the pads

    def gen(self, rng, t):
        if t == 0:
            self._script = [(0, 1, 0)] * 4
            self._tx = 0
        if not self.wellformed:
            return (rng.randint(0, 1), 1 if rng.random() < 0.1 else 0, rng.randint(0, 1), rng.getrandbits(self.dw),
                    1 if rng.random() < 0.1 else 0)
        if not self._script:
            n = rng.randint(1, self.dw) if rng.random() < 0.9 else rng.randint(0, 2 * self.dw)
            if self.long_frames and rng.random() < 0.5:
                n = rng.choice([255, 256, 257, rng.randint(200, 300)])
            half = rng.choice([3, 3, 4, 7])
            word = rng.getrandbits(max(n, 1))
            s = [(0, 0, 0)] * rng.randint(3, 6)
            for k in range(n):
                b = (word >> (n - 1 - k)) & 1
                s += [(0, 0, b)] * half + [(1, 0, b)] * half
            s += [(0, 0, 0)] * rng.randint(3, 6)
            s += [(0, 1, 0)] * rng.randint(4, 12)
            if rng.random() < 0.6:
                # shared bus: traffic to another slave while this one is deselected (clock and MOSI keep toggling with
                # cs_n high), then the bus is quiet again before the next frame
                fh = rng.choice([1, 2, 3, 5])
                for k in range(rng.randint(1, 2 * self.dw + 3)):
                    b = rng.randint(0, 1)
                    s += [(0, 1, b)] * fh + [(1, 1, b)] * fh
                s += [(0, 1, 0)] * rng.randint(4, 8)
            self._script = s
            self._tx = rng.getrandbits(self.dw)
        clk, csn, mosi = self._script.pop(0)
        return (clk, csn, mosi, self._tx, 0)


# ---------------------------------------------------------------------------------------------------------
# I2C master machine

I2C_STATES = ["IDLE", "START0", "RESTART0", "RESTART1", "STOP0", "STOP1", "STOP2", "WRITE0", "WRITE1", "READACK0",
              "READACK1", "READ0", "READ1", "READ2", "WRITEACK0", "WRITEACK1"]


class I2cByteDecoder:
    """Pin-level decoder of one I2C byte transfer, nine SCL pulses (independent of the model).  `step` is fed, per cycle,
    the SCL level, whether the master is seen driving SDA low (None = not observable), and the SDA line value.
      READ : during the SCL-high phase of the eight data bits the master's driver is released (the slave owns the line);
             the byte returned is, MSB first, the line value of each data bit; during the ninth pulse the master drives
             low iff it was told to acknowledge;
      WRITE: during the SCL-high phase of data bit k the master drives low iff bit 7-k of the byte is 0; during the ninth
             pulse it releases SDA, and the acknowledge it reports is the complement of the line value there.
    Values are judged only when the line was constant during the whole SCL-high phase and nothing disturbed the
    transfer (register pokes / bus writes in between)."""

    def __init__(self):
        self.active = False

    def start(self, kind="read", byte=0, ack=0, scl=0):
        self.active, self.clean, self.bits, self.high, self.pscl = True, True, [], [], scl
        self.kind, self.byte, self.ack, self.wait_low = kind, byte, ack, bool(scl)

    def abort(self):
        self.active = False

    def step(self, scl, drives_low, line, disturbed):
        """-> (msg, event): event = ("data", byte) when the eighth bit of a READ completed cleanly,
                                    ("ack", line value) when the ninth pulse of a WRITE completed cleanly"""
        if not self.active:
            return None, None
        msg, ev = None, None
        if disturbed:
            self.clean = False
        if self.wait_low:                                # WRITE accepted with SCL still high (after START)
            if not scl:
                self.wait_low = False
            self.pscl = scl
            return None, None
        k = len(self.bits)
        if scl:
            if drives_low is not None and self.clean:
                if self.kind == "read":
                    want = bool(self.ack) if k == 8 else False
                    what = "the ACK bit (ack=%d)" % self.ack if k == 8 else "data bit %d" % k
                else:
                    want = False if k == 8 else not ((self.byte >> (7 - k)) & 1)
                    what = "the ACK bit" if k == 8 else "data bit %d (byte 0x%02x)" % (k, self.byte)
                if bool(drives_low) != want:
                    msg = "master %s SDA low during %s of a %s" % ("drives" if drives_low else "does not drive", what,
                                                                  self.kind.upper())
            self.high.append(line)
        elif self.pscl:                                  # falling edge: the bit is over
            const = len(set(self.high)) == 1
            if not const:
                self.clean = False
            self.bits.append(self.high[0] if self.high else 0)
            self.high = []
            if len(self.bits) == 8 and self.kind == "read" and self.clean:
                v = 0
                for b in self.bits:
                    v = (v << 1) | b
                ev = ("data", v)
            if len(self.bits) == 9:
                self.active = False
                if self.kind == "write" and self.clean:
                    ev = ("ack", self.bits[8])
        self.pscl = scl
        return msg, ev


I2cReadDecoder = I2cByteDecoder


class I2cMonitor:
    """Pin-level I2C legality + liveness on the machine's scl_o / sda_o (independent of the model):
       - SDA changes while SCL is high before and after only as START (falling) or STOP (rising), and only when a
         start/stop was requested since the last idle;
       - SCL and SDA change in the same cycle only when SCL falls (the pad stage of I2CMaster then delays SDA);
       - after the last command strobe the machine reports idle again within MAXTICKS clk2x periods
         (write 19, read 18, restart 3, stop 3 ticks after the command step; one period = load + 1 cycles);
       - READ (accepted in idle with SCL low): sda_o stays released during the eight data bits and the `data` register
         then holds the sampled SDA values MSB first (`I2cReadDecoder`)."""
    MAXTICKS = 20

    def __init__(self, load):
        self.rd = I2cReadDecoder()
        self.t = 0
        self.last_scl_change = None      # cycle of the last SCL change while continuously busy
        self.prev_idle = 0
        self.prev = None
        self.since_cmd = None
        self.load = load
        self.req_start = False
        self.req_stop = False

    def observe(self, letter, outs):
        st, sp, wr, rd, sda_i, load, poke, pd, pa = letter
        scl, sda, idle, data, ack = outs
        msg = None
        run = st or sp or wr or rd
        if st:
            self.req_start = True
        if sp:
            self.req_stop = True
        if self.prev is not None:
            pscl, psda = self.prev
            if psda != sda and pscl and scl:
                if sda == 0 and not self.req_start:
                    msg = "START condition on the bus without a start command"
                elif sda == 1 and not self.req_stop:
                    msg = "STOP condition on the bus without a stop command"
            if psda != sda and pscl != scl and scl:
                msg = "SCL rises and SDA changes in the same cycle"
        # SCL timing: while the machine stays busy its steps are clk2x ticks, load + 1 cycles apart
        if self.prev is not None and self.prev[0] != scl:
            if msg is None and self.last_scl_change is not None and load == self.load and \
                    (self.t - self.last_scl_change) % (self.load + 1) != 0:
                msg = "SCL changed %d cycles after its previous change, divider period is %d" % (
                    self.t - self.last_scl_change, self.load + 1)
            self.last_scl_change = self.t
        if idle or load != self.load:
            self.last_scl_change = None
        self.t += 1
        self.prev = (scl, sda)
        # READ decoding: the strobe is accepted when the machine showed idle in the previous cycle
        if self.rd.active:
            m2, ev = self.rd.step(scl, sda == 0, sda_i, bool(poke))
            if msg is None and m2:
                msg = m2
            if msg is None and ev is not None and not poke:
                if ev[0] == "data" and data != ev[1]:
                    msg = "READ returned 0x%02x, SDA carried 0x%02x" % (data, ev[1])
                elif ev[0] == "ack" and ack != 1 - ev[1]:
                    msg = "WRITE reports ack=%d, SDA was %d during the acknowledge clock" % (ack, ev[1])
        if self.prev_idle and wr and not st:
            self.rd.start("write", byte=data, scl=scl)
        elif self.prev_idle and rd and not st and not scl:
            self.rd.start("read", ack=ack)
        elif self.prev_idle and run:
            self.rd.abort()
        self.prev_idle = idle
        if run:
            self.since_cmd = 0
        elif idle:
            self.since_cmd = None
            self.req_start = self.req_stop = False
        elif self.since_cmd is not None:
            self.since_cmd += 1
            if msg is None and self.since_cmd > (self.MAXTICKS + 1) * (self.load + 1):
                msg = "not idle %d cycles after the last command (load=%d)" % (self.since_cmd, self.load)
        return msg


class I2cInst(PInst):
    """letter = (start, stop, write, read, sda_i, load, poke, data, ack); `poke` overwrites the machine's data/ack
    registers at the beginning of the cycle (what a bus write of I2CMaster does one edge earlier).
       outputs = (scl_o, sda_o, idle, data, ack)"""

    def __init__(self, cw, load, alphabet=None, tag=""):
        from litex.soc.cores.i2c import I2CMasterMachine
        core = I2CMasterMachine(cw)
        self.core = core
        self.load = load
        self.cw = cw
        PInst.__init__(self, "I2CMasterMachine(clock_width=%d,load=%d)%s" % (cw, load, tag), core, "i2c %d" % cw,
                       None, None, alphabet, None, lambda l, o: any(l[:4]) or not o[2])
        self.inputs = self.outputs = None
        self.qual = [None] * 5
        self.monitor = lambda: I2cMonitor(load)

    def apply(self, letter):
        n, c = self.netlist, self.core
        st, sp, wr, rd, sda_i, load, poke, pd, pa = letter
        n.set(c.start, st)
        n.set(c.stop, sp)
        n.set(c.write, wr)
        n.set(c.read, rd)
        n.set(c.sda_i, sda_i)
        n.set(c.cg.load, load)
        if poke:
            n.set(c.data, pd)
            n.set(c.ack, pa)
        n.settle()

    def idle_letter(self, last):
        return (0, 0, 0, 0, 1, self.load, 0, 0, 0)

    def sample(self):
        n, c = self.netlist, self.core
        o = [n.getu(c.scl_o), n.getu(c.sda_o), n.getu(c.idle), n.getu(c.data), n.getu(c.ack)]
        self._scl_out, self._idle_out = o[0], o[2]
        return o

    def probe_extensions(self, last):
        """Scripted continuations for the failing-input search: let the machine idle, READ with ACK, READ again."""
        k = 22 * (self.load + 1) + 4
        idle = (0, 0, 0, 0, 1, self.load, 0, 0, 0)
        rd = lambda a: (0, 0, 0, 1, 1, self.load, 1, 0, a)
        wr = (0, 0, 1, 0, 1, self.load, 1, 0xa5, 0)
        return [[idle] * k + [rd(1)] + [idle] * k + [rd(1)] + [idle] * k + [rd(0)] + [idle] * k,
                [idle] * k + [wr] + [idle] * k + [rd(1)] + [idle] * k + [rd(0)] + [idle] * k]

    def gen(self, rng, t):
        if t == 0:
            self._q, self._sda, self._idle_out, self._scl_out = [], 1, 1, 1
        # the "slave": changes SDA while SCL is low (occasionally also while high, for the model comparison)
        if (not self._scl_out and rng.random() < 0.5) or rng.random() < 0.02:
            self._sda = rng.randint(0, 1)
        cmd = [0, 0, 0, 0]
        poke, pd, pa = 0, 0, 0
        if (t // 500) % 4 == 3:
            # chaotic regime: strobes and pokes at any time, also while busy
            if rng.random() < 0.1:
                if rng.random() < 0.8:
                    cmd[rng.randrange(4)] = 1
                else:
                    cmd = [rng.randint(0, 1) for _ in range(4)]
                if cmd[2] or rng.random() < 0.3:
                    poke, pd, pa = 1, rng.getrandbits(8), rng.randint(0, 1)
            return tuple(cmd) + (rng.randint(0, 1), self.load, poke, pd, pa)
        if not self._q:
            S, P, W, R = (1, 0, 0, 0), (0, 1, 0, 0), (0, 0, 1, 0), (0, 0, 0, 1)
            r = rng.random()
            if r < 0.45:      # addressed multi-byte read: READ with ACK immediately followed by READ
                self._q = [(S, None), (W, rng.getrandbits(8) | 1)] + [(R, 1)] * rng.randint(1, 3) + [(R, 0), (P, None)]
            elif r < 0.8:
                self._q = [(S, None), (W, rng.getrandbits(8)), (W, rng.getrandbits(8)), (P, None)]
            else:
                self._q = [(rng.choice([S, P, W, R, (1, 0, 1, 0), (0, 1, 0, 1)]), rng.getrandbits(8))]
        if self._idle_out and rng.random() < 0.5:
            c, arg = self._q.pop(0)
            cmd = list(c)
            if c[2] and arg is not None:
                poke, pd, pa = 1, arg, 0
            elif c[3] and arg is not None:
                poke, pd, pa = 1, rng.getrandbits(8), arg
        return tuple(cmd) + (self._sda, self.load, poke, pd, pa)


# ---------------------------------------------------------------------------------------------------------
# I2CMaster: Wishbone registers + machine + pad stage (open-drain pads simulated by a special override)

class OpenDrainSim:
    """Simulation stand-in for `Tristate` on an open-drain line: pad = oe ? o : ext, i = pad; `ext` (reset 1) is
    what the rest of the bus puts on the line and is driven by the harness."""
    ext = {}

    @staticmethod
    def lower(dr):
        m = Module()
        e = Signal(reset=1)
        OpenDrainSim.ext[id(dr.target)] = e
        from migen import Mux
        m.comb += dr.target.eq(Mux(dr.oe, dr.o, e))
        if dr.i is not None:
            m.comb += dr.i.eq(dr.target)
        return m


I2C_W, I2C_R, I2C_S, I2C_P = 1 << 10, 1 << 9, 1 << 11, 1 << 12


class I2cPadMonitor:
    """I2C bus legality at the pads (independent of the model): with `prev`/`cur` the pad values of two consecutive
    cycles, SDA may change only while SCL is low in both, except for a START (SDA falling, SCL high) or STOP (SDA
    rising, SCL high) that software requested (start/stop bit written to the transfer register and not yet seen on
    the bus; clock stretching may defer it past the return to idle).  Only transitions caused by the master are judged: cycles in which the external drive of the harness changed
    are skipped.  Liveness: idle returns within 21 clk2x periods after the last command write.
    READ / WRITE (written while idle, divider >= 1, no clock stretching during it): decoded by `I2cByteDecoder` - data
    bits MSB first in both directions, driver released in the slots the slave owns, acknowledge driven / reported."""

    def __init__(self):
        self.rd = I2cReadDecoder()
        self.t = 0
        self.last_scl_change = None  # cycle of the last SCL pad change while busy, unstretched, divider unchanged
        self.expect = None           # byte that bus.dat_r must show in the next cycle
        self.prev_adr0 = 1
        self.prev = None
        self.req_start = self.req_stop = False
        self.since = None
        self.load = 0

    def observe(self, letter, outs):
        cyc, stb, we, adr0, dat, escl, esda = letter
        scl, sda, back, datr, idle = outs
        msg = None
        p = self.prev
        if p is not None:
            pscl, psda, pescl, pesda = p
            if psda != sda and pesda == esda and pescl == escl and (pscl or scl):
                if pscl and scl and sda == 0 and self.req_start:
                    self.req_start = False            # the requested START (possibly deferred by clock stretching)
                elif pscl and scl and sda == 1 and self.req_stop:
                    self.req_stop = False
                else:
                    msg = "SDA %d->%d while SCL %d->%d (no %s requested)" % (
                        psda, sda, pscl, scl, "start" if sda == 0 else "stop")
        if p is not None and p[0] != scl and escl and p[2]:
            if msg is None and self.last_scl_change is not None and (self.t - self.last_scl_change) % (self.load + 1) != 0:
                msg = "SCL changed %d cycles after its previous change, divider period is %d" % (
                    self.t - self.last_scl_change, self.load + 1)
            self.last_scl_change = self.t
        if idle or not escl or (cyc and stb and we and adr0):
            self.last_scl_change = None
        self.t += 1
        self.prev = (scl, sda, escl, esda)
        wr_x = bool(cyc and stb and we and not back and not adr0)
        if self.expect is not None:
            kind, val = self.expect
            if msg is None and not self.prev_adr0:
                if kind == "data" and (datr & 0xff) != val:
                    msg = "READ returned 0x%02x, SDA carried 0x%02x" % (datr & 0xff, val)
                elif kind == "ack" and ((datr >> 8) & 1) != 1 - val:
                    msg = "WRITE reports ack=%d, SDA was %d during the acknowledge clock" % ((datr >> 8) & 1, val)
            self.expect = None
        if self.rd.active:
            if not escl:
                self.rd.abort()                       # clock stretching: not judged
            else:
                m2, ev = self.rd.step(scl, (sda == 0) if esda == 1 else None, sda, wr_x)
                if msg is None and m2:
                    msg = m2
                if ev is not None and not wr_x:
                    self.expect = ev
        if wr_x and idle:
            if (dat & I2C_W) and not (dat & I2C_S) and escl and self.load >= 1:
                self.rd.start("write", byte=dat & 0xff, scl=scl)
            elif (dat & I2C_R) and not (dat & (I2C_W | I2C_S)) and not scl and escl and self.load >= 1:
                self.rd.start("read", ack=(dat >> 8) & 1)
            elif dat & (I2C_S | I2C_P | I2C_W | I2C_R):
                self.rd.abort()
        self.prev_adr0 = adr0
        if cyc and stb and we and not back:
            if adr0:
                self.load = dat & 0xfffff
            else:
                if dat & I2C_S:
                    self.req_start = True
                if dat & I2C_P:
                    self.req_stop = True
                if dat & (I2C_S | I2C_P | I2C_W | I2C_R):
                    self.since = 0
        elif idle and self.since is not None and self.since > 1:
            self.since = None
        elif self.since is not None:
            self.since += 1
            if msg is None and self.since > 22 * (self.load + 1) + 4:
                msg = "not idle %d cycles after the last command write (load=%d)" % (self.since, self.load)
        return msg


class I2cMasterInst(PInst):
    """letter = (bus.cyc, bus.stb, bus.we, bus.adr[0], bus.dat_w, ext_scl, ext_sda)
       outputs = (pads.scl, pads.sda, bus.ack, bus.dat_r, i2c.idle)
    `overlap`: probability that the software model writes a command without waiting for idle."""

    def __init__(self, load=3, overlap=0.0, stretch=0.0, alphabet=None, tag=""):
        from migen.fhdl.specials import Tristate
        from litex.soc.cores.i2c import I2CMaster
        pads = Record([("scl", 1), ("sda", 1)])
        core = I2CMaster(pads)
        self.core, self.pads = core, pads
        self.name = "I2CMaster(load=%d%s%s)%s" % (load, ",overlapping writes" if overlap else "",
                                                  ",clock stretching" if stretch else "", tag)
        self.module = core
        self.lean_open = "i2cmaster"
        OpenDrainSim.ext = {}
        self.netlist = Netlist(core, special_overrides={Tristate: OpenDrainSim})
        self.escl, self.esda = OpenDrainSim.ext[id(pads.scl)], OpenDrainSim.ext[id(pads.sda)]
        b = core.bus
        self.inputs = None
        self.outputs = None
        self.qual = [None] * 5
        self.alphabet = alphabet
        self.load, self.overlap, self.stretch = load, overlap, stretch
        self.monitor = I2cPadMonitor
        self._bus = b

    def apply(self, letter):
        n, b = self.netlist, self._bus
        cyc, stb, we, adr0, dat, escl, esda = letter
        n.set(b.cyc, cyc); n.set(b.stb, stb); n.set(b.we, we); n.set(b.adr, adr0); n.set(b.dat_w, dat)
        n.set(self.escl, escl); n.set(self.esda, esda)
        n.settle()
        self._idle = n.getu(self.core.i2c.idle)

    def sample(self):
        n = self.netlist
        o = [n.getu(self.pads.scl), n.getu(self.pads.sda), n.getu(self._bus.ack), n.getu(self._bus.dat_r),
             n.getu(self.core.i2c.idle)]
        self._pscl = o[0]
        return o

    def probe_extensions(self, last):
        """Scripted continuations for the failing-input search: program the divider, START, address, READ with ACK,
        READ again, STOP - every command after the core went idle."""
        ld = max(self.load, 1)
        k = 22 * (ld + 1) + 6
        idle = (0, 0, 0, 0, 0, 1, 1)
        w = lambda adr0, dat: [(1, 1, 1, adr0, dat, 1, 1), (1, 1, 1, adr0, dat, 1, 1)]
        seq = [idle] * k + w(1, ld)
        for dat in (I2C_S, I2C_W | 0xa1, I2C_R | 256, I2C_R | 256, I2C_R, I2C_P):
            seq += w(0, dat) + [idle] * k
        return [seq]

    def nontrivial(self, letter, outs):
        return bool((letter[0] and letter[1]) or not outs[4])

    def idle_letter(self, last):
        return (0, 0, 0, 0, 0, 1, 1)

    def gen(self, rng, t):
        if t == 0:
            self._q = [(1, self.load)]            # software: program the divider first
            self._idle = 1
            self._wait = 0
            self._hold = None
            self._pscl, self._esda = 1, 1
        escl = 0 if (self.stretch and rng.random() < self.stretch) else 1
        # the "slave" changes SDA while SCL is low (occasionally also while high, for the model comparison)
        if (not self._pscl and rng.random() < 0.5) or rng.random() < 0.02:
            self._esda = rng.randint(0, 1)
        esda = self._esda
        if self._hold is not None:                # second cycle of a classic Wishbone write (ack cycle)
            l = self._hold
            self._hold = None
            return l[:5] + (escl, esda)
        if self._wait > 0:
            self._wait -= 1
            return (0, 0, 0, 0, 0, escl, esda)
        if not self._q:
            r = rng.random()
            if r < 0.5:
                byte = rng.getrandbits(8)
                self._q = [(0, I2C_S), (0, I2C_W | byte), (0, I2C_W | rng.getrandbits(8)), (0, I2C_P)]
            elif r < 0.8:
                # addressed multi-byte read: READ with ACK immediately followed by READ
                self._q = [(0, I2C_S), (0, I2C_W | rng.getrandbits(8)), (0, I2C_S), (0, I2C_W | 1 | rng.getrandbits(8))] + \
                          [(0, I2C_R | 256)] * rng.randint(1, 3) + [(0, I2C_R), (0, I2C_P)]
            elif r < 0.9:
                self._q = [(0, rng.choice([I2C_P, I2C_S, I2C_R, I2C_W | 0xa5, I2C_S | I2C_W | 0x3c, I2C_W | I2C_P]))]
            else:
                self._q = [(1, self.load)]
        ready = self._idle or rng.random() < self.overlap
        if ready and rng.random() < 0.6:
            adr0, dat = self._q.pop(0)
            l = (1, 1, 1, adr0, dat, escl, esda)
            self._hold = l
            self._wait = rng.choice([0, 0, 1, 3])
            return l
        if rng.random() < 0.1:                   # a polling read
            return (1, 1, 0, rng.randint(0, 1), 0, escl, esda)
        return (0, 0, 0, 0, 0, escl, esda)


def mk_soc_uart(clk=2e6, baud=250000, depth=4):
    soc, pads, _ = soc_parts(clk, baud, depth)
    return UartSysInst(clk, baud, depth, depth, soc=(soc, pads))


def mk_soc_timer():
    soc, _, _ = soc_parts()
    return mk_timer(32, core=soc.timer0, name="SoCMini.add_timer()")          # Timer() default width


def mk_soc_watchdog(width=12, delay=5):
    soc, _, rst = soc_parts(wd_width=width, wd_delay=delay)
    return mk_watchdog(width, delay, with_halted=False, core=soc.watchdog0, crg=rst,
                       name="SoCMini.add_watchdog(width=%d,reset_delay=%d)" % (width, delay))


# ---------------------------------------------------------------------------------------------------------
# bitbang.py: software-driven I2C / SPI masters (stateless: pads are functions of the `w` fields and the bus)

class BbI2cMonitor:
    """Open-drain wiring: a pad is low iff the core or the rest of the bus pulls it low; the core pulls SCL low iff
    w.scl = 0 and SDA low iff w.oe & ~w.sda; r.sda reads the SDA pad."""
    def observe(self, letter, outs):
        scl, oe, sda, escl, esda = letter
        exp = (1 if (scl and escl) else 0, 0 if ((oe and not sda) or not esda) else 1)
        if (outs[0], outs[1]) != exp or outs[2] != outs[1]:
            return "pads (scl, sda, r.sda) = %r for w = (scl %d, oe %d, sda %d), bus = (%d, %d); expected %r" % (
                tuple(outs), scl, oe, sda, escl, esda, exp + (exp[1],))
        return None


class BbI2cSimMonitor:
    def observe(self, letter, outs):
        scl, oe, sda, sin = letter
        exp = (scl, sda if oe else 1, sda if oe else sin)
        return None if tuple(outs) == exp else "pads (scl, sda_out, r.sda) = %r, expected %r" % (tuple(outs), exp)


class BbSpiMonitor:
    def __init__(self, ncs):
        self.ncs = ncs

    def observe(self, letter, outs):
        clk, mosi, oe, cs, emosi, miso = letter
        pad = mosi if oe else emosi
        exp = (clk, (~cs) & ((1 << self.ncs) - 1), pad, miso, pad)
        return None if tuple(outs) == exp else "pads (clk, cs_n, mosi, r.miso, r.mosi) = %r, expected %r" % (tuple(outs), exp)


class _BbInst(PInst):
    """Bit-banged cores: Tristate replaced by the open-drain/3-state stand-in (pad = oe ? o : ext)."""
    def __init__(self, name, core, lean_open, inputs, outputs, alphabet, monitor, ext_of=()):
        from migen.fhdl.specials import Tristate
        self.name, self.module, self.lean_open = name, core, lean_open
        OpenDrainSim.ext = {}
        self.netlist = Netlist(core, special_overrides={Tristate: OpenDrainSim})
        self.inputs = list(inputs) + [OpenDrainSim.ext[id(p)] for p in ext_of]
        self.outputs = list(outputs)
        self.qual = [None] * len(self.outputs)
        self.alphabet = alphabet
        self.monitor = monitor
        self._gen = lambda rng, t: rng.choice(alphabet)
        self._nontrivial = lambda l, o: True


def mk_bb_i2c(sim=False):
    from litex.soc.cores import bitbang
    if sim:
        pads = Record(bitbang.I2CMasterSim.pads_layout)
        core = bitbang.I2CMasterSim(pads)
        f = core._w.fields
        inst = _BbInst("bitbang.I2CMasterSim", core, "bbi2csim", [f.scl, f.oe, f.sda, pads.sda_in],
                       [pads.scl, pads.sda_out, core._r.fields.sda], prod((0, 1), (0, 1), (0, 1), (0, 1)), BbI2cSimMonitor)
        return inst
    pads = Record(bitbang.I2CMaster.pads_layout)
    core = bitbang.I2CMaster(pads)
    f = core._w.fields
    return _BbInst("bitbang.I2CMaster", core, "bbi2c", [f.scl, f.oe, f.sda], [pads.scl, pads.sda, core._r.fields.sda],
                   prod((0, 1), (0, 1), (0, 1), (0, 1), (0, 1)), BbI2cMonitor, ext_of=(pads.scl, pads.sda))


def mk_bb_spi(ncs=4):
    from litex.soc.cores import bitbang
    pads = Record([("clk", 1), ("cs_n", ncs), ("mosi", 1), ("miso", 1)])
    core = bitbang.SPIMaster(pads)
    f = core._w.fields
    inst = _BbInst("bitbang.SPIMaster(ncs=%d)" % ncs, core, "bbspi %d" % ncs, [f.clk, f.mosi, f.oe, f.cs],
                   [pads.clk, pads.cs_n, pads.mosi, core._r.fields.miso, core._r.fields.mosi],
                   prod((0, 1), (0, 1), (0, 1), tuple(range(16)), (0, 1), (0, 1)), lambda: BbSpiMonitor(ncs),
                   ext_of=(pads.mosi,))
    inst.inputs = inst.inputs + [pads.miso]
    return inst


# ---------------------------------------------------------------------------------------------------------
# SPIMaster and SPISlave wired pad to pad (one clock)

class SpiLinkTop(Module):
    def __init__(self, dw, aligned, dws):
        from litex.soc.cores.spi.spi_master import SPIMaster
        from litex.soc.cores.spi.spi_slave import SPISlave
        mp = Record([("clk", 1), ("cs_n", 1), ("mosi", 1), ("miso", 1)])
        sp = Record([("clk", 1), ("cs_n", 1), ("mosi", 1), ("miso", 1)])
        self.submodules.master = SPIMaster(mp, dw, 1e6, 1e6 / 4, with_csr=False, mode="aligned" if aligned else "raw")
        self.submodules.slave = SPISlave(sp, dws)
        self.comb += [sp.clk.eq(mp.clk), sp.cs_n.eq(mp.cs_n), sp.mosi.eq(mp.mosi), mp.miso.eq(sp.miso)]
        self.mp, self.sp = mp, sp


class SpiLinkMonitor:
    """End-to-end scoreboard over both cores (only their software-visible ports): for a transfer started while the
    master reported `done`, with cs selected in automatic mode, no loopback and registers held until it finishes:
    the slave raises irq once, reports `length` = the master's length, and the low `length` bits of its received word
    are the bits the master was told to send (MSB first; raw mode sends the top bits of the word); with divider >= 8
    the master's received word is the top `length` bits of the word the slave was told to send."""

    def __init__(self, dw, aligned, dws):
        self.dw, self.aligned, self.dws = dw, aligned, dws
        self.cur = None
        self.prev_done = 1
        self.checks = 0
        self.csn_high = 0        # consecutive cycles with the master's cs_n pad high (slave idle: spi_link_slave_idle)
        self.t = 0               # pads.cs_n resets to 0: the slave sees a one-cycle frame right after reset (ignored)

    def observe(self, letter, outs):
        start, ln, word, cs, csm, lb, div, tx = letter
        clk, csn, mosi, done, irq, miso, s_miso, s_start, s_len, s_done, s_irq, s_rx = outs
        msg = None
        self.t += 1
        c = self.cur
        if c is not None:
            if (ln, word & ((1 << self.dw) - 1), cs, csm, lb, div) != c["held"] or (start and not c["fresh"]):
                c["clean"] = False
            c["fresh"] = False
            if s_start:
                c["tx"] = tx & ((1 << self.dws) - 1)
                c["starts"] += 1
            if done and not self.prev_done and not c["master_done"]:
                c["master_done"] = True
                if c["clean"] and c["div"] >= 8 and c["len"] <= self.dws and c["tx"] is not None and c["starts"] == 1:
                    L = c["len"]
                    exp = (c["tx"] >> (self.dws - L)) & ((1 << L) - 1)
                    self.checks += 1
                    if (miso & ((1 << L) - 1)) != exp:
                        msg = "master received 0x%x, slave was sending 0x%x (top %d bits 0x%x)" % (miso, c["tx"], L, exp)
            if s_irq:
                if c["clean"] and c["starts"] == 1:
                    L = c["len"]
                    sent = (c["word"] if self.aligned else (c["word"] >> (self.dw - L))) & ((1 << L) - 1)
                    k = min(L, self.dws)
                    self.checks += 1
                    if s_len != L:
                        msg = "slave reports length %d after a %d-bit transfer" % (s_len, L)
                    elif (s_rx & ((1 << k) - 1)) != (sent & ((1 << k) - 1)):
                        msg = "slave received 0x%x, master sent the %d bits 0x%x" % (s_rx, L, sent)
                    elif not c["master_done"]:
                        msg = "slave frame ended before the master reported done"
                self.cur = None
        elif (start and done == 0 and self.prev_done and cs and not csm and not lb and 1 <= ln <= self.dw and div >= 2
              and self.t > 8 and s_done and self.csn_high >= 4 and csn):
            # `done` drops combinationally in the start cycle
            self.cur = {"held": (ln, word & ((1 << self.dw) - 1), cs, csm, lb, div), "len": ln, "div": div,
                        "word": word & ((1 << self.dw) - 1), "clean": True, "fresh": True, "tx": None, "starts": 0,
                        "master_done": False}
        self.prev_done = done if not (start and self.cur is not None and self.cur["fresh"]) else 0
        self.csn_high = self.csn_high + 1 if csn else 0
        return msg


class SpiLinkInst(PInst):
    """letter = (start, length, mosi, cs, cs_mode, loopback, clk_divider, slave word to send)
       outputs = master (pads.clk, pads.cs_n, pads.mosi, done, irq, miso), slave (pads.miso, start, length, done, irq, mosi)"""

    def __init__(self, dw, aligned, dws, alphabet=None, divs=(2, 3, 8)):
        top = SpiLinkTop(dw, aligned, dws)
        m, s = top.master, top.slave
        self.dw, self.aligned, self.dws, self.divs = dw, aligned, dws, list(divs)
        PInst.__init__(self, "SPIMaster(%d,%s)<->SPISlave(%d)/div%s" % (dw, "aligned" if aligned else "raw", dws,
                                                                        ",".join(map(str, divs))), top,
                       "spilink %d %d %d" % (dw, 1 if aligned else 0, dws),
                       [m.start, m.length, m.mosi, m.cs, m.cs_mode, m.loopback, m.clk_divider, s.miso],
                       [top.mp.clk, top.mp.cs_n, top.mp.mosi, m.done, m.irq, m.miso,
                        top.sp.miso, s.start, s.length, s.done, s.irq, s.mosi],
                       alphabet, None, lambda l, o: l[0] or not o[3] or o[10])
        self.netlist.set(s.loopback, 0)
        self._reg = None

    def monitor(self):
        return SpiLinkMonitor(self.dw, self.aligned, self.dws)

    def idle_letter(self, last):
        return (0,) + tuple(last[1:])

    def gen(self, rng, t):
        if t == 0 or self._reg is None or (self._busy == 0 and rng.random() < 0.3):
            if t == 0:
                self._busy = 0
                self._div = rng.choice(self.divs)     # one divider per run: lowering it below the free-running counter
                                                      # stalls the master for up to 65536 cycles (known note)
            if self._busy == 0:
                div = self._div
                ln = rng.randint(1, self.dw)
                self._reg = [ln, rng.getrandbits(self.dw), 1, 0, 0, div, rng.getrandbits(self.dws)]
                self._busy = (ln + 3) * div + 12
                return (1,) + tuple(self._reg)
        if self._busy:
            self._busy -= 1
        start = 1 if rng.random() < 0.004 else 0                          # rare overlapping start
        if rng.random() < 0.001:
            self._reg[rng.choice([1, 2, 3, 4])] ^= 1                      # rare disturbance of a held register
            # (the length is left alone: length 0 would park the master in RUN for the rest of the run)
        return (start,) + tuple(self._reg)
