"""C07 helpers: real Wishbone memories/adapters as harness instances, closed-loop masters (classic and burst),
a reference slave memory with random latency, and the property monitors (reference byte memory on the master
side, one-ack-per-request, slave-side legality).  Nothing here depends on the Lean model."""
import envshim  # noqa: F401
from migen import Module
from netlist import Netlist
from litex.soc.interconnect import wishbone, csr_bus

MREQ = "m.cyc m.stb m.we m.adr m.sel m.dat_w m.cti m.bte"
FMT_SLAVE = MREQ
FMT_ADAPTER = MREQ + " s.ack s.dat_r s.err"
FMT_CSR = MREQ + " csr.dat_r"

CTI_INC, CTI_END = 2, 7


def burst_next(adr, bte):
    """Next beat address of a Wishbone incrementing burst: linear (bte=0) or wrapping modulo 4/8/16 beats."""
    k = (0, 2, 3, 4)[bte & 3]
    if k == 0:
        return adr + 1
    m = (1 << k) - 1
    return (adr & ~m) | ((adr + 1) & m)


def log2i(n):
    k = n.bit_length() - 1
    assert 1 << k == n, n
    return k


def bytes_of(word, nb):
    return [(word >> (8 * i)) & 0xFF for i in range(nb)]


# ---------------------------------------------------------------------------------------------------------
# Real modules (always built from /repo classes; several modules are composed in one Migen Module)

class Top(Module):
    pass


class FastNetlist(Netlist):
    """Same semantics as `Netlist`, without the redundant combinational passes at the clock edge: every
    `WbInst.apply` re-settles the combinational logic after driving the inputs and before anything is sampled,
    and `state_key()` reads registers only, so the edge just executes the sync statements and commits."""

    def tick(self, cds=("sys",)):
        ev = self.ev
        for cd in cds:
            if cd in self.sync:
                ev.execute(self.sync[cd])
        ev.commit()

    def settle(self):
        ev = self.ev
        ev.execute(self.comb)
        n = 0
        while ev.commit():
            ev.execute(self.comb)
            n += 1
            if n > 2000:    # a changed implementation with a combinational loop must not hang the check
                raise RuntimeError("combinational logic does not settle (oscillating combinational loop)")


def build_sram(dw, depth, aw, ro=False, burst=False, init=None, from_memory=False, default_bus=False):
    """`from_memory`: hand SRAM a ready-made Memory object (its other constructor path); read-only is then
    announced through the memory's `bus_read_only` attribute, as LiteX ROM helpers do."""
    top = Top()
    if default_bus:
        # SRAM's own bus (bus=None): Interface(data_width=32, address_width=32, addressing="word")
        assert dw == 32 and aw == 30 and not burst and not from_memory
        top.submodules.sram = wishbone.SRAM(depth * (dw // 8), read_only=ro, init=init)
        top.master = top.sram.bus
        return top
    top.master = wishbone.Interface(data_width=dw, adr_width=aw, bursting=burst)
    if from_memory:
        from migen import Memory
        mem = Memory(dw, depth, init=init)
        if ro:
            mem.bus_read_only = True
        top.submodules.sram = wishbone.SRAM(mem, bus=top.master)
    else:
        top.submodules.sram = wishbone.SRAM(depth * (dw // 8), read_only=ro, init=init, bus=top.master)
    return top


def build_direct(kind, dw, aw):
    """Equal-width paths: `Converter` with equal widths and `Cache(cachesize=0)` are plain connections."""
    top = Top()
    top.master = wishbone.Interface(data_width=dw, adr_width=aw)
    top.slave = wishbone.Interface(data_width=dw, adr_width=aw)
    if kind == "converter":
        top.submodules.conv = wishbone.Converter(top.master, top.slave)
    elif kind == "pads":
        # Interface.get_ios -> platform pads -> connect_to_pads on both sides: master port -> pads -> slave port
        from litex.build.sim import SimPlatform
        plat = SimPlatform("SIM", top.master.get_ios("wb"))
        top.pads = plat.request("wb")
        top.comb += top.master.connect_to_pads(top.pads, mode="master")   # a bus master drives the pads
        top.comb += top.slave.connect_to_pads(top.pads, mode="slave")     # ... and the pads drive a bus (slave side)
    else:
        top.submodules.cache = wishbone.Cache(0, top.master, top.slave)
    return top


def build_soc_glue(bus_dw, master_dw, bursting, ram_size, rom_size, ram_init, rom_init, master_addressing="word"):
    """The path users take: SoC.add_ram (SRAM sized from bytes, read_only from the region mode, bursting from the
    bus), bus.add_master -> add_adapter (Converter / addressing conversion chosen by the glue), finalize
    (interconnect + decoders).  Returns the SoC with `.master` = the external master port."""
    from litex.build.generic_platform import Pins
    from litex.build.sim import SimPlatform
    from litex.soc.integration.soc_core import SoCMini
    plat = SimPlatform("SIM", [("sys_clk", 0, Pins(1)), ("sys_rst", 0, Pins(1))])
    soc = SoCMini(plat, clk_freq=int(1e6), bus_data_width=bus_dw, bus_bursting=bursting)
    soc.add_ram("ram0", 0x20000000, ram_size, contents=list(ram_init), mode="rwx")
    soc.add_ram("rom0", 0x30000000, rom_size, contents=list(rom_init), mode="rx")
    m = wishbone.Interface(data_width=master_dw, address_width=32, addressing=master_addressing, bursting=bursting)
    soc.bus.add_master(name="ext", master=m)
    soc.master = m
    soc.finalize()
    return soc


def glue_pattern(n):
    """Initial memory pattern, byte n: mixes low and high address bits (no two aligned words of any width 1..16
    bytes carry the same bytes, so an access landing on the wrong words is visible on the initial content)."""
    return (n * 37 + (n >> 3) * 101 + (n >> 6) * 59 + 5) & 0xFF


def build_bus_glue(bus_std, bus_dw, m_dw, m_addressing, s_dw, mem_bytes=512):
    """Adapters composed BY the SoC glue: a Wishbone master port -> SoCBusHandler.add_adapter(m2s) -> main bus of
    the given standard / width -> add_adapter(s2m) <- a word-addressed wishbone.SRAM of the given width holding
    `glue_pattern`.  (add_master/add_slave call add_adapter the same way and then build the interconnect, which
    belongs to C06 / C08.)"""
    import logging
    from litex.soc.integration.soc import SoCBusHandler
    logging.disable(logging.CRITICAL)
    top = Top()
    top.submodules.bus = SoCBusHandler(standard=bus_std, data_width=bus_dw, address_width=32)
    top.master = wishbone.Interface(data_width=m_dw, address_width=32, addressing=m_addressing)
    m_ad = top.bus.add_adapter("m", top.master, "m2s")
    nbs = s_dw // 8
    init = [sum(glue_pattern(w * nbs + k) << (8 * k) for k in range(nbs)) for w in range(mem_bytes // nbs)]
    top.submodules.sram = wishbone.SRAM(mem_bytes, init=init,
                                        bus=wishbone.Interface(data_width=s_dw, address_width=32, addressing="word"))
    s_ad = top.bus.add_adapter("s", top.sram.bus, "s2m")
    top.comb += m_ad.connect(s_ad)
    top.m_ad = m_ad
    return top


def build_conv(dwm, dws, awm):
    """Converter alone: master and slave ports free."""
    top = Top()
    aws = awm + log2i(dwm // dws) if dwm >= dws else awm - log2i(dws // dwm)
    top.master = wishbone.Interface(data_width=dwm, adr_width=awm)
    top.slave = wishbone.Interface(data_width=dws, adr_width=aws)
    top.submodules.conv = wishbone.Converter(top.master, top.slave)
    return top


def build_conv_sram(dwm, dws, awm, depth, ro=False, burst=False, init=None):
    top = Top()
    aws = awm + log2i(dwm // dws) if dwm >= dws else awm - log2i(dws // dwm)
    top.master = wishbone.Interface(data_width=dwm, adr_width=awm)
    top.mid = wishbone.Interface(data_width=dws, adr_width=aws, bursting=burst)
    top.submodules.conv = wishbone.Converter(top.master, top.mid)
    top.submodules.sram = wishbone.SRAM(depth * (dws // 8), read_only=ro, init=init, bus=top.mid)
    top.aws = aws
    return top


class Region:
    """Only .origin/.size are read by wishbone.Remapper (SoCRegion would log and round sizes)."""
    def __init__(self, origin, size):
        self.origin, self.size = origin, size


def build_remap(dw, aw, origin, size, regions, addressing="word", depth=None, init=None):
    top = Top()
    top.master = wishbone.Interface(data_width=dw, adr_width=aw, addressing=addressing)
    top.slave = wishbone.Interface(data_width=dw, adr_width=aw, addressing=addressing)
    top.submodules.remap = wishbone.Remapper(top.master, top.slave, origin=origin, size=size,
                                             src_regions=[Region(a, s) for a, s, _ in regions],
                                             dst_regions=[Region(d, s) for _, s, d in regions])
    if depth is not None:
        top.submodules.sram = wishbone.SRAM(depth * (dw // 8), init=init, bus=top.slave)
    return top


def remap_params(dw, aw, origin, size, regions, addressing="word"):
    nb = dw // 8
    shift = log2i(nb) if addressing == "word" else 0
    aw_sig = aw if addressing == "word" else aw + log2i(nb)
    if size is None:
        size = 2 ** (aw + log2i(nb))
    p = [nb, aw_sig, aw_sig, shift, origin, size, len(regions)]
    for a, s, d in regions:
        p += [a, s, d]
    return p


def ref_remap(dw, aw, origin, size, regions, addressing="word"):
    """Intended address map of the Remapper, written from its docstring (origin offset + mask, then the
    region-to-region translation, last matching region wins), on word addresses.  No signal widths involved."""
    nb = dw // 8
    shift = log2i(nb) if addressing == "word" else 0
    if size is None:
        size = 2 ** (aw + log2i(nb))
    mask = (1 << (int(size).bit_length() - 1 - shift)) - 1 if shift <= int(size).bit_length() - 1 else 0
    adr_bits = aw if addressing == "word" else aw + log2i(nb)

    def f(a):
        r = (origin >> shift) | (a & mask)
        out = r
        byte = r << shift
        for so, sz, do in regions:
            if so <= byte < so + sz:
                out = (do + byte - so) >> shift
        return out & ((1 << adr_bits) - 1)
    return f


def build_wb2csr(dw, aw, register, caw=14, addressing="word"):
    top = Top()
    top.master = wishbone.Interface(data_width=dw, adr_width=aw, addressing=addressing)
    top.csr = csr_bus.Interface(data_width=dw, address_width=caw)
    top.submodules.bridge = wishbone.Wishbone2CSR(bus_wishbone=top.master, bus_csr=top.csr, register=register)
    return top


def build_wb2csr_bank(dw, aw, register, regs, caw=14, paging=0x800, address=0, ordering="big", addressing="word"):
    """Wishbone2CSR wired to a real `csr_bus.CSRBank` of CSRStorage registers; `regs` = [(size, reset, atomic)]."""
    from litex.soc.interconnect import csr
    top = Top()
    top.master = wishbone.Interface(data_width=dw, adr_width=aw, addressing=addressing)
    top.csrbus = csr_bus.Interface(data_width=dw, address_width=caw)
    top.submodules.bridge = wishbone.Wishbone2CSR(bus_wishbone=top.master, bus_csr=top.csrbus, register=register)
    top.regs = [csr.CSRStorage(size, reset=reset, atomic_write=atomic, name="reg%d" % k)
                for k, (size, reset, atomic) in enumerate(regs)]
    top.submodules.bank = csr_bus.CSRBank(top.regs, address=address, bus=top.csrbus, paging=paging, ordering=ordering)
    return top


def bank_word_map(dw, regs, paging, address, ordering="big"):
    """CSR word address -> (register index, word index) of a CSRBank, written from the CSR documentation (a register
    of n bus words occupies n consecutive addresses, most significant word first for "big" ordering)."""
    out, a = {}, address * (paging // 4)
    for k, (size, reset, atomic) in enumerate(regs):
        n = (size + dw - 1) // dw
        for p in range(n):
            out[a + p] = (k, (n - 1 - p) if ordering == "big" else p)
        a += n
    return out


def cache_geometry(cachesize, dwm, dws, awm, aws):
    """The address split computed by wishbone.Cache.__init__ (recomputed here for the model parameters)."""
    offsetbits = log2i(max(dws // dwm, 1))
    addressbits = aws + offsetbits
    linebits = log2i(cachesize) - offsetbits
    tagbits = addressbits - linebits
    wordbits = log2i(max(dwm // dws, 1))
    return dict(offsetbits=offsetbits, linebits=linebits, tagbits=tagbits, wordbits=wordbits)


def cache_params(cachesize, dwm, dws, awm, aws, reverse=True):
    g = cache_geometry(cachesize, dwm, dws, awm, aws)
    return [dwm // 8, dws // 8, g["offsetbits"], g["linebits"], g["tagbits"], g["wordbits"], aws, int(reverse)]


def build_cache(cachesize, dwm, dws, awm, aws, reverse=True, depth=None, init=None):
    top = Top()
    top.master = wishbone.Interface(data_width=dwm, adr_width=awm)
    top.slave = wishbone.Interface(data_width=dws, adr_width=aws)
    top.submodules.cache = wishbone.Cache(cachesize, top.master, top.slave, reverse=reverse)
    if depth is not None:
        top.submodules.sram = wishbone.SRAM(depth * (dws // 8), init=init, bus=top.slave)
    return top


# ---------------------------------------------------------------------------------------------------------
# Monitors (property oracles on the real code)

class MasterMemMonitor:
    """Reference byte memory on the master side.

    Every cycle with cyc & stb & ack is a completed bus cycle at the presented address: a write updates the
    selected bytes of the reference, a read must return the reference content on every selected lane
    (unselected lanes are unspecified).  Also: ack only while a strobe is presented, and every presented
    strobe is acknowledged within `max_wait` cycles.  The oracle judges only histories inside the property's
    quantifier: if the master changes or withdraws an un-acknowledged request, or breaks the burst rules
    (an incrementing beat followed by a strobe with the wrong address/we/cti), it stops judging (`void`).  Master
    wait states inside a burst (STB low, CYC held, anything on the other lines), bursts abandoned by dropping CYC
    and bursts ended early with CTI=7 are legal and judged."""

    def __init__(self, nb, total_bytes, init_bytes=None, max_wait=64, adr_map=None, bursts=False,
                 write_mask_all=False, read_only=False, init_fn=None, byte_map=None, ro_ranges=(), backing=None):
        self.nb = nb
        self.total = total_bytes
        self.ref = dict(enumerate(init_bytes or []))
        self.init_fn = init_fn
        self.byte_map = byte_map      # (word address, lane) -> byte address of the flat memory
        self.ro_ranges = list(ro_ranges)   # byte ranges [lo, hi) of read-only memories: writes are ignored
        self.backing = backing        # RefSlave behind a non-buffering adapter: its memory must equal the reference
        self.max_wait = max_wait
        self.adr_map = adr_map or (lambda a: a)
        self.bursts = bursts
        self.pending = None
        self.wait = 0
        self.void = False
        self.expect_next = None       # (adr, we) the burst master must present next
        self.write_mask_all = write_mask_all
        self.read_only = read_only
        self.completed = 0
        self.pre_acks = 0

    def byte_addr(self, adr, lane):
        if self.byte_map is not None:
            return self.byte_map(adr, lane) % self.total
        return (self.adr_map(adr) * self.nb + lane) % self.total

    def observe(self, letter, outs):
        if self.void:
            return None
        cyc, stb, we, adr, sel, dat, cti, bte = letter[:8]
        ack, dat_r = outs[0], outs[1]
        active = cyc and stb
        req = (we, adr, sel, dat if we else None, cti, bte)
        if self.pending is not None and (not active or req != self.pending):
            self.void = True          # master left the classic protocol
            return None
        pre_ack = False
        if self.expect_next is not None:
            exp = self.expect_next
            self.expect_next = None
            if active and ((adr, we) != exp or cti not in (CTI_INC, CTI_END)):
                self.void = True      # burst not continued as the Wishbone burst rules require
                return None
            # not active: a master wait state (STB low, CYC held) or an aborted burst (CYC dropped) - both legal;
            # whatever the master presents afterwards is a new cycle.  A registered-feedback slave that was told
            # (CTI=010) that another beat follows may have its acknowledge up already in this cycle: the master
            # presents no strobe, so this is not the acknowledge of any bus cycle (Wishbone B4 rules 3.50/3.55).
            pre_ack = not active
        if ack and not active:
            if pre_ack:
                self.wait = 0
                self.pre_acks += 1
                return None
            return "ack while no strobe is presented (cyc=%d stb=%d)" % (cyc, stb)
        if not active:
            self.wait = 0
            return None
        if not ack:
            self.pending = req
            self.wait += 1
            if self.wait > self.max_wait:
                return "request adr=%#x we=%d not acknowledged within %d cycles" % (adr, we, self.max_wait)
            return None
        # completed bus cycle
        self.pending = None
        self.wait = 0
        self.completed += 1
        if self.bursts and cti == CTI_INC:
            self.expect_next = (burst_next(adr, bte), we)
        if we:
            if not self.read_only:
                for lane in range(self.nb):
                    if (sel >> lane) & 1 or (self.write_mask_all and sel != 0):
                        ba = self.byte_addr(adr, lane)
                        if not any(lo <= ba < hi for lo, hi in self.ro_ranges):
                            self.ref[ba] = (dat >> (8 * lane)) & 0xFF
            if self.backing is not None:
                # the adapter buffers nothing: after a completed write the slave-side memory is byte for byte
                # the reference (a write that touched an unselected or foreign byte is caught here even if the
                # master never reads that byte back)
                for ba, v in self.backing.mem.items():
                    exp = self.ref[ba] if ba in self.ref else (self.init_fn(ba) if self.init_fn else 0)
                    if v != exp:
                        return ("after write adr=%#x sel=%#x: slave-side memory byte %#x holds %#04x, a flat byte "
                                "memory holds %#04x (write touched a byte it must not)" % (adr, sel, ba, v, exp))
            return None
        for lane in range(self.nb):
            if (sel >> lane) & 1:
                ba = self.byte_addr(adr, lane)
                exp = self.ref[ba] if ba in self.ref else (self.init_fn(ba) if self.init_fn else 0)
                got = (dat_r >> (8 * lane)) & 0xFF
                if got != exp:
                    return ("read adr=%#x sel=%#x: lane %d returned %#04x, a flat byte memory holds %#04x "
                            "(last enabled write / initial content)" % (adr, sel, lane, got, exp))
        return None


class SlaveSideMonitor:
    """Legality of the requests an adapter makes on its slave port, given a protocol-following master:
    a presented strobe is held unchanged until acknowledged, and acknowledges reach the master only while
    it presents a strobe."""

    def __init__(self, off=3):
        self.off = off                # index of s.cyc in outs
        self.pending = None
        self.mpending = None
        self.void = False

    def observe(self, letter, outs):
        if self.void:
            return None
        cyc, stb, we, adr, sel, dat = letter[:6]
        sack = letter[8]
        o = self.off
        mack = outs[0]
        mreq = (we, adr, sel, dat if we else None)
        mactive = cyc and stb
        if self.mpending is not None and (not mactive or mreq != self.mpending):
            self.void = True
            return None
        if mack and not mactive:
            return "master-side ack while the master presents no strobe"
        self.mpending = mreq if (mactive and not mack) else None
        scyc, sstb, swe, sadr, ssel, sdat = outs[o:o + 6]
        sactive = scyc and sstb
        sreq = (swe, sadr, ssel, sdat if swe else None)
        if self.pending is not None and (not sactive or sreq != self.pending):
            return "slave-side request changed/withdrawn before ack: was %r now %r" % (self.pending, sreq if sactive else None)
        self.pending = sreq if (sactive and not sack) else None
        return None


class EnvSlaveCheck:
    """Legality of the *environment* of an adapter whose slave port is played by the harness (`RefSlave`), judged on
    the letters of the trace alone, so that a replayed or shrunk trace is only ever judged while its slave-response
    letters are those of a byte memory that answers within `max_silent` cycles: an acknowledge needs a request
    that was pending in the previous cycle, read data must be the memory content on the selected lanes, writes
    update the memory, no `err`, no request left unanswered for more than `max_silent + 1` cycles.
    `legal` turns False for good on the first violation (the history is then outside the property's quantifier).
    `.mem` is the slave-side memory implied by the trace (used by the backing check of `MasterMemMonitor`)."""

    def __init__(self, nbs, off=3, init_fn=None, adr_shift=0, max_silent=12,
                 check_unselected=False):
        self.nbs, self.off, self.init_fn, self.adr_shift = nbs, off, init_fn, adr_shift
        self.max_silent, self.check_unselected = max_silent, check_unselected
        self.mem = {}
        self.prev = None          # (outs, ack letter) of the previous cycle
        self.pending = 0
        self.legal = True

    def rd(self, a):
        if a not in self.mem:
            self.mem[a] = self.init_fn(a) if self.init_fn else 0
        return self.mem[a]

    def observe(self, letter, outs):
        if not self.legal:
            return False
        sack, sdat, serr = letter[8], letter[9], letter[10]
        o = self.off
        if serr:
            self.legal = False
        prev = self.prev
        prev_pending = (prev is not None and prev[0][o] and prev[0][o + 1] and not prev[1])
        if sack:
            if not prev_pending:
                self.legal = False
            else:
                scyc, sstb, swe, sadr, ssel, sdw = prev[0][o:o + 6]
                for lane in range(self.nbs):
                    a = (sadr >> self.adr_shift) * self.nbs + lane
                    if swe:
                        if (ssel >> lane) & 1:
                            self.mem[a] = (sdw >> (8 * lane)) & 0xFF
                    elif (ssel >> lane) & 1 or self.check_unselected:
                        if ((sdat >> (8 * lane)) & 0xFF) != self.rd(a):
                            self.legal = False
            self.pending = 0
        elif prev_pending:
            self.pending += 1
            if self.pending > self.max_silent:
                self.legal = False
        else:
            self.pending = 0
        self.prev = (list(outs), sack)
        return self.legal


class EnvCsrCheck:
    """Legality of the harness-played CSR side (`CsrGen`), judged on the letters alone: `csr.dat_r` in a cycle must
    be the word the register file held at the address driven in the previous cycle (a `we` in that cycle replaces
    the word afterwards).  Keeps replayed/shrunk traces inside the property's quantifier."""

    def __init__(self, off=3):
        self.off = off
        self.regs = {}
        self.prev = None
        self.legal = True

    def observe(self, letter, outs):
        if not self.legal:
            return False
        exp = 0
        if self.prev is not None:
            adr, we, re, dat_w = self.prev
            exp = self.regs.get(adr, 0)
            if we:
                self.regs[adr] = dat_w
        if letter[8] != exp:
            self.legal = False
        self.prev = tuple(outs[self.off:self.off + 4])
        return self.legal


class Guarded:
    """Monitors that judge only while the harness-played environment is legal."""
    def __init__(self, env, *mons):
        self.env, self.mons = env, mons

    def observe(self, letter, outs):
        if not self.env.observe(letter, outs):
            return None
        for m in self.mons:
            r = m.observe(letter, outs)
            if r:
                return r
        return None


class Both:
    def __init__(self, *mons):
        self.mons = mons

    def observe(self, letter, outs):
        for m in self.mons:
            r = m.observe(letter, outs)
            if r:
                return r
        return None


# ---------------------------------------------------------------------------------------------------------
# Closed-loop environment for random co-simulation

class ClassicMaster:
    """Protocol-following master: presents a request and holds it until the cycle in which ack is seen;
    arbitrary idle gaps; hot addresses so that reads meet earlier partial writes."""

    def __init__(self, nb, adr_max, hot=6, cti_random=False, hot_adrs=()):
        self.nb, self.adr_max, self.hot_n, self.cti_random = nb, adr_max, hot, cti_random
        self.hot_adrs = list(hot_adrs)
        self.reset()

    def reset(self):
        self.pending = None
        self.hot = None

    def next(self, rng, t, last_letter, last_outs):
        if self.hot is None:
            self.hot = [rng.randint(0, self.adr_max) for _ in range(self.hot_n)] + self.hot_adrs
        if self.pending is not None and last_outs is not None and not last_outs[0]:
            return self.pending
        self.pending = None
        regime = (t // 128) % 4
        p_idle = (0.3, 0.0, 0.7, 0.1)[regime]
        if rng.random() < p_idle:
            k = rng.random()
            dmax = (1 << (8 * self.nb)) - 1
            if k < 0.6:
                return (0, 0, 0, 0, 0, 0, 0, 0)
            if k < 0.8:    # cyc without stb (master wait state), garbage on the other lines incl. the burst tags
                return (1, 0, rng.randint(0, 1), rng.randint(0, self.adr_max), rng.randint(0, (1 << self.nb) - 1),
                        rng.randint(0, dmax), rng.choice((0, 2, 7, 1, 5)), rng.randint(0, 3))
            return (0, rng.randint(0, 1), rng.randint(0, 1), rng.randint(0, self.adr_max),
                    rng.randint(0, (1 << self.nb) - 1), rng.randint(0, dmax), rng.choice((0, 2, 7)), rng.randint(0, 3))
        adr = rng.choice(self.hot) if rng.random() < 0.8 else rng.randint(0, self.adr_max)
        we = 1 if rng.random() < 0.5 else 0
        full = (1 << self.nb) - 1
        k = rng.random()
        sel = full if k < 0.4 else (0 if k < 0.45 else rng.randint(0, full))
        dat = rng.randint(0, (1 << (8 * self.nb)) - 1)
        cti = rng.choice((0, 0, 0, 1, 7, 3)) if self.cti_random else 0
        self.pending = (1, 1, we, adr, sel, dat, cti, 0)
        return self.pending


class BurstMaster:
    """Registered-feedback burst master doing everything a Wishbone B4 master may do: each beat of an
    incrementing/wrapping burst is held until acknowledged and the last beat carries CTI=7; between two beats it
    may insert wait states (STB low, CYC held; the other lines held or garbage), abandon the burst by dropping
    CYC, or end it early with CTI=7; bursts follow each other with or without idle cycles (change of WE between
    back-to-back bursts); classic and constant-address cycles in between."""

    def __init__(self, nb, adr_max, linear_only=False, waits=True):
        self.nb, self.adr_max, self.linear_only, self.waits = nb, adr_max, linear_only, waits
        self.reset()

    def reset(self):
        self.beats = []
        self.cur = None         # strobed beat presented and not yet seen acknowledged
        self.gap = []           # non-strobed letters still to present (wait states / CYC dropped)

    def _garbage(self, rng, cyc):
        return (cyc, 0 if cyc else rng.randint(0, 1), rng.randint(0, 1), rng.randint(0, self.adr_max),
                rng.randint(0, (1 << self.nb) - 1), rng.randint(0, (1 << (8 * self.nb)) - 1),
                rng.choice((0, 2, 2, 7, 1)), rng.randint(0, 3))

    def next(self, rng, t, last_letter, last_outs):
        if self.cur is not None and last_outs is not None and not last_outs[0]:
            return self.cur
        self.cur = None
        if self.gap:
            return self.gap.pop(0)
        if not self.beats:
            if rng.random() < 0.3:
                return (0, 0, 0, 0, 0, 0, 0, 0) if rng.random() < 0.7 else self._garbage(rng, rng.randint(0, 1))
            adr = rng.randint(0, self.adr_max)
            we = rng.randint(0, 1)
            full = (1 << self.nb) - 1
            kind = rng.random()
            if kind < 0.25:     # classic / constant-address / lone end-of-burst cycle
                self.beats = [(1, 1, we, adr, rng.randint(0, full), rng.randint(0, (1 << (8 * self.nb)) - 1),
                               rng.choice((0, 1, 7)), 0 if self.linear_only else rng.randint(0, 3))]
            else:
                bte = 0 if self.linear_only else rng.randint(0, 3)
                k = (0, 2, 3, 4)[bte]
                n = rng.randint(2, 9) if bte == 0 else rng.choice((2, 3, (1 << k) - 1, 1 << k))
                for b in range(n):
                    sel = full if rng.random() < 0.7 else rng.randint(0, full)
                    self.beats.append((1, 1, we, adr & self.adr_max_mask(), sel,
                                       rng.randint(0, (1 << (8 * self.nb)) - 1),
                                       CTI_END if b == n - 1 else CTI_INC, bte))
                    adr = burst_next(adr, bte) & self.adr_max
        elif self.waits:
            # between two beats of a burst (the previous beat has just been acknowledged)
            k = rng.random()
            nxt = self.beats[0]
            if k < 0.14:        # wait states: STB low, CYC/CTI/ADR... of the coming beat held
                self.gap = [(1, 0) + tuple(nxt[2:])] * rng.randint(1, 3)
            elif k < 0.20:      # wait states with garbage on the other lines
                self.gap = [self._garbage(rng, 1) for _ in range(rng.randint(1, 2))]
            elif k < 0.24:      # burst abandoned: CYC dropped (rest of the burst is not transferred)
                self.beats = []
                self.gap = [(0, 0) + tuple(nxt[2:])] if rng.random() < 0.5 else [self._garbage(rng, 0)]
            elif k < 0.28:      # burst ended early: the coming beat carries CTI=7
                self.beats = [tuple(nxt[:6]) + (CTI_END, nxt[7])]
            if self.gap:
                return self.gap.pop(0)
        self.cur = self.beats.pop(0)
        return self.cur

    def adr_max_mask(self):
        return self.adr_max


class RefSlave:
    """Reference slave for adapters whose slave port is driven by the harness: a byte memory that
    acknowledges a presented strobe after a random delay (>= 1 cycle) and returns garbage on unselected
    lanes.  It reads the adapter's slave-side request from the previous cycle's sampled outputs (the adapter
    holds an un-acknowledged request)."""

    MAX_SILENT = 12     # L: a pending request is never left unanswered for more than L cycles

    def __init__(self, nbs, off=3, init_fn=None, p_ack=(0.5, 1.0, 0.2, 0.9), garbage=True, adr_shift=0,
                 max_silent=None):
        self.nbs, self.off, self.init_fn, self.p_ack, self.garbage = nbs, off, init_fn, p_ack, garbage
        self.adr_shift = adr_shift    # byte-addressed buses: word index = adr >> log2(nbs)
        self.max_silent = self.MAX_SILENT if max_silent is None else max_silent
        self.reset()

    @property
    def request_cycles(self):
        """D: a slave-side request lasts at most D cycles (presented, then answered after 1..L+1 cycles)."""
        return self.max_silent + 2

    def reset(self):
        self.mem = {}
        self.silent = 0

    def rd(self, a):
        if a not in self.mem:
            self.mem[a] = self.init_fn(a) if self.init_fn else 0
        return self.mem[a]

    def next(self, rng, t, last_letter, last_outs):
        dmax = (1 << (8 * self.nbs)) - 1
        junk = rng.randint(0, dmax) if self.garbage else 0
        if last_outs is None:
            return (0, junk, 0)
        o = self.off
        scyc, sstb, swe, sadr, ssel, sdat = last_outs[o:o + 6]
        prev_ack = last_letter[8]
        if not (scyc and sstb) or prev_ack:
            self.silent = 0
            return (0, junk, 0)
        if self.silent < self.max_silent and rng.random() >= self.p_ack[(t // 96) % len(self.p_ack)]:
            self.silent += 1          # the environment guarantees its latency bound: after L silent cycles it answers
            return (0, junk, 0)
        self.silent = 0
        d = 0
        for lane in range(self.nbs):
            a = (sadr >> self.adr_shift) * self.nbs + lane
            if swe:
                if (ssel >> lane) & 1:
                    self.mem[a] = (sdat >> (8 * lane)) & 0xFF
                d |= ((junk >> (8 * lane)) & 0xFF) << (8 * lane)
            elif (ssel >> lane) & 1 or not self.garbage:
                d |= self.rd(a) << (8 * lane)
            else:
                d |= ((junk >> (8 * lane)) & 0xFF) << (8 * lane)
        return (1, d, 0)


# ---------------------------------------------------------------------------------------------------------
# Instances

class WbInst:
    """A real module with a Wishbone master port and optionally a free slave port (or CSR port).

    letters: master request (8) [+ slave response (3) | + csr.dat_r (1)]
    outs   : m.ack m.dat_r m.err [+ s.cyc s.stb s.we s.adr s.sel s.dat_w s.cti s.bte | + csr.adr we re dat_w]
    """

    def __init__(self, name, top, lean_open, alphabet=None, master_gen=None, slave_gen=None, monitor=None,
                 kind="slave"):
        self.name = name
        self.top = top
        self.lean_open = lean_open
        self.netlist = FastNetlist(top)
        self.m = top.master
        self.kind = kind
        self.s = getattr(top, "slave", None) if kind == "adapter" else None
        self.csr = getattr(top, "csr", None) if kind == "csr" else None
        self.alphabet = alphabet
        self.master_gen = master_gen
        self.slave_gen = slave_gen
        self._monitor = monitor
        self.last_letter = None
        self.last_outs = None
        self.letter_format = {"slave": FMT_SLAVE, "adapter": FMT_ADAPTER, "csr": FMT_CSR}[kind]
        if kind == "slave":
            self.qual = [None, 0, None]
        elif kind == "adapter":
            stb = lambda a: a[3] == 1 and a[4] == 1
            self.qual = [None, 0, None, None, None, stb, stb, stb, stb, stb, stb]
        else:
            self.qual = [None, 0, None, None, None, None, None]
        self.inputs = None
        self.outputs = None

    def apply(self, letter):
        n, m = self.netlist, self.m
        for sig, v in zip((m.cyc, m.stb, m.we, m.adr, m.sel, m.dat_w, m.cti, m.bte), letter[:8]):
            n.set(sig, v)
        if self.s is not None:
            n.set(self.s.ack, letter[8])
            n.set(self.s.dat_r, letter[9])
            n.set(self.s.err, letter[10])
        if self.csr is not None:
            n.set(self.csr.dat_r, letter[8])
        n.settle()
        self.last_letter = letter

    def sample(self):
        n, m = self.netlist, self.m
        outs = [n.getu(m.ack), n.getu(m.dat_r), n.getu(m.err)]
        if self.s is not None:
            s = self.s
            outs += [n.getu(x) for x in (s.cyc, s.stb, s.we, s.adr, s.sel, s.dat_w, s.cti, s.bte)]
        if self.csr is not None:
            c = self.csr
            outs += [n.getu(x) for x in (c.adr, c.we, c.re, c.dat_w)]
        self.last_outs = outs
        return outs

    def nontrivial(self, letter, outs):
        return bool(letter[0] and letter[1])

    def gen(self, rng, t):
        if t == 0:
            self.last_letter = None
            self.last_outs = None
            self.master_gen.reset()
            if self.slave_gen is not None:
                self.slave_gen.reset()
        m = self.master_gen.next(rng, t, self.last_letter, self.last_outs)
        if self.slave_gen is not None:
            return tuple(m) + tuple(self.slave_gen.next(rng, t, self.last_letter, self.last_outs))
        return tuple(m)

    def monitor(self):
        return self._monitor() if self._monitor else _NoMonitor()


class BankInst(WbInst):
    """Wishbone2CSR + CSRBank: letters = master request; outs = m.ack m.dat_r m.err + (storage_k re_k)* as the
    device side sees the registers."""

    def __init__(self, name, top, lean_open, **kw):
        WbInst.__init__(self, name, top, lean_open, kind="slave", **kw)
        self.qual = [None, 0, None] + [None, None] * len(top.regs)
        self.letter_format = FMT_SLAVE

    def sample(self):
        n, m = self.netlist, self.m
        outs = [n.getu(m.ack), n.getu(m.dat_r), n.getu(m.err)]
        for r in self.top.regs:
            outs += [n.getu(r.storage), n.getu(r.re)]
        self.last_outs = outs
        return outs


class _NoMonitor:
    def observe(self, letter, outs):
        return None


class CsrGen:
    """csr.dat_r driven by a reference register file answering one cycle after the address (as CSR banks do)."""
    def __init__(self, nb, off=3):
        self.nb, self.off = nb, off
        self.reset()

    def reset(self):
        self.regs = {}

    def next(self, rng, t, last_letter, last_outs):
        if last_outs is None:
            return (0,)
        adr, we, re, dat_w = last_outs[self.off:self.off + 4]
        v = self.regs.get(adr, 0)
        if we:
            self.regs[adr] = dat_w
        return (v,)


# ---------------------------------------------------------------------------------------------------------
# Alphabets for exhaustive co-exploration

def master_letters(nb, adrs, sels, dat_values, ctis=((0, 0),), extra_idle=True, waits=True):
    """idle / cyc-only / stb-only letters plus every request(adr, we, sel, dat) with cyc = stb = 1.
    Reads carry dat_w = 0 only.  `waits`: master wait states (STB low, CYC held) and dropped cycles (CYC low, STB
    high) that keep the other lines driven like a request - write enable, address, data and every burst tag of
    the alphabet (plus CTI=010/111 where the alphabet has none): what a master does between two beats."""
    L = [(0, 0, 0, 0, 0, 0, 0, 0)]
    if extra_idle:
        L += [(1, 0, 0, 0, 0, 0, 0, 0), (0, 1, 1, 0, (1 << nb) - 1, dat_values[-1], 0, 0)]
    if waits:
        adrs = list(adrs)
        tags = [t for t in dict.fromkeys(tuple(t) for t in ctis) if t[0] != 0]
        tags = tags or [(2, 0), (7, 1)]
        for k, (cti, bte) in enumerate(tags):
            L.append((1, 0, 1, adrs[-1 - (k % len(adrs))], (1 << nb) - 1, dat_values[-1], cti, bte))
        L.append((1, 0, 0, adrs[0], 1, 0, tags[0][0], tags[0][1]))
        L.append((0, 1, 0, adrs[-1], 1, 0, tags[0][0], tags[0][1]))
    for cti, bte in ctis:
        for a in adrs:
            for sel in sels:
                L.append((1, 1, 0, a, sel, 0, cti, bte))
                for d in dat_values:
                    L.append((1, 1, 1, a, sel, d, cti, bte))
    return L


def with_slave(letters, slave_letters):
    return [tuple(m) + tuple(s) for m in letters for s in slave_letters]


def lane_values(nb):
    """Two values per byte lane that differ in every lane."""
    v = 0
    for i in range(nb):
        v |= (0xA1 + 0x11 * i) << (8 * i)
    return [0, v]
