"""C14 — exported software maps tell the truth about the hardware: real-code side.

`build(cfg)` elaborates a real `SoCMini` (cpu_type=None) on a `SimPlatform` from a JSON-able configuration
(bus standard/width/interconnect, CSR width/paging/ordering/address width, CSR base, peripherals with random
CSRStorage/CSRStatus/CSR memories/fixed locations, RAMs with init images), adds an extra bus master that plays
the CPU, finalizes, runs the real exporters (JSON, CSV, csr.h, mem.h, soc.h, SVD) and parses them.
`Tb` drives the finalized SoC through `netlist.Netlist` (the repository's own simulator semantics): 32-bit
loads/stores at byte addresses on the extra master (wishbone / AXI-Lite / AXI4 single-beat), while sampling in
every cycle the read/write strobes of *every* simple CSR of every bank — this is the observation "which
register answered".  `check_soc(cfg)` is the end-to-end oracle (independent of the Lean model) and at the same
time records the lines that `props/c14.py` sends to the Lean driver.

The C compiler's reading of csr.h is replaced by `CHeader`: a parser for the few statement forms the exporter
emits (`r = csr_read_simple(A); r <<= N; r |= csr_read_simple(A); return r;`, `csr_write_simple(v >> N, A);`)
evaluated with C unsigned semantics (ctype truncation, 32-bit MMPTR accesses).
"""
import os, re, json, random, tempfile, shutil, traceback
import xml.etree.ElementTree as ET
import envshim  # noqa: F401
envshim.install()
from netlist import Netlist

from migen import Signal, Memory
from litex.gen import LiteXModule
from litex.build.sim import SimPlatform
from litex.build.generic_platform import Pins
from litex.soc.integration.soc_core import SoCMini
from litex.soc.integration.soc import SoCError, SoCRegion
from litex.soc.integration import export
from litex.soc.integration.common import get_mem_data
from litex.soc.interconnect.csr import CSR, CSRStorage, CSRStatus, CSRField, AutoCSR, _CompoundCSR
from litex.soc.interconnect import wishbone, axi

_IO = [("sys_clk", 0, Pins(1)), ("sys_rst", 0, Pins(1))]
M32 = 0xffffffff


class C14Error(Exception):
    pass


# ------------------------------------------------------------------------------------------------------------
# configuration -> real SoC

def make_periph(pcfg):
    """A LiteXModule with AutoCSR carrying the registers / memories of `pcfg` (explicit names everywhere)."""
    m = LiteXModule()
    m._c14_regs = {}
    m._c14_mems = {}
    for r in pcfg.get("regs", []):
        kw = {"name": r["name"]}
        if r.get("n") is not None:
            kw["n"] = r["n"]
        fields = [CSRField(f["name"], size=f["size"], offset=f.get("offset")) for f in r.get("fields", [])]
        if r["kind"] == "storage":
            if fields:
                c = CSRStorage(fields=fields, atomic_write=bool(r.get("atomic")), **kw)
            else:
                c = CSRStorage(r["size"], reset=r.get("reset", 0), atomic_write=bool(r.get("atomic")), **kw)
        elif r["kind"] == "status":
            c = CSRStatus(fields=fields, **kw) if fields else CSRStatus(r["size"], **kw)
        else:
            c = CSR(r["size"], **kw)
        setattr(m, "_" + r["name"], c)
        m._c14_regs[r["name"]] = c
    for mm in pcfg.get("mems", []):
        mem = Memory(mm["width"], mm["depth"], name=mm["name"])
        setattr(m, "_" + mm["name"], mem)
        m._c14_mems[mm["name"]] = mem
    return m


def _mixin(m):
    # AutoCSR methods on the instance's class (LiteXModule already derives from AutoCSR in this tree)
    return m


class Built:
    pass


def build(cfg, tmpdir=None):
    """Elaborate the SoC described by cfg.  Raises SoCError (build refused) like the real flow would."""
    bus_std, bus_dw = cfg["bus"], cfg["bus_dw"]
    mem_map = {"csr": cfg.get("csr_origin", 0)}
    cls = type("C14SoC", (SoCMini,), {"mem_map": dict(mem_map), "csr_map": dict(cfg.get("csr_map", {}))})
    plat = SimPlatform("SIM", _IO)
    envshim.quiet_stderr()
    soc = cls(plat, clk_freq=int(1e6),
              bus_standard=bus_std, bus_data_width=bus_dw, bus_address_width=cfg.get("bus_aw", 32),
              bus_interconnect=cfg.get("ic", "shared"), bus_timeout=cfg.get("bus_timeout", 1e6),
              csr_data_width=cfg["csr_dw"], csr_address_width=cfg.get("csr_aw", 14), csr_paging=cfg["paging"],
              csr_ordering=cfg.get("ordering", "big"), with_ctrl=bool(cfg.get("with_ctrl", True)))
    b = Built()
    b.cfg, b.soc = cfg, soc
    b.periphs = {}
    for p in cfg.get("periphs", []):
        if p.get("loc") is not None:
            soc.add_csr(p["name"], p["loc"])
        m = make_periph(p)
        setattr(soc, p["name"], m)
        b.periphs[p["name"]] = m
    b.rams = {}
    b.ram_files = {}
    for r in cfg.get("rams", []):
        contents = []
        if r.get("init") is not None:
            d = tmpdir or tempfile.mkdtemp(prefix="c14_")
            fn = os.path.join(d, r["name"] + ".bin")
            with open(fn, "wb") as f:
                f.write(bytes(r["init"]["bytes"]))
            contents = get_mem_data(fn, data_width=bus_dw, endianness=r["init"]["endianness"])
            if tmpdir is None:
                shutil.rmtree(d, ignore_errors=True)
        soc.add_ram(r["name"], origin=r["origin"], size=r["size"], contents=contents, mode=r.get("mode", "rwx"))
        b.rams[r["name"]] = getattr(soc, r["name"])
    # the extra master that plays the CPU
    aw = cfg.get("bus_aw", 32)
    if bus_std == "wishbone":
        m = wishbone.Interface(data_width=bus_dw, address_width=aw, addressing="word")
    elif bus_std == "axi-lite":
        m = axi.AXILiteInterface(data_width=bus_dw, address_width=aw)
    else:
        m = axi.AXIInterface(data_width=bus_dw, address_width=aw, id_width=1)
    soc.bus.add_master(name="tb", master=m)
    if cfg.get("second_master"):
        m2 = type(m)(data_width=bus_dw, address_width=aw) if bus_std != "wishbone" else \
            wishbone.Interface(data_width=bus_dw, address_width=aw, addressing="word")
        soc.bus.add_master(name="tb2", master=m2)
        b.master2 = m2
    b.master = m
    soc.finalize()
    envshim.quiet_stderr()
    return b


def safe_build(cfg):
    """-> (Built | None, verdict) with verdict in ok | rejected (SoCError) ."""
    try:
        return build(cfg), "ok"
    except SoCError:
        envshim.quiet_stderr()
        return None, "rejected"


# ------------------------------------------------------------------------------------------------------------
# the real exporters, parsed

class CHeader:
    """csr.h as the C compiler sees it (only the statement forms the exporter emits)."""

    CT = {"uint8_t": 8, "uint16_t": 16, "uint32_t": 32, "uint64_t": 64}

    def __init__(self, text):
        self.text = text
        m = re.search(r"#define CSR_BASE (0x[0-9a-f]+)L", text)
        self.csr_base = int(m.group(1), 16) if m else None
        self.defines = {}
        for m in re.finditer(r"^#define (CSR_\w+) (.+)$", text, re.M):
            self.defines[m.group(1)] = m.group(2).strip()
        self.readers, self.writers = {}, {}
        for m in re.finditer(r"static inline (\w+) (\w+)_read\(void\) \{\n(.*?)\n\}", text, re.S):
            self.readers[m.group(2)] = (m.group(1), m.group(3).split("\n"))
        for m in re.finditer(r"static inline void (\w+)_write\((\w+) v\) \{\n(.*?)\n?\}", text, re.S):
            self.writers[m.group(1)] = (m.group(2), [l for l in m.group(3).split("\n") if l.strip()])

    def addr(self, expr):
        expr = expr.strip()
        m = re.fullmatch(r"\(CSR_BASE \+ (0x[0-9a-f]+)L\)", expr)
        if m:
            if self.csr_base is None:
                raise C14Error("CSR_BASE used but not defined")
            return self.csr_base + int(m.group(1), 16)
        m = re.fullmatch(r"(0x[0-9a-f]+)L", expr)
        if m:
            return int(m.group(1), 16)
        raise C14Error("unparsed address expression %r" % expr)

    def value(self, macro):
        v = self.defines[macro]
        if v.startswith("(") or v.endswith("L"):
            return self.addr(v)
        return int(v, 0)

    def read(self, reg, load32):
        """Evaluate `<reg>_read()`; load32(addr) performs the bus access.  Returns the C return value."""
        ctype, body = self.readers[reg]
        bits = self.CT[ctype]
        mask = (1 << bits) - 1
        r = None
        for line in body:
            line = line.strip()
            m = re.fullmatch(r"return csr_read_simple\((.+)\);", line)
            if m:
                return load32(self.addr(m.group(1))) & mask
            m = re.fullmatch(r"(\w+) r = csr_read_simple\((.+)\);", line)
            if m:
                r = load32(self.addr(m.group(2))) & mask
                continue
            m = re.fullmatch(r"r <<= (\d+);", line)
            if m:
                r = (r << int(m.group(1))) & mask
                continue
            m = re.fullmatch(r"r \|= csr_read_simple\((.+)\);", line)
            if m:
                r = (r | load32(self.addr(m.group(1)))) & mask
                continue
            if line == "return r;":
                return r
            raise C14Error("unparsed accessor line %r" % line)
        raise C14Error("reader without return")

    def write(self, reg, v, store32):
        ctype, body = self.writers[reg]
        v &= (1 << self.CT[ctype]) - 1
        for line in body:
            line = line.strip()
            m = re.fullmatch(r"csr_write_simple\(v(?: >> (\d+))?, (.+)\);", line)
            if not m:
                raise C14Error("unparsed accessor line %r" % line)
            sh = int(m.group(1) or 0)
            store32(self.addr(m.group(2)), (v >> sh) & M32)

    def word_addrs(self, reg):
        """Addresses touched by the reader, in program order."""
        out = []
        for line in self.readers[reg][1]:
            for m in re.finditer(r"csr_read_simple\((.+?)\);", line):
                out.append(self.addr(m.group(1)))
        return out


def parse_csv(text):
    d = {"csr_base": {}, "csr_register": {}, "constant": {}, "memory_region": {}}
    for line in text.splitlines():
        if not line or line.startswith("#"):
            continue
        f = line.split(",")
        kind, name = f[0], f[1]
        if kind == "csr_base":
            d[kind][name] = int(f[2], 16)
        elif kind == "csr_register":
            d[kind][name] = (int(f[2], 16), int(f[3]), f[4])
        elif kind == "memory_region":
            d[kind][name] = (int(f[2], 16), int(f[3]), f[4])
        else:
            d[kind][name] = f[2]
    return d


def parse_svd(text):
    """-> {peripheral: {"base": int, "regs": [(name, absolute address)], "size": int}}, memory regions"""
    root = ET.fromstring(text)
    out = {}
    for p in root.find("peripherals"):
        base = int(p.find("baseAddress").text, 16)
        regs = []
        for r in p.find("registers"):
            regs.append((r.find("name").text, base + int(r.find("addressOffset").text, 16)))
        size = int(p.find("addressBlock").find("size").text, 16)
        out[p.find("name").text] = {"base": base, "regs": regs, "size": size}
    mems = {}
    ve = root.find("vendorExtensions")
    mr = ve.find("memoryRegions")
    if mr is not None:
        for m in mr:
            mems[m.find("name").text] = (int(m.find("baseAddress").text, 16), int(m.find("size").text, 16))
    consts = {c.get("name"): c.get("value") for c in ve.find("constants")}
    return out, mems, consts


def parse_mem_header(text):
    out = {}
    for m in re.finditer(r"#define (\w+)_BASE (0x[0-9a-f]+)L\n#define (\w+)_SIZE (0x[0-9a-f]+)", text):
        out[m.group(1)] = (int(m.group(2), 16), int(m.group(4), 16))
    return out


def run_exports(b):
    """Run the real exporters exactly as builder.py does."""
    soc = b.soc
    ex = Built()
    ex.json = json.loads(export.get_csr_json(soc.csr_regions, soc.constants, soc.mem_regions))
    ex.csv = parse_csv(export.get_csr_csv(soc.csr_regions, soc.constants, soc.mem_regions))
    ex.header_text = export.get_csr_header(regions=soc.csr_regions, constants=soc.constants,
                                           csr_base=soc.mem_regions["csr"].origin,
                                           with_access_functions=True, with_fields_access_functions=False)
    ex.header = CHeader(ex.header_text)
    ex.header_fields_text = export.get_csr_header(regions=soc.csr_regions, constants=soc.constants,
                                                  csr_base=soc.mem_regions["csr"].origin,
                                                  with_access_functions=True, with_fields_access_functions=True)
    ex.mem_header = parse_mem_header(export.get_mem_header(soc.mem_regions))
    ex.soc_header = export.get_soc_header(soc.constants)
    ex.linker = export.get_linker_regions(soc.mem_regions)
    try:
        import io, contextlib
        with contextlib.redirect_stdout(io.StringIO()):
            svd_text = export.get_csr_svd(soc)
        ex.svd, ex.svd_mems, ex.svd_consts = parse_svd(svd_text)
        ex.svd_error = None
    except Exception as e:  # the SVD exporter crashing is itself reported by the caller
        ex.svd, ex.svd_mems, ex.svd_consts, ex.svd_error = None, None, None, repr(e)
    return ex


# ------------------------------------------------------------------------------------------------------------
# test bench: the CPU's view

class Tb:
    """32-bit loads/stores on the extra master + per-cycle sampling of all simple-CSR strobes."""

    def __init__(self, b):
        self.b = b
        soc = b.soc
        self.std, self.dw = b.cfg["bus"], b.cfg["bus_dw"]
        self.nl = Netlist(soc)
        self.m = b.master
        # every simple CSR of every bank, keyed by object identity
        self.simple = []        # (bank name, index, CSR object)
        for name, csrs, mapaddr, rmap in soc.csr_bankarray.banks:
            for i, c in enumerate(rmap.simple_csrs):
                self.simple.append((name, i, c))
        self.re_sigs = [c.re for _, _, c in self.simple]
        self.we_sigs = [c.we for _, _, c in self.simple]
        self.srams = list(soc.csr_bankarray.srams)   # (name, memory, mapaddr, mmap)
        self.hits = None
        self.cycles = 0
        self._init_master()

    # -- low level ------------------------------------------------------------------------------------
    def _init_master(self):
        nl, m = self.nl, self.m
        if self.std == "wishbone":
            for s in (m.cyc, m.stb, m.we, m.adr, m.dat_w, m.sel, m.cti, m.bte):
                nl.set(s, 0)
        else:
            for ch in (m.aw, m.w, m.ar):
                nl.set(ch.valid, 0)
            nl.set(m.b.ready, 1)
            nl.set(m.r.ready, 1)
        nl.settle()
        for _ in range(3):
            self._tick()

    def _sample(self):
        if self.hits is None:
            return
        ev = self.nl.ev
        sv = ev.signal_values
        for k, s in enumerate(self.re_sigs):
            if ev.eval(s):
                self.hits["w"].add(k)
        for k, s in enumerate(self.we_sigs):
            if ev.eval(s):
                self.hits["r"].add(k)
        for k, (_, _, mapaddr, mmap) in enumerate(self.srams):
            if (ev.eval(mmap.bus.we) or ev.eval(mmap.bus.re)) and self._sram_sel(mmap, mapaddr):
                self.hits["mw" if ev.eval(mmap.bus.we) else "mr"].add(k)

    def _sram_sel(self, mmap, mapaddr):
        # the SRAM's page compare re-evaluated from its bus address (its `sel` signal is a private local)
        pb = (self.b.cfg["paging"] // 4).bit_length() - 1
        return (self.nl.getu(mmap.bus.adr) >> pb) == mapaddr

    def _tick(self):
        self._sample()
        self.nl.tick()
        self.cycles += 1

    def _lane(self, addr):
        return (addr >> 2) & (self.dw // 32 - 1)

    def access(self, addr, we, dat=0, size=4):
        """One aligned 32-bit access at byte address `addr`.  Returns (read value, hits)."""
        assert addr % 4 == 0
        self.hits = {"w": set(), "r": set(), "mw": set(), "mr": set()}
        lane = self._lane(addr)
        nl, m = self.nl, self.m
        val = None
        if self.std == "wishbone":
            shift = (self.dw // 8).bit_length() - 1
            nl.set(m.adr, addr >> shift)
            nl.set(m.we, we)
            nl.set(m.dat_w, (dat & M32) << (32 * lane))
            nl.set(m.sel, 0xf << (4 * lane))
            nl.set(m.cyc, 1)
            nl.set(m.stb, 1)
            nl.settle()
            n = 0
            while not nl.get(m.ack):
                if nl.get(m.err):
                    break
                self._tick()
                n += 1
                if n > 200:
                    raise C14Error("bus timeout at 0x%x" % addr)
            err = nl.get(m.err) and not nl.get(m.ack)
            val = (nl.getu(m.dat_r) >> (32 * lane)) & M32
            self._tick()
            nl.set(m.cyc, 0)
            nl.set(m.stb, 0)
            nl.set(m.we, 0)
            nl.set(m.sel, 0)
            nl.settle()
            self._tick()
            self._tick()
            if err:
                val = None
        else:
            full = self.std == "axi"
            if not full:
                # AXI-Lite has no narrow transfers: the CPU presents the address of the bus word and selects
                # the 32-bit lane with the strobes / picks it from the read data
                addr = addr & ~(self.dw // 8 - 1)
            if we:
                nl.set(m.aw.addr, addr)
                nl.set(m.w.data, (dat & M32) << (32 * lane))
                nl.set(m.w.strb, 0xf << (4 * lane))
                if full:
                    nl.set(m.aw.len, 0)
                    nl.set(m.aw.size, 2)
                    nl.set(m.aw.burst, 1)
                    nl.set(m.w.last, 1)
                nl.set(m.aw.valid, 1)
                nl.set(m.w.valid, 1)
                nl.settle()
                aw_done = w_done = b_done = False
                n = 0
                while not (aw_done and w_done and b_done):
                    a_hs = (not aw_done) and nl.get(m.aw.ready)
                    w_hs = (not w_done) and nl.get(m.w.ready)
                    b_hs = nl.get(m.b.valid)
                    self._tick()
                    if a_hs:
                        aw_done = True
                        nl.set(m.aw.valid, 0)
                    if w_hs:
                        w_done = True
                        nl.set(m.w.valid, 0)
                        nl.set(m.w.strb, 0)
                    if b_hs:
                        b_done = True
                    nl.settle()
                    n += 1
                    if n > 300:
                        raise C14Error("axi write timeout at 0x%x" % addr)
            else:
                nl.set(m.ar.addr, addr)
                if full:
                    nl.set(m.ar.len, 0)
                    nl.set(m.ar.size, 2)
                    nl.set(m.ar.burst, 1)
                nl.set(m.ar.valid, 1)
                nl.settle()
                ar_done = r_done = False
                n = 0
                while not (ar_done and r_done):
                    a_hs = (not ar_done) and nl.get(m.ar.ready)
                    r_hs = nl.get(m.r.valid)
                    if r_hs:
                        val = (nl.getu(m.r.data) >> (32 * lane)) & M32
                        if nl.getu(m.r.resp) != 0:
                            val = None
                    self._tick()
                    if a_hs:
                        ar_done = True
                        nl.set(m.ar.valid, 0)
                    if r_hs:
                        r_done = True
                    nl.settle()
                    n += 1
                    if n > 300:
                        raise C14Error("axi read timeout at 0x%x" % addr)
            self._tick()
            self._tick()
        hits = self.hits
        self.hits = None
        return val, hits

    def load32(self, addr):
        return self.access(addr, 0)

    def store32(self, addr, v):
        return self.access(addr, 1, v)

    # -- views ----------------------------------------------------------------------------------------
    def name_hits(self, hits):
        """hits -> sorted list of 'kind:bank:index'."""
        out = []
        for kind in ("w", "r"):
            for k in sorted(hits[kind]):
                out.append("%s:%s:%d" % (kind, self.simple[k][0], self.simple[k][1]))
        for kind in ("mw", "mr"):
            for k in sorted(hits[kind]):
                out.append("%s:%s_%s" % (kind, self.srams[k][0], self.srams[k][1].name_override))
        return out

    def get(self, sig):
        return self.nl.getu(sig)

    def set_reg(self, sig, v):
        """Force a register/undriven signal (used to give CSRStatus.status a value)."""
        self.nl.set(sig, v)
        self.nl.settle()

    def mem_word(self, mem, i):
        """Current content of word i of a migen Memory (after MemoryToArray lowering)."""
        arr = self._mem_arrays().get(mem)
        if arr is None:
            raise C14Error("memory not found in lowered design")
        return self.nl.getu(arr[i])

    def _mem_arrays(self):
        if not hasattr(self, "_marr"):
            self._marr = {mem: list(arr) for mem, arr in self.nl.ev.replaced_memories.items()}
        return self._marr
