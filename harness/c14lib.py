"""C14 — exported software maps tell the truth about the hardware: real-code side.

`build(cfg)` elaborates a real `SoCMini` (cpu_type=None) on a `SimPlatform` from a JSON-able configuration
(bus standard/width/interconnect, CSR width/paging/ordering/address width, CSR base, peripherals with random
CSRStorage/CSRStatus/CSR memories/fixed locations, RAMs with init images), adds an extra bus master that plays
the CPU, finalizes, runs the real exporters (JSON, CSV, csr.h, mem.h, soc.h, SVD) and parses them.
`Tb` drives the finalized SoC through `netlist.Netlist` (the repository's own simulator semantics): 32-bit
loads/stores at byte addresses on the extra master (wishbone / AXI-Lite / AXI4 single-beat), while sampling in
every cycle the read/write strobes of *every* simple CSR of every bank — this is the observation "which
register answered".  `check_soc(cfg)` is the end-to-end oracle (independent of the Lean model) and at the same
time records the lines that `props/c14.py` sends to the Lean driver.

The C compiler's reading of csr.h is replaced by `CHeader`: a parser for the few statement forms the exporter
emits (`r = csr_read_simple(A); r <<= N; r |= csr_read_simple(A); return r;`, `csr_write_simple(v >> N, A);`)
evaluated with C unsigned semantics (ctype truncation, 32-bit MMPTR accesses).
"""
import os, re, json, random, tempfile, shutil, traceback
import xml.etree.ElementTree as ET
import envshim  # noqa: F401
envshim.install()
from netlist import Netlist

from migen import Signal, Memory
from litex.gen import LiteXModule
from litex.build.sim import SimPlatform
from litex.build.generic_platform import Pins
from litex.soc.integration.soc_core import SoCMini
from litex.soc.integration.soc import SoCError, SoCRegion
from litex.soc.integration import export
from litex.soc.integration.common import get_mem_data
from litex.soc.interconnect.csr import CSR, CSRStorage, CSRStatus, CSRField, AutoCSR, _CompoundCSR
from litex.soc.interconnect import wishbone, axi

_IO = [("sys_clk", 0, Pins(1)), ("sys_rst", 0, Pins(1))]
M32 = 0xffffffff


class C14Error(Exception):
    pass


# ------------------------------------------------------------------------------------------------------------
# configuration -> real SoC

def make_periph(pcfg):
    """A LiteXModule with AutoCSR carrying the registers / memories of `pcfg` (explicit names everywhere)."""
    m = LiteXModule()
    m._c14_regs = {}
    m._c14_mems = {}
    for r in pcfg.get("regs", []):
        kw = {"name": r["name"]}
        if r.get("n") is not None:
            kw["n"] = r["n"]
        fields = [CSRField(f["name"], size=f["size"], offset=f.get("offset")) for f in r.get("fields", [])]
        if r["kind"] == "storage":
            if fields:
                c = CSRStorage(fields=fields, atomic_write=bool(r.get("atomic")), **kw)
            else:
                c = CSRStorage(r["size"], reset=r.get("reset", 0), atomic_write=bool(r.get("atomic")), **kw)
        elif r["kind"] == "status":
            c = CSRStatus(fields=fields, **kw) if fields else CSRStatus(r["size"], read_only=r.get("read_only", True), **kw)
        else:
            c = CSR(r["size"], **kw)
        setattr(m, "_" + r["name"], c)
        m._c14_regs[r["name"]] = c
    for mm in pcfg.get("mems", []):
        mem = Memory(mm["width"], mm["depth"], name=mm["name"])
        setattr(m, "_" + mm["name"], mem)
        m._c14_mems[mm["name"]] = mem
    return m


class Built:
    pass


class ByteWbMem(LiteXModule):
    """A byte-addressed Wishbone slave with its own RAM (what a user core with `addressing="byte"` looks like):
    cell = adr[log2(dw/8):], one-cycle ack, byte write enables from `sel`."""
    autocsr_exclude = {"mem"}

    def __init__(self, size, dw, aw, init):
        from migen import If
        self.bus = bus = wishbone.Interface(data_width=dw, address_width=aw, addressing="byte")
        self.mem = Memory(dw, size // (dw // 8), init=init)
        port = self.mem.get_port(write_capable=True, we_granularity=8)
        self.specials += self.mem, port
        sh = (dw // 8).bit_length() - 1
        self.comb += [port.adr.eq(bus.adr[sh:sh + len(port.adr)]), port.dat_w.eq(bus.dat_w), bus.dat_r.eq(port.dat_r)]
        self.comb += [port.we[i].eq(bus.cyc & bus.stb & bus.we & bus.sel[i] & ~bus.ack) for i in range(dw // 8)]
        self.sync += [bus.ack.eq(0), If(bus.cyc & bus.stb & ~bus.ack, bus.ack.eq(1))]


class AxiMem(LiteXModule):
    """An AXI4 slave with its own RAM: the repository's AXI2AXILite in front of its AXILiteSRAM."""
    autocsr_exclude = {"mem"}

    def __init__(self, size, dw, aw, init):
        self.bus = axi.AXIInterface(data_width=dw, address_width=aw, id_width=1)
        lite = axi.AXILiteInterface(data_width=dw, address_width=aw)
        self.conv = axi.AXI2AXILite(self.bus, lite)
        self.ram = axi.AXILiteSRAM(size, init=init, bus=lite)
        self.mem = self.ram.mem


def uslave_init(u, dws):
    """Distinct content for every 32-bit word of the slave's RAM (aliasing / shifted windows show at the first load)."""
    n32 = u["size"] // 4
    salt = u.get("salt", 0x5a5a)
    w32 = [((((salt + 7 * k) & 0xffff) << 16) | (k & 0xffff)) for k in range(n32)]
    per = dws // 32
    return [sum(w32[c * per + l] << (32 * l) for l in range(per)) for c in range(n32 // per)], w32


def make_uslave(u, bus_dw, aw):
    """-> (module, bus interface, Memory, data width) of a user slave described by `u` (std, addressing, dw, size)."""
    dws = u.get("dw") or bus_dw
    init, _ = uslave_init(u, dws)
    std = u["std"]
    if std == "wishbone" and u.get("addressing", "word") == "word":
        mod = wishbone.SRAM(u["size"], init=init, bus=wishbone.Interface(data_width=dws, address_width=aw, addressing="word"))
    elif std == "wishbone":
        mod = ByteWbMem(u["size"], dws, aw, init)
    elif std == "axi-lite":
        mod = axi.AXILiteSRAM(u["size"], init=init, bus=axi.AXILiteInterface(data_width=dws, address_width=aw))
    else:
        mod = AxiMem(u["size"], dws, aw, init)
    return mod, mod.bus, mod.mem, dws


def build(cfg, tmpdir=None):
    """Elaborate the SoC described by cfg.  Raises SoCError (build refused) like the real flow would."""
    import io, contextlib
    with contextlib.redirect_stdout(io.StringIO()):
        return _build(cfg, tmpdir)


def _build(cfg, tmpdir=None):
    bus_std, bus_dw = cfg["bus"], cfg["bus_dw"]
    mem_map = {"csr": cfg.get("csr_origin", 0)}
    csr_map = dict(cfg.get("csr_map", {}))
    for p in cfg.get("periphs", []):
        if p.get("loc") is not None and p.get("via_csr_map"):
            csr_map[p["name"]] = p["loc"]
    cls = type("C14SoC", (SoCMini,), {"mem_map": dict(mem_map), "csr_map": csr_map})
    plat = SimPlatform("SIM", _IO)
    envshim.quiet_stderr()
    soc = cls(plat, clk_freq=int(1e6),
              bus_standard=bus_std, bus_data_width=bus_dw, bus_address_width=cfg.get("bus_aw", 32),
              bus_interconnect=cfg.get("ic", "shared"), bus_timeout=cfg.get("bus_timeout", 1e6),
              csr_data_width=cfg["csr_dw"], csr_address_width=cfg.get("csr_aw", 14), csr_paging=cfg["paging"],
              csr_ordering=cfg.get("ordering", "big"), with_ctrl=bool(cfg.get("with_ctrl", True)))
    b = Built()
    b.cfg, b.soc = cfg, soc
    b.periphs = {}
    for p in cfg.get("periphs", []):
        if p.get("loc") is not None and not p.get("via_csr_map"):
            soc.add_csr(p["name"], p["loc"])
        m = make_periph(p)
        setattr(soc, p["name"], m)
        b.periphs[p["name"]] = m
    b.rams = {}
    b.ram_files = {}
    for r in cfg.get("rams", []):
        contents = []
        if r.get("init") is not None:
            d = tmpdir or tempfile.mkdtemp(prefix="c14_")
            fn = os.path.join(d, r["name"] + ".bin")
            with open(fn, "wb") as f:
                f.write(bytes(r["init"]["bytes"]))
            contents = get_mem_data(fn, data_width=bus_dw, endianness=r["init"]["endianness"])
            if tmpdir is None:
                shutil.rmtree(d, ignore_errors=True)
        if r.get("mode") == "rx":
            soc.add_rom(r["name"], origin=r["origin"], size=r["size"], contents=contents)
        else:
            soc.add_ram(r["name"], origin=r["origin"], size=r["size"], contents=contents, mode=r.get("mode", "rwx"))
        b.rams[r["name"]] = getattr(soc, r["name"])
    # user slaves of any standard / addressing / data width behind `SoCBusHandler.add_slave` (mixed-standard compositions)
    aw = cfg.get("bus_aw", 32)
    b.uslaves = {}
    for u in cfg.get("uslaves", []):
        mod, itf, mem, dws = make_uslave(u, bus_dw, aw)
        setattr(soc, u["name"], mod)
        soc.bus.add_slave(u["name"], itf, SoCRegion(origin=u["origin"], size=u["size"], mode=u.get("mode", "rw")))
        b.uslaves[u["name"]] = (mod, itf, mem, dws)
    # the extra master that plays the CPU (its standard / addressing may differ from the SoC bus: `add_adapter` m2s)
    mc = cfg.get("master") or {}
    mstd = mc.get("std", bus_std)
    b.master_std = mstd
    if mstd == "wishbone":
        m = wishbone.Interface(data_width=bus_dw, address_width=aw, addressing=mc.get("addressing", "word"))
    elif mstd == "axi-lite":
        m = axi.AXILiteInterface(data_width=bus_dw, address_width=aw)
    else:
        m = axi.AXIInterface(data_width=bus_dw, address_width=aw, id_width=1)
    soc.bus.add_master(name="tb", master=m)
    if cfg.get("second_master"):
        m2 = type(m)(data_width=bus_dw, address_width=aw) if mstd != "wishbone" else \
            wishbone.Interface(data_width=bus_dw, address_width=aw, addressing="word")
        soc.bus.add_master(name="tb2", master=m2)
        b.master2 = m2
    b.master = m
    soc.finalize()
    envshim.quiet_stderr()
    return b


def safe_build(cfg):
    """-> (Built | None, verdict) with verdict in ok | rejected (SoCError) ."""
    try:
        return build(cfg), "ok"
    except SoCError:
        envshim.quiet_stderr()
        return None, "rejected"


# ------------------------------------------------------------------------------------------------------------
# the real exporters, parsed

class CHeader:
    """csr.h as the C compiler sees it (only the statement forms the exporter emits)."""

    CT = {"uint8_t": 8, "uint16_t": 16, "uint32_t": 32, "uint64_t": 64}

    def __init__(self, text):
        self.text = text
        m = re.search(r"#define CSR_BASE (0x[0-9a-f]+)L", text)
        self.csr_base = int(m.group(1), 16) if m else None
        self.defines = {}
        for m in re.finditer(r"^#define (CSR_\w+) (.+)$", text, re.M):
            self.defines[m.group(1)] = m.group(2).strip()
        self.readers, self.writers = {}, {}
        for m in re.finditer(r"static inline (\w+) (\w+)_read\(void\) \{\n(.*?)\n\}", text, re.S):
            self.readers[m.group(2)] = (m.group(1), m.group(3).split("\n"))
        for m in re.finditer(r"static inline void (\w+)_write\((\w+) v\) \{\n(.*?)\n?\}", text, re.S):
            self.writers[m.group(1)] = (m.group(2), [l for l in m.group(3).split("\n") if l.strip()])

    def addr(self, expr):
        expr = expr.strip()
        m = re.fullmatch(r"\(CSR_BASE \+ (0x[0-9a-f]+)L\)", expr)
        if m:
            if self.csr_base is None:
                raise C14Error("CSR_BASE used but not defined")
            return self.csr_base + int(m.group(1), 16)
        m = re.fullmatch(r"(0x[0-9a-f]+)L", expr)
        if m:
            return int(m.group(1), 16)
        raise C14Error("unparsed address expression %r" % expr)

    def value(self, macro):
        v = self.defines[macro]
        if v.startswith("(") or v.endswith("L"):
            return self.addr(v)
        return int(v, 0)

    def read(self, reg, load32):
        """Evaluate `<reg>_read()`; load32(addr) performs the bus access.  Returns the C return value."""
        ctype, body = self.readers[reg]
        bits = self.CT[ctype]
        mask = (1 << bits) - 1
        r = None
        for line in body:
            line = line.strip()
            m = re.fullmatch(r"return csr_read_simple\((.+)\);", line)
            if m:
                return load32(self.addr(m.group(1))) & mask
            m = re.fullmatch(r"(\w+) r = csr_read_simple\((.+)\);", line)
            if m:
                r = load32(self.addr(m.group(2))) & mask
                continue
            m = re.fullmatch(r"r <<= (\d+);", line)
            if m:
                r = (r << int(m.group(1))) & mask
                continue
            m = re.fullmatch(r"r \|= csr_read_simple\((.+)\);", line)
            if m:
                r = (r | load32(self.addr(m.group(1)))) & mask
                continue
            if line == "return r;":
                return r
            raise C14Error("unparsed accessor line %r" % line)
        raise C14Error("reader without return")

    def write(self, reg, v, store32):
        ctype, body = self.writers[reg]
        v &= (1 << self.CT[ctype]) - 1
        for line in body:
            line = line.strip()
            m = re.fullmatch(r"csr_write_simple\(v(?: >> (\d+))?, (.+)\);", line)
            if not m:
                raise C14Error("unparsed accessor line %r" % line)
            sh = int(m.group(1) or 0)
            store32(self.addr(m.group(2)), (v >> sh) & M32)

    def word_addrs(self, reg):
        """Addresses touched by the reader, in program order."""
        out = []
        for line in self.readers[reg][1]:
            for m in re.finditer(r"csr_read_simple\((.+?)\);", line):
                out.append(self.addr(m.group(1)))
        return out


def parse_csv(text):
    d = {"csr_base": {}, "csr_register": {}, "constant": {}, "memory_region": {}}
    for line in text.splitlines():
        if not line or line.startswith("#"):
            continue
        f = line.split(",")
        kind, name = f[0], f[1]
        if kind == "csr_base":
            d[kind][name] = int(f[2], 16)
        elif kind == "csr_register":
            d[kind][name] = (int(f[2], 16), int(f[3]), f[4])
        elif kind == "memory_region":
            d[kind][name] = (int(f[2], 16), int(f[3]), f[4])
        else:
            d[kind][name] = f[2]
    return d


def parse_svd(text):
    """-> {peripheral: {"base": int, "regs": [(name, absolute address)], "size": int}}, memory regions"""
    root = ET.fromstring(text)
    out = {}
    for p in root.find("peripherals"):
        base = int(p.find("baseAddress").text, 16)
        regs = []
        for r in p.find("registers"):
            regs.append((r.find("name").text, base + int(r.find("addressOffset").text, 16)))
        size = int(p.find("addressBlock").find("size").text, 16)
        irq = p.find("interrupt")
        out[p.find("name").text] = {"base": base, "regs": regs, "size": size,
                                    "irq": None if irq is None else int(irq.find("value").text)}
    mems = {}
    ve = root.find("vendorExtensions")
    mr = ve.find("memoryRegions")
    if mr is not None:
        for m in mr:
            mems[m.find("name").text] = (int(m.find("baseAddress").text, 16), int(m.find("size").text, 16))
    consts = {c.get("name"): c.get("value") for c in ve.find("constants")}
    return out, mems, consts


def parse_mem_header(text):
    out = {}
    for m in re.finditer(r"#define (\w+)_BASE (0x[0-9a-f]+)L\n#define (\w+)_SIZE (0x[0-9a-f]+)", text):
        out[m.group(1)] = (int(m.group(2), 16), int(m.group(4), 16))
    return out


def parse_mem_regions_string(text):
    """The `MEM_REGIONS` string of mem.h (printed by the BIOS): {NAME: (base, size)}."""
    m = re.search(r'#define MEM_REGIONS "(.*)"', text)
    out = {}
    if m:
        for row in m.group(1).split("\\n"):
            f = row.split()
            if len(f) == 3:
                out[f[0]] = (int(f[1], 16), int(f[2], 16))
    return out


def run_exports(b):
    """Run the real export flow: `Builder._generate_includes` / `_generate_csr_map` write csr.h, mem.h, soc.h,
    csr.json, csr.csv, csr.svd into a scratch directory exactly as a build does; the files are read back."""
    from litex.soc.integration.builder import Builder
    import io, contextlib
    soc = b.soc
    ex = Built()
    d = tempfile.mkdtemp(prefix="c14_")
    try:
        with contextlib.redirect_stdout(io.StringIO()):
            bld = Builder(soc, output_dir=d, compile_software=False, compile_gateware=False,
                          csr_json=os.path.join(d, "csr.json"), csr_csv=os.path.join(d, "csr.csv"))
            bld._generate_includes(with_bios=False)
            bld._generate_csr_map()
        gen = os.path.join(d, "software", "include", "generated")
        ex.json = json.load(open(os.path.join(d, "csr.json")))
        ex.csv = parse_csv(open(os.path.join(d, "csr.csv")).read())
        ex.header_text = open(os.path.join(gen, "csr.h")).read()
        ex.mem_header = parse_mem_header(open(os.path.join(gen, "mem.h")).read())
        ex.mem_regions_string = parse_mem_regions_string(open(os.path.join(gen, "mem.h")).read())
        ex.regions_ld = open(os.path.join(gen, "regions.ld")).read() if os.path.exists(os.path.join(gen, "regions.ld")) else None
        ex.soc_header = open(os.path.join(gen, "soc.h")).read()
        envshim.quiet_stderr()
        try:
            with contextlib.redirect_stdout(io.StringIO()):
                bld.csr_svd = os.path.join(d, "csr.svd")
                bld.csr_json = bld.csr_csv = None
                bld._generate_csr_map()
            ex.svd, ex.svd_mems, ex.svd_consts = parse_svd(open(os.path.join(d, "csr.svd")).read())
            ex.svd_error = None
        except Exception as e:  # the SVD exporter crashing is itself reported by the caller
            ex.svd, ex.svd_mems, ex.svd_consts, ex.svd_error = None, None, None, repr(e)
    finally:
        shutil.rmtree(d, ignore_errors=True)
    ex.header = CHeader(ex.header_text)
    ex.header_fields_text = export.get_csr_header(regions=soc.csr_regions, constants=soc.constants,
                                                  csr_base=soc.mem_regions["csr"].origin,
                                                  with_access_functions=True, with_fields_access_functions=True)
    ex.fields = parse_field_functions(ex.header_fields_text)
    ex.linker = export.get_linker_regions(soc.mem_regions)
    return ex


def parse_field_functions(text):
    """`<field>_extract` / `<field>_replace` of csr.h (with_fields_access_functions) -> {name: (offset, mask)}; the two
    functions must use the same mask/offset and the statement forms evaluated by `field_extract/field_replace`."""
    out = {}
    for m in re.finditer(r"static inline uint32_t (\w+)_extract\(uint32_t oldword\) \{\n\tuint32_t mask = (0x[0-9a-f]+);\n"
                         r"\treturn \(\(oldword >> (\d+)\) & mask\);\n\}", text):
        out[m.group(1)] = {"offset": int(m.group(3)), "mask": int(m.group(2), 16), "replace": None}
    for m in re.finditer(r"static inline uint32_t (\w+)_replace\(uint32_t oldword, uint32_t plain_value\) \{\n\tuint32_t mask = (0x[0-9a-f]+);\n"
                         r"\treturn \(oldword & \(~\(mask << (\d+)\)\)\) \| \(\(mask & plain_value\) << (\d+)\);\n\}", text):
        if m.group(1) in out:
            out[m.group(1)]["replace"] = (int(m.group(2), 16), int(m.group(3)), int(m.group(4)))
    return out


def field_extract(f, word):
    return ((word & M32) >> f["offset"]) & f["mask"]


def field_replace(f, old, x):
    mask, o1, o2 = f["replace"]
    return ((old & ~(mask << o1)) | ((mask & x) << o2)) & M32


# ------------------------------------------------------------------------------------------------------------
# test bench: the CPU's view

class Tb:
    """32-bit loads/stores on the extra master + per-cycle sampling of all simple-CSR strobes."""

    def __init__(self, b):
        self.b = b
        soc = b.soc
        self.std, self.dw = getattr(b, "master_std", b.cfg["bus"]), b.cfg["bus_dw"]
        self.nl = Netlist(soc)
        self.m = b.master
        # every simple CSR of every bank, keyed by object identity
        self.simple = []        # (bank name, index, CSR object)
        for name, csrs, mapaddr, rmap in soc.csr_bankarray.banks:
            for i, c in enumerate(rmap.simple_csrs):
                self.simple.append((name, i, c))
        self.re_sigs = [c.re for _, _, c in self.simple]
        self.we_sigs = [c.we for _, _, c in self.simple]
        self.srams = list(soc.csr_bankarray.srams)   # (name, memory, mapaddr, mmap)
        self.enable_sigs = []
        for name, csrs, mapaddr, rmap in soc.csr_bankarray.banks:
            self.enable_sigs += [rmap.bus.we, rmap.bus.re]
        for name, memory, mapaddr, mmap in self.srams:
            self.enable_sigs += [mmap.bus.we, mmap.bus.re]
        self.slave_sel = []     # (name, [signals whose assertion means "this slave is addressed"])
        for name, itf in soc.bus.slaves.items():
            if hasattr(itf, "cyc"):
                self.slave_sel.append((name, [itf.cyc]))
            else:
                self.slave_sel.append((name, [itf.aw.valid, itf.ar.valid, itf.w.valid]))
        self.hits = None
        self.cycles = 0
        self._init_master()

    # -- low level ------------------------------------------------------------------------------------
    def _init_master(self):
        nl, m = self.nl, self.m
        if self.std == "wishbone":
            for s in (m.cyc, m.stb, m.we, m.adr, m.dat_w, m.sel, m.cti, m.bte):
                nl.set(s, 0)
        else:
            for ch in (m.aw, m.w, m.ar):
                nl.set(ch.valid, 0)
            nl.set(m.b.ready, 1)
            nl.set(m.r.ready, 1)
        nl.settle()
        for _ in range(3):
            self._tick()

    def _sample(self):
        if self.hits is None:
            return
        ev = self.nl.ev
        for name, sigs in self.slave_sel:
            if any(ev.eval(x) for x in sigs):
                self.hits["s"].add(name)
        # the strobes of a bank are gated by its own bus.we / bus.re: scan the simple CSRs only in cycles in which
        # some bank (or CSR memory) sees a write or read enable
        if not any(ev.eval(s_) for s_ in self.enable_sigs):
            return
        cnt = self.hits["n"]
        for k, s in enumerate(self.re_sigs):
            if ev.eval(s):
                self.hits["w"].add(k)
                cnt[("w", k)] = cnt.get(("w", k), 0) + 1
        for k, s in enumerate(self.we_sigs):
            if ev.eval(s):
                self.hits["r"].add(k)
                cnt[("r", k)] = cnt.get(("r", k), 0) + 1
        for k, (_, _, mapaddr, mmap) in enumerate(self.srams):
            if (ev.eval(mmap.bus.we) or ev.eval(mmap.bus.re)) and self._sram_sel(mmap, mapaddr):
                self.hits["mw" if ev.eval(mmap.bus.we) else "mr"].add(k)

    def _sram_sel(self, mmap, mapaddr):
        # the SRAM's page compare re-evaluated from its bus address (its `sel` signal is a private local)
        pb = (self.b.cfg["paging"] // 4).bit_length() - 1
        return (self.nl.getu(mmap.bus.adr) >> pb) == mapaddr

    def _tick(self):
        self._sample()
        self.nl.tick()
        self.cycles += 1

    def _lane(self, addr):
        return (addr >> 2) & (self.dw // 32 - 1)

    def access(self, addr, we, dat=0, size=4):
        """One aligned 32-bit access at byte address `addr`.  Returns (read value, hits)."""
        assert addr % 4 == 0
        self.hits = {"w": set(), "r": set(), "mw": set(), "mr": set(), "s": set(), "n": {}}
        lane = self._lane(addr)
        nl, m = self.nl, self.m
        val = None
        if self.std == "wishbone":
            shift = (self.dw // 8).bit_length() - 1 if m.addressing == "word" else 0
            nl.set(m.adr, addr >> shift)
            nl.set(m.we, we)
            nl.set(m.dat_w, (dat & M32) << (32 * lane))
            nl.set(m.sel, 0xf << (4 * lane))
            nl.set(m.cyc, 1)
            nl.set(m.stb, 1)
            nl.settle()
            n = 0
            while not nl.get(m.ack):
                if nl.get(m.err):
                    break
                self._tick()
                n += 1
                if n > 200:
                    raise C14Error("bus timeout at 0x%x" % addr)
            err = nl.get(m.err) and not nl.get(m.ack)
            val = (nl.getu(m.dat_r) >> (32 * lane)) & M32
            self._tick()
            nl.set(m.cyc, 0)
            nl.set(m.stb, 0)
            nl.set(m.we, 0)
            nl.set(m.sel, 0)
            nl.settle()
            self._tick()
            self._tick()
            if err:
                val = None
        else:
            full = self.std == "axi"
            if not full:
                # AXI-Lite has no narrow transfers: the CPU presents the address of the bus word and selects
                # the 32-bit lane with the strobes / picks it from the read data
                addr = addr & ~(self.dw // 8 - 1)
            if we:
                nl.set(m.aw.addr, addr)
                nl.set(m.w.data, (dat & M32) << (32 * lane))
                nl.set(m.w.strb, 0xf << (4 * lane))
                if full:
                    nl.set(m.aw.len, 0)
                    nl.set(m.aw.size, 2)
                    nl.set(m.aw.burst, 1)
                    nl.set(m.w.last, 1)
                nl.set(m.aw.valid, 1)
                nl.set(m.w.valid, 1)
                nl.settle()
                aw_done = w_done = b_done = False
                n = 0
                while not (aw_done and w_done and b_done):
                    a_hs = (not aw_done) and nl.get(m.aw.ready)
                    w_hs = (not w_done) and nl.get(m.w.ready)
                    b_hs = nl.get(m.b.valid)
                    self._tick()
                    if a_hs:
                        aw_done = True
                        nl.set(m.aw.valid, 0)
                    if w_hs:
                        w_done = True
                        nl.set(m.w.valid, 0)
                        nl.set(m.w.strb, 0)
                    if b_hs:
                        b_done = True
                    nl.settle()
                    n += 1
                    if n > 300:
                        raise C14Error("axi write timeout at 0x%x" % addr)
            else:
                nl.set(m.ar.addr, addr)
                if full:
                    nl.set(m.ar.len, 0)
                    nl.set(m.ar.size, 2)
                    nl.set(m.ar.burst, 1)
                nl.set(m.ar.valid, 1)
                nl.settle()
                ar_done = r_done = False
                n = 0
                while not (ar_done and r_done):
                    a_hs = (not ar_done) and nl.get(m.ar.ready)
                    r_hs = nl.get(m.r.valid)
                    if r_hs:
                        val = (nl.getu(m.r.data) >> (32 * lane)) & M32
                        if nl.getu(m.r.resp) != 0:
                            val = None
                    self._tick()
                    if a_hs:
                        ar_done = True
                        nl.set(m.ar.valid, 0)
                    if r_hs:
                        r_done = True
                    nl.settle()
                    n += 1
                    if n > 300:
                        raise C14Error("axi read timeout at 0x%x" % addr)
            self._tick()
            self._tick()
        hits = self.hits
        self.hits = None
        return val, hits

    def load32(self, addr):
        return self.access(addr, 0)

    def store32(self, addr, v):
        return self.access(addr, 1, v)

    # -- views ----------------------------------------------------------------------------------------
    def name_hits(self, hits):
        """hits -> sorted list of 'kind:bank:index'."""
        out = []
        for kind in ("w", "r"):
            for k in sorted(hits[kind]):
                out.append("%s:%s:%d" % (kind, self.simple[k][0], self.simple[k][1]))
        for kind in ("mw", "mr"):
            for k in sorted(hits[kind]):
                out.append("%s:%s_%s" % (kind, self.srams[k][0], self.srams[k][1].name_override))
        return out

    def get(self, sig):
        return self.nl.getu(sig)

    def set_reg(self, sig, v):
        """Force a register/undriven signal (used to give CSRStatus.status a value)."""
        self.nl.set(sig, v)
        self.nl.settle()

    def mem_word(self, mem, i):
        """Current content of word i of a migen Memory (after MemoryToArray lowering)."""
        arr = self._mem_arrays().get(mem)
        if arr is None:
            raise C14Error("memory not found in lowered design")
        return self.nl.getu(arr[i])

    def _mem_arrays(self):
        if not hasattr(self, "_marr"):
            self._marr = {mem: list(arr) for mem, arr in self.nl.ev.replaced_memories.items()}
        return self._marr


# ------------------------------------------------------------------------------------------------------------
# ground truth from the elaborated objects (what the hardware *is*), keyed by object identity

class RegInfo:
    pass


def soc_structure(b):
    """Per CSR region (in the exporters' order): page, register objects, their simple CSRs (address order)."""
    soc = b.soc
    page_of = {}
    for name, csrs, mapaddr, rmap in soc.csr_bankarray.banks:
        page_of[name] = mapaddr
    mem_of = {}
    for name, memory, mapaddr, mmap in soc.csr_bankarray.srams:
        page_of[name + "_" + memory.name_override] = mapaddr
        mem_of[name + "_" + memory.name_override] = (memory, mmap)
    regions = []
    for rname, region in soc.csr_regions.items():
        R = Built()
        R.name, R.origin, R.page, R.busword = rname, region.origin, page_of[rname], region.busword
        R.regs = []
        R.mem = mem_of.get(rname)
        if R.mem is None:
            for c in region.obj:
                ri = RegInfo()
                ri.obj, ri.name, ri.size = c, c.name, c.size
                ri.full = rname + "_" + c.name
                ri.simple = list(c.simple_csrs) if isinstance(c, _CompoundCSR) else [c]
                ri.kind = "storage" if isinstance(c, CSRStorage) else "status" if isinstance(c, CSRStatus) else "csr"
                ri.atomic = bool(getattr(c, "atomic_write", False))
                R.regs.append(ri)
        regions.append(R)
    return regions


def clog2(n):
    return 0 if n <= 1 else (n - 1).bit_length()


def spec_table(cfg):
    """What was ASKED for (constructor arguments only): {region: {"regs": {name: (kind, size, atomic)}, "mem": (width, depth)}}.
    Sizes, depths and widths used by the oracle and sent to the model come from here, never from the elaborated objects."""
    W = cfg["paging"] // 4
    spec = {}
    if cfg.get("with_ctrl", True):
        spec["ctrl"] = {"regs": {"reset": ("storage", 2, False), "scratch": ("storage", 32, False),
                                 "bus_errors": ("status", 32, False)}, "mem": None}
    for p in cfg.get("periphs", []):
        regs = {}
        for r in p.get("regs", []):
            size = r["size"]
            if r.get("fields"):
                size = r["fields"][-1]["offset"] + r["fields"][-1]["size"]
            regs[r["name"]] = (r["kind"], size, bool(r.get("atomic")), r.get("read_only", True))
        for m in p.get("mems", []):
            pb = clog2((m["depth"] * nwords(cfg["csr_dw"], m["width"]) + W - 1) // W)
            if pb:
                regs[m["name"] + "_page"] = ("storage", pb, False, True)
            spec[p["name"] + "_" + m["name"]] = {"regs": {}, "mem": (m["width"], m["depth"])}
        if regs:
            spec[p["name"]] = {"regs": regs, "mem": None}
    return spec


def apply_spec(cfg, regions, alarm):
    """Replace implementation-derived attributes of the structure by the specified ones; report every difference."""
    spec = spec_table(cfg)
    bw = cfg["csr_dw"]
    seen = set()
    for R in regions:
        sp = spec.get(R.name)
        if sp is None:
            alarm("unexpected CSR region %s published" % R.name)
            continue
        seen.add(R.name)
        R.mem_spec = sp["mem"]
        if (R.mem is None) != (sp["mem"] is None):
            alarm("region %s: memory/bank kind differs from what was built" % R.name)
        names = set()
        for r in R.regs:
            names.add(r.name)
            want = sp["regs"].get(r.name)
            if want is None:
                if r.name.startswith("reserved") and r.size == 1:
                    continue
                alarm("unexpected register %s published" % r.full)
                continue
            kind, size, atomic = want[0], want[1], want[2]
            if r.size != size or r.obj.size != size:
                alarm("%s: %d bits were asked for, the CSR object reports %d" % (r.full, size, r.size))
            if len(r.simple) != nwords(bw, size):
                alarm("%s: %d bits need %d words of %d bits, the hardware has %d simple CSRs" % (
                    r.full, size, nwords(bw, size), bw, len(r.simple)))
            for k_, sc in enumerate(r.simple):
                i_ = (len(r.simple) - 1 - k_) if cfg.get("ordering", "big") == "big" else k_
                if len(r.simple) == nwords(bw, size) and sc.size != min(size - i_ * bw, bw):
                    alarm("%s: simple CSR at position %d is %d bits wide, expected %d" % (r.full, k_, sc.size, min(size - i_ * bw, bw)))
            if r.kind != kind:
                alarm("%s: asked for a %s, got a %s" % (r.full, kind, r.kind))
            r.size, r.atomic = size, atomic
        for n_ in sp["regs"]:
            if n_ not in names:
                alarm("register %s_%s was built but is not published" % (R.name, n_))
    for n_ in spec:
        if n_ not in seen:
            alarm("CSR region %s was built but is not published" % n_)
    return spec


def bank_words(regions):
    """The bank list as sent to the Lean driver: `<page> <size> ...` per region in export order."""
    return " ; ".join(" ".join([str(R.page)] + [str(r.size) + ("p" if r.kind == "csr" else "") for r in R.regs]) for R in regions)


R_CSR8 = "C14-csr8-stride"
R_LITTLE = "C14-little-ordering-accessors"
R_AXIL_RD = "C14-axil-wide-bus-read-side-effects"
R_UNALIGNED = "C14-mem-image-unaligned-base"
KNOWN_REGIONS = (R_CSR8, R_LITTLE, R_AXIL_RD)


def config_regions(cfg, regions=None):
    """Finding regions a configuration lies in (predicates over the configuration only)."""
    out = set()
    if cfg["csr_dw"] == 8:
        out.add(R_CSR8)
    if cfg.get("ordering", "big") == "little":
        out.add(R_LITTLE)
    if cfg["bus"] in ("axi-lite", "axi") and cfg["bus_dw"] > 32:
        out.add(R_AXIL_RD)
    return out


def nwords(busword, size):
    return (size + busword - 1) // busword


def check_soc(cfg, seed=0, max_regs=None, max_words=None):
    """Build, export, access every exported address.  Returns a picklable record:
       verdict, lean: [(call line, real answer)], alarms: [(finding region | None, text)], stats."""
    rng = random.Random(seed)
    rec = {"cfg": cfg, "seed": seed, "lean": [], "alarms": [], "stats": {}, "verdict": None, "samples": []}
    st = rec["stats"]

    def count(k, n=1):
        st[k] = st.get(k, 0) + n

    b, verdict = safe_build(cfg)
    rec["verdict"] = verdict
    bw = cfg["csr_dw"]
    paging = cfg["paging"]
    aw = cfg.get("csr_aw", 14)
    if b is None:
        return rec
    soc = b.soc
    ex = run_exports(b)
    regions = soc_structure(b)
    inreg = config_regions(cfg, regions)
    rec["regions"] = sorted(inreg)
    csr_base = cfg.get("csr_origin", 0)
    big = cfg.get("ordering", "big") == "big"

    def alarm(text, *tags):
        """An oracle alarm; attributed to the first finding region in `tags` the configuration lies in."""
        tag = next((t for t in tags if t is not None and t in inreg), None)
        rec["alarms"].append((tag, text))

    apply_spec(cfg, regions, alarm)
    banks = bank_words(regions)
    rec["lean"].append(("accepts %d %d %d %d ; %s" % (32, aw, paging, bw, banks), "ok"))
    if soc.bus.regions["csr"].origin != csr_base or soc.bus.regions["csr"].size != 4 << aw:
        alarm("CSR bus region is (0x%x, 0x%x), asked for (0x%x, 0x%x)" % (soc.bus.regions["csr"].origin,
                                                                        soc.bus.regions["csr"].size, csr_base, 4 << aw))
    for p_ in cfg.get("periphs", []):
        if p_.get("loc") is not None:
            for R in regions:
                if R.name == p_["name"] and R.page != p_["loc"]:
                    alarm("bank %s pinned at CSR location %d sits at %d" % (R.name, p_["loc"], R.page))
    want_const = {"CONFIG_CSR_DATA_WIDTH": bw, "CONFIG_CSR_ALIGNMENT": 32, "CONFIG_BUS_STANDARD": cfg["bus"].upper(),
                  "CONFIG_BUS_DATA_WIDTH": cfg["bus_dw"], "CONFIG_BUS_ADDRESS_WIDTH": cfg.get("bus_aw", 32),
                  "CONFIG_CLOCK_FREQUENCY": 1000000}
    for k_, v_ in want_const.items():
        got_ = ex.json["constants"].get(k_.lower())
        if got_ != (v_.lower() if isinstance(v_, str) else v_):
            alarm("constant %s is published as %r, the SoC was built with %r" % (k_, got_, v_))

    # ---- static agreement of the exports (oracle: the elaborated objects) and with the Lean exportAddrs ------
    if ex.svd_error:
        alarm("get_csr_svd crashed: " + ex.svd_error)
    real_j, real_h, real_s = [], [], []
    for R in regions:
        if ex.json["csr_bases"].get(R.name) != R.origin or ex.csv["csr_base"].get(R.name) != R.origin:
            alarm("csr_base of %s: json %r csv %r, region origin %d" % (R.name, ex.json["csr_bases"].get(R.name),
                                                                      ex.csv["csr_base"].get(R.name), R.origin))
        if R.origin != csr_base + paging * R.page:
            alarm("region %s origin %d != csr base %d + paging*%d" % (R.name, R.origin, csr_base, R.page))
        hb = ex.header.value("CSR_%s_BASE" % R.name.upper())
        if hb != R.origin:
            alarm("csr.h CSR_%s_BASE = 0x%x, region origin 0x%x" % (R.name.upper(), hb, R.origin))
        ej, eh = [], []
        for r in R.regs:
            j = ex.json["csr_registers"][r.full]
            c = ex.csv["csr_register"][r.full]
            if (j["addr"], j["size"], j["type"]) != c:
                alarm("json/csv differ for %s: %r vs %r" % (r.full, j, c))
            if j["size"] != len(r.simple):
                alarm("%s: exported size %d, hardware has %d simple CSRs" % (r.full, j["size"], len(r.simple)))
            ha = ex.header.value("CSR_%s_ADDR" % r.full.upper())
            hs = ex.header.value("CSR_%s_SIZE" % r.full.upper())
            if (ha, hs) != (j["addr"], j["size"]):
                alarm("csr.h %s ADDR/SIZE (0x%x,%d) != json (0x%x,%d)" % (r.full, ha, hs, j["addr"], j["size"]))
            if r.full in ex.header.readers:
                wa = ex.header.word_addrs(r.full)
                if wa != [ha + 4 * k for k in range(hs)]:
                    alarm("csr.h reader of %s touches %r" % (r.full, wa))
            if (r.full in ex.header.readers) != (len(r.simple) * bw <= 64):
                alarm("csr.h accessor presence of %s (%d words of %d bit)" % (r.full, len(r.simple), bw))
            if (r.full in ex.header.writers) != (len(r.simple) * bw <= 64 and not getattr(r.obj, "read_only", False)):
                alarm("csr.h writer presence of %s" % r.full)
            for f in (r.obj.fields.fields if hasattr(r.obj, "fields") else []):
                pre = "CSR_%s_%s_%s_" % (R.name.upper(), r.name.upper(), f.name.upper())
                if ex.header.value(pre + "OFFSET") != f.offset or ex.header.value(pre + "SIZE") != f.size:
                    alarm("csr.h field macros of %s.%s" % (r.full, f.name))
                count("fields")
            ej.append("%d:%d" % (j["addr"], j["size"]))
            eh.append("%d:%d" % (ha, hs))
            rec["lean"].append(("jsonwords %d %d" % (bw, r.size), str(j["size"])))
            rec["lean"].append(("chunks %d %d %d" % (big, bw, r.size), " ".join(str(sc.size) for sc in r.simple)))
        real_j.append(" ".join(ej))
        real_h.append(" ".join(eh))
        if ex.svd is not None:
            sv = ex.svd.get(R.name.upper())
            if sv is None:
                alarm("SVD lacks peripheral " + R.name)
                real_s.append("?")
            elif R.mem is not None:
                if sv["base"] != R.origin:
                    alarm("SVD base of memory %s" % R.name)
                real_s.append("")
            else:
                if sv["base"] != R.origin:
                    alarm("SVD base of %s: 0x%x vs 0x%x" % (R.name, sv["base"], R.origin))
                flat = [ex.json["csr_registers"][r.full]["addr"] + 4 * k for r in R.regs for k in range(len(r.simple))]
                if [a for _, a in sv["regs"]] != flat:
                    alarm("SVD register addresses of %s differ from the JSON word addresses" % R.name)
                real_s.append(" ".join(str(a) for _, a in sv["regs"]))
    if ex.svd is not None:
        real = "J %s # H %s # S %s" % (" | ".join(real_j), " | ".join(real_h), " | ".join(real_s))
        rec["lean"].append(("export %d %d %d %d %d ; %s" % (csr_base, paging, 32, bw, csr_base, banks), real))
    count("regions", len(regions))
    count("registers", sum(len(R.regs) for R in regions))
    count("simple_csrs", sum(len(r.simple) for R in regions for r in R.regs))
    # memory regions / constants
    for name, region in soc.bus.regions.items():
        j = ex.json["memories"].get(name)
        m = ex.mem_header.get(name.upper())
        c = ex.csv["memory_region"].get(name)
        if j is None or m is None or c is None or (j["base"], j["size"]) != (region.origin, region.size) \
                or m != (region.origin, region.size) or c[:2] != (region.origin, region.size):
            alarm("memory region %s: json %r mem.h %r csv %r, bus region (0x%x, 0x%x)" % (name, j, m, c, region.origin, region.size))
        if ("%s : ORIGIN = 0x%08x, LENGTH = 0x%08x" % (name, region.origin, region.size)) not in ex.linker:
            alarm("linker region %s" % name)
        if ex.mem_regions_string.get(name.upper()) != (region.origin, region.size):
            alarm("mem.h MEM_REGIONS string lists %s as %r, bus region (0x%x, 0x%x)" % (name, ex.mem_regions_string.get(name.upper()),
                                                                                   region.origin, region.size))
        if ex.regions_ld is not None and ("%s : ORIGIN = 0x%08x, LENGTH = 0x%08x" % (name, region.origin, region.size)) not in ex.regions_ld:
            alarm("regions.ld written by the Builder lacks/misplaces region %s" % name)
        if ex.svd_mems is not None and ex.svd_mems.get(name.upper()) != (region.origin, region.size):
            alarm("SVD memory region %s" % name)
        count("mem_regions")
    # regions.ld as the Builder prints it against the Lean `ldRegions` of the bus-region table (order, nothing skipped/renamed)
    names_ld = list(soc.bus.regions)
    ld_real = []
    for m_ in re.finditer(r"^\t(\w+) : ORIGIN = 0x([0-9a-f]+), LENGTH = 0x([0-9a-f]+)$", ex.linker, re.M):
        ld_real.append("%s:%d:%d" % (names_ld.index(m_.group(1)) if m_.group(1) in names_ld else m_.group(1), int(m_.group(2), 16), int(m_.group(3), 16)))
    rec["lean"].append(("ldregions 0 ; " + " ; ".join("%d %d %d %d %d" % (i_, r_.origin, r_.size, bool(getattr(r_, "decode", True)), bool(r_.linker))
                                                     for i_, r_ in enumerate(soc.bus.regions.values())), " ".join(ld_real) + " # 0"))
    for k, v in soc.constants.items():
        jv = ex.json["constants"].get(k.lower())
        want = v.lower() if isinstance(v, str) else v
        if jv != want:
            alarm("constant %s: json %r, soc %r" % (k, jv, v))
        line = "#define %s%s" % (k, "" if v is None else (' "%s"' % v if isinstance(v, str) else " %s" % v))
        if line + "\n" not in ex.soc_header:
            alarm("constant %s missing/wrong in soc.h" % k)
        count("constants")
    if ex.json["constants"].get("config_csr_data_width") != bw or ex.json["constants"].get("config_csr_alignment") != 32:
        alarm("CONFIG_CSR_DATA_WIDTH / ALIGNMENT constants")

    # ---- end-to-end: access every exported address ----------------------------------------------------------
    tb = Tb(b)
    wide_axi = cfg["bus"] in ("axi-lite", "axi") and cfg["bus_dw"] > 32
    model_hits = True
    model_regs = bw == 32
    ratio = cfg["bus_dw"] // 32 if wide_axi else 1   # AXI-Lite wide->32 converter: a load reads every 32-bit part
    simple_key = {}     # id(simple CSR) -> "bank:index"
    for name, i, c in tb.simple:
        simple_key[id(c)] = "%s:%d" % (name, i)
    bank_index = {R.name: k for k, R in enumerate(regions)}
    word_of = {}        # id(simple CSR) -> (RegInfo, word index)
    for R in regions:
        for r in R.regs:
            n = len(r.simple)
            for j, sc in enumerate(r.simple):
                word_of[id(sc)] = (r, (n - 1 - j) if big else j)
    backshadow = {}     # id(reg obj) -> backstore value (tracked from the stores that reached the register)
    def wsig(r):
        if r.kind == "storage":
            return r.obj.storage
        if r.kind == "status" and hasattr(r.obj, "r"):
            return r.obj.r
        return None
    storages = [(r, wsig(r)) for R in regions for r in R.regs if wsig(r) is not None]

    def hits_model_form(hits):
        """observed strobes -> `b:i` list in the Lean numbering (bank index in export order)."""
        out = []
        for k in sorted(hits["w"] | hits["r"]):
            name, i, _ = tb.simple[k]
            out.append((bank_index[name], i))
        return " ".join("%d:%d" % e for e in out) or "-"

    def do_access(addr, we, v=0):
        snap = tb.nl.snapshot()
        try:
            val, hits = tb.access(addr, we, v)
        except C14Error:
            tb.nl.restore(snap)
            tb.hits = None
            count("hangs")
            return None, None
        count("accesses")
        if we:
            for k in hits["w"]:
                sc = tb.simple[k][2]
                r, i = word_of.get(id(sc), (None, None))
                if r is not None and r.atomic and len(r.simple) > 1 and i > 0:
                    nb = min(r.size - i * bw, bw)
                    cur = backshadow.get(id(r.obj), 0)
                    lo = (i - 1) * bw
                    cur = (cur & ~(((1 << nb) - 1) << lo)) | ((v & ((1 << nb) - 1)) << lo)
                    backshadow[id(r.obj)] = cur
        if model_hits and csr_base <= addr < csr_base + (1 << (aw + 2)):
            rec["lean"].append(("decode %d %d %d %d %d ; %s" % (bw, aw, paging, 1 if we else ratio, addr - csr_base, banks),
                                hits_model_form(hits)))
        return val, hits

    def expect_hits(hits, kind, sc, what):
        if hits is None:
            alarm("%s: the bus hangs" % what)
            return False
        want = {"%s:%s" % (kind, simple_key[id(sc)])}
        got = set(tb.name_hits(hits))
        multi = ["%s:%s:%d x%d" % (kd, tb.simple[k_][0], tb.simple[k_][1], n_) for (kd, k_), n_ in hits["n"].items() if n_ != 1]
        if multi:
            alarm("%s: strobe held for more than one cycle (side effects repeat): %s" % (what, multi))
        if got != want:
            tags = [R_CSR8]
            if kind == "r" and got > want and all(g.startswith("r:") for g in got):
                tags.append(R_AXIL_RD)
            alarm("%s: strobed %s, expected exactly %s" % (what, sorted(got), sorted(want)), *tags)
        return True

    # ---- the accessor recipes on their own (no hardware): the words stored / loaded at the successive addresses
    #      must be the words of the value in the order the hardware was configured with ------------------------
    wmask = (1 << bw) - 1
    for R in regions:
        for r in R.regs:
            nw = len(r.simple)
            order = [nw - 1 - k for k in range(nw)] if big else list(range(nw))     # word index at address position k
            ltag = (R_LITTLE,) if nw > 1 else ()
            if r.full in ex.header.writers:
                v = rng.getrandbits(nw * bw)
                stores = []
                ex.header.write(r.full, v, lambda a, x: stores.append(x))
                want = [(v >> (bw * i)) & wmask for i in order]
                if [x & wmask for x in stores] != want:
                    alarm("%s_write(0x%x) stores %s, the register's words in address order are %s" % (
                        r.full, v, [hex(x & wmask) for x in stores], [hex(x) for x in want]), *ltag)
                count("recipes")
            if r.full in ex.header.readers:
                v = rng.getrandbits(nw * bw)
                feed = [(v >> (bw * i)) & wmask for i in order]
                got = ex.header.read(r.full, lambda a, it=iter(feed): next(it))
                if got != v:
                    alarm("%s_read() composes 0x%x from the words of 0x%x" % (r.full, got, v), *ltag)
                count("recipes")

    reglist = [(R, r) for R in regions for r in R.regs]
    if max_regs is not None and len(reglist) > max_regs:
        reglist = rng.sample(reglist, max_regs)
    for R, r in reglist:
        mask = (1 << r.size) - 1
        nw = len(r.simple)
        has_acc = r.full in ex.header.readers
        jaddr = ex.json["csr_registers"][r.full]["addr"]
        waddrs = [jaddr + 4 * k for k in range(nw)]
        ltag = (R_LITTLE,) if nw > 1 else ()
        # ---- write --------------------------------------------------------------------------------------
        if r.kind == "csr" and r.full in ex.header.writers:
            # a plain CSR has no state: the store must strobe it (and nothing else), once
            cst = []
            ex.header.write(r.full, rng.getrandbits(32), lambda a, x: cst.append((a, x)))
            for k, (a, x) in enumerate(cst):
                val, hits = do_access(a, 1, x)
                expect_hits(hits, "w", r.simple[min(k, nw - 1)], "store to %s @0x%x" % (r.full, a))
            count("plain_csr_writes")
        if wsig(r) is not None:
            before = {id(o.obj): tb.get(s) for o, s in storages}
            old = before[id(r.obj)]
            back = backshadow.get(id(r.obj), 0)
            stores = []
            if r.full in ex.header.writers:
                v = rng.getrandbits(64) if rng.random() < 0.7 else rng.getrandbits(r.size)
                ex.header.write(r.full, v, lambda a, x: stores.append((a, x)))
                ctbits = CHeader.CT[ex.header.writers[r.full][0]]
                rec["lean"].append(("accwrite %d %d %d" % (bw, nw, v), " ".join(str(x) for _, x in stores)))
                want_val = v & ((1 << ctbits) - 1) & mask
                if [a for a, _ in stores] != waddrs:
                    alarm("csr.h writer of %s stores to %r, json words at %r" % (r.full, [a for a, _ in stores], waddrs))
            else:
                # no accessor above 8 bytes: software composes the words itself from the JSON/CSV address and
                # size, most significant word first (the order of the generated accessors and of the SVD names)
                v = rng.getrandbits(r.size)
                stores = [(waddrs[k], (v >> (bw * (nw - 1 - k))) & ((1 << bw) - 1)) for k in range(nw)]
                want_val = v
                count("regs_without_accessor")
            ok_access = True
            for k, (a, x) in enumerate(stores):
                val, hits = do_access(a, 1, x)
                ok_access &= expect_hits(hits, "w", r.simple[min(k, nw - 1)], "store to %s word %d @0x%x" % (r.full, k, a))
            after = {id(o.obj): tb.get(s) for o, s in storages}
            got = after[id(r.obj)]
            if got != want_val:
                alarm("%s_write(0x%x): storage holds 0x%x, expected 0x%x" % (r.full, v, got, want_val),
                      R_CSR8, *ltag)
            for o, s in storages:
                if o is not r and after[id(o.obj)] != before[id(o.obj)]:
                    alarm("%s_write changed %s (0x%x -> 0x%x)" % (r.full, o.full, before[id(o.obj)], after[id(o.obj)]),
                          R_CSR8)
            if ok_access and model_regs:
                rec["lean"].append(("hwwrite %d %d %d %d %d %d 0 %s" % (big, r.atomic, bw, r.size, old, back,
                                                                        " ".join(str(x) for _, x in stores)), str(got)))
            count("writes")
            if r.kind == "storage" and hasattr(r.obj, "fields") and r.size <= 32:
                word = tb.get(r.obj.storage)
                for f in r.obj.fields.fields:
                    ff = ex.fields.get("%s_%s_%s" % (R.name, r.name.lower(), f.name.lower()))
                    if ff is None or ff["replace"] is None:
                        alarm("csr.h lacks field accessors of %s.%s" % (r.full, f.name))
                        continue
                    sig = tb.get(getattr(r.obj.fields, f.name))
                    if field_extract(ff, word) != sig and not f.pulse:   # a pulse field is only valid in the strobe cycle
                        alarm("%s_%s_extract(0x%x) = 0x%x, the field signal holds 0x%x" % (r.full, f.name, word,
                                                                                         field_extract(ff, word), sig), R_CSR8)
                    x = rng.getrandbits(32)
                    nwd = field_replace(ff, word, x)
                    keep = ~(((1 << f.size) - 1) << f.offset) & M32
                    if field_extract(ff, nwd) != x & ((1 << f.size) - 1) or (nwd & keep) != (word & keep):
                        alarm("%s_%s_replace(0x%x, 0x%x) = 0x%x" % (r.full, f.name, word, x, nwd))
                    rec["lean"].append(("fieldextract %d %d %d" % (f.offset, f.size, word), str(field_extract(ff, word))))
                    count("field_checks")
            if len(rec["samples"]) < 2 and nw > 1:
                rec["samples"].append({"reg": r.full, "size": r.size, "stores": [(hex(a), hex(x)) for a, x in stores],
                                       "storage_after": hex(got)})
        # ---- read ---------------------------------------------------------------------------------------
        if r.kind == "status":
            sig = r.obj.status
            if sig not in tb.nl.comb_targets and sig not in tb.nl.regs:
                tb.set_reg(sig, rng.getrandbits(r.size))
        elif r.kind == "csr":
            if r.obj.w not in tb.nl.comb_targets and r.obj.w not in tb.nl.regs:
                tb.set_reg(r.obj.w, rng.getrandbits(r.size))
        cur = tb.get(r.obj.storage if r.kind == "storage" else r.obj.status if r.kind == "status" else r.obj.w)
        loads = []

        def load(a):
            val, hits = do_access(a, 0)
            k = len(loads)
            expect_hits(hits, "r", r.simple[min(k, nw - 1)], "load from %s word %d @0x%x" % (r.full, k, a))
            loads.append(val if val is not None else 0)
            return loads[-1]
        walked_all = True
        if has_acc:
            got = ex.header.read(r.full, load)
            rec["lean"].append(("accread %d %d %s" % (bw, nw, " ".join(map(str, loads))), str(got)))
        elif max_words is not None and nw > max_words:
            # a long register in the quick tier: a sample of its words (both ends, around every 64-word boundary)
            walked_all = False
            ks = {0, 1, nw - 2, nw - 1} | {k for k in range(nw) if k % 64 in (0, 63)} | \
                 {rng.randrange(nw) for _ in range(max(0, max_words - 10))}
            got = cur
            for k in sorted(ks):
                val, hits = do_access(waddrs[k], 0)
                expect_hits(hits, "r", r.simple[k], "load from %s word %d @0x%x" % (r.full, k, waddrs[k]))
                want = (cur >> (bw * (nw - 1 - k))) & ((1 << bw) - 1)
                if hits is not None and val != want:
                    got = None
                    alarm("load from %s word %d @0x%x returns 0x%x, that word of the register is 0x%x" % (
                        r.full, k, waddrs[k], val, want), R_CSR8, *ltag)
            got = cur if got is not None else cur
            count("long_registers_sampled")
        else:
            got = 0
            for a in waddrs:
                got = (got << bw) | (load(a) & ((1 << bw) - 1))
        if model_regs and walked_all:
            rec["lean"].append(("hwwords %d %d %d %d" % (big, bw, r.size, cur), " ".join(map(str, loads))))
        if got != cur:
            alarm("%s_read() = 0x%x, register holds 0x%x" % (r.full, got, cur), R_CSR8, *ltag)
        # ---- every exporter's own view of this register: where a view publishes other word locations (or another word
        #      count) than the ones driven above, software following THAT file is played too: a load at each address it
        #      publishes must strobe word k of this register and nothing else ---------------------------------------
        driven = ex.header.word_addrs(r.full) if has_acc else list(waddrs)
        jv, cv = ex.json["csr_registers"][r.full], ex.csv["csr_register"][r.full]
        views = [("csr.json", [jv["addr"] + 4 * k for k in range(jv["size"])]), ("csr.csv", [cv[0] + 4 * k for k in range(cv[1])]),
                 ("csr.h", [ex.header.value("CSR_%s_ADDR" % r.full.upper()) + 4 * k
                            for k in range(ex.header.value("CSR_%s_SIZE" % r.full.upper()))])]
        sv_ = ex.svd.get(R.name.upper()) if ex.svd is not None else None
        if sv_ is not None and len(sv_["regs"]) == sum(len(x.simple) for x in R.regs):
            p0_ = sum(len(x.simple) for x in R.regs[:R.regs.index(r)])
            views.append(("csr.svd", [a_ for _, a_ in sv_["regs"][p0_:p0_ + nw]]))
        seen_views = []
        for vname, addrs in views:
            if addrs == driven or addrs in seen_views:
                continue
            seen_views.append(addrs)
            if len(addrs) != nw:
                alarm("%s publishes %s as %d word(s) at 0x%x; the hardware register has %d simple CSRs (%d bits on a %d-bit CSR bus): "
                      "the register cannot be composed from the published size, and every register after it in the bank is "
                      "published %+d bytes off" % (vname, r.full, len(addrs), addrs[0] if addrs else 0, nw, r.size, bw, 4 * (len(addrs) - nw)), R_CSR8)
            for k, a in enumerate(addrs[:nw + 1]):
                val, hits = do_access(a, 0)
                if hits is None:
                    alarm("%s publishes word %d of %s at 0x%x: a load there hangs the bus" % (vname, k, r.full, a))
                    continue
                got_ = set(tb.name_hits(hits))
                want_ = {"r:" + simple_key[id(r.simple[k])]} if k < nw else set()
                if got_ != want_:
                    owners = sorted({word_of[id(tb.simple[k_][2])][0].full + (" word %d" % word_of[id(tb.simple[k_][2])][1])
                                     for k_ in hits["r"] | hits["w"] if id(tb.simple[k_][2]) in word_of})
                    alarm("%s publishes word %d of register %s at address 0x%x: a load there on the real bus strobes %s = %s, expected %s" % (
                        vname, k, r.full, a, sorted(got_) or "nothing", owners or "no register", sorted(want_) or "nothing"),
                        R_CSR8, R_AXIL_RD)
                count("view_probes")
        count("reads")
        count("nontrivial", 1 if nw > 1 or r.kind == "storage" else 0)

    # ---- CSR memory windows: the whole published window, and the page register of memories deeper than a page --
    W = paging // 4
    for R in regions:
        if R.mem is None:
            continue
        mem, mmap = R.mem
        base = ex.json["csr_bases"][R.name]
        mwidth, depth = R.mem_spec if getattr(R, "mem_spec", None) else (mem.width, mem.depth)
        if (mem.width, mem.depth) != (mwidth, depth):
            alarm("memory %s was asked as %d x %d bit, the Memory object is %d x %d bit" % (R.name, depth, mwidth, mem.depth, mem.width))
            continue
        nsub = nwords(bw, mwidth)
        if nsub > 1:
            # ---- a memory word nsub CSR words wide: EVERY sub-word location of the window, distinct values -----
            count("mem_windows_wide_x%d" % nsub)
            if (R.name + "_page" in ex.json["csr_registers"]) != (depth * nsub > W):
                alarm("memory %s (%d words of %d CSR words): page register presence" % (R.name, depth, nsub))
            if depth * nsub > W:
                # ---- wide AND deeper than a page: every sub-word location is `base + 4*(i mod W)` with the page register
                #      holding `i // W` (i = CSR-word index w*nsub + k); words around every page boundary and both ends ------
                count("mem_windows_wide_paged")
                preg = R.name + "_page"
                wpp = W // nsub                                   # memory words per page
                ws = {0, 1, depth - 1, depth - 2, rng.randrange(depth), rng.randrange(depth)}
                for pg in range(1, (depth * nsub + W - 1) // W):
                    ws |= {pg * wpp - 1, pg * wpp, pg * wpp + 1}
                if preg not in ex.header.writers:
                    alarm("memory %s needs paged access but csr.h has no writer for %s" % (R.name, preg))
                    continue
                for w in sorted(x for x in ws if 0 <= x < depth):
                    pv = (w * nsub) // W
                    pst = []
                    ex.header.write(preg, pv, lambda a, x: pst.append((a, x)))
                    for a, x in pst:
                        do_access(a, 1, x)
                    real_pv = tb.get(mmap._page.storage)
                    before = [tb.mem_word(mem, c) for c in range(depth)]
                    subs = []
                    for k in range(nsub):
                        v = rng.getrandbits(32) | 1
                        a = base + 4 * ((w * nsub + k) % W)
                        val, hits = do_access(a, 1, v)
                        what = "store to memory %s word %d sub-word %d (page register %d) @0x%x" % (R.name, w, k, pv, a)
                        if hits is None:
                            alarm(what + ": the bus hangs")
                        elif set(tb.name_hits(hits)) != {"mw:" + R.name}:
                            alarm("%s: strobed %s" % (what, tb.name_hits(hits)), R_CSR8)
                        subs.append(v & ((1 << bw) - 1))
                        if model_regs and hits is not None:
                            rec["lean"].append(("sramwide %d %d %d %d %d %d" % (paging, R.page, depth, nsub, real_pv, (a - csr_base) // 4), "%d %d" % (w, k)))
                    want_w = 0
                    for x in subs:
                        want_w = (want_w << bw) | x
                    want_w &= (1 << mwidth) - 1
                    after = [tb.mem_word(mem, c) for c in range(depth)]
                    changed = [c for c in range(depth) if after[c] != before[c]]
                    if after[w] != want_w or any(c != w for c in changed):
                        alarm("paged wide memory %s (%d x %d bit, %d CSR words per word, page of %d CSR words): word %d written through page %d "
                              "must become 0x%x; it holds 0x%x, words changed: %s" % (R.name, depth, mwidth, nsub, W, w, pv, want_w, after[w], changed[:4]), R_CSR8)
                    if model_regs:
                        rec["lean"].append(("wideword %d %s" % (bw, " ".join(map(str, subs))), str(after[changed[0]] if len(changed) == 1 else after[w])))
                    for k in range(nsub):
                        a = base + 4 * ((w * nsub + k) % W)
                        val, hits = do_access(a, 0)
                        want = (after[w] >> (bw * (nsub - 1 - k))) & ((1 << bw) - 1)
                        if hits is None or val != want:
                            alarm("load from paged wide memory %s word %d sub-word %d (page register %d) @0x%x returns %r, that part of the word is 0x%x" % (
                                R.name, w, k, pv, a, val, want), R_CSR8, *((R_AXIL_RD,) if False else ()))
                        count("mem_accesses", 1)
                    count("mem_accesses", nsub)
                continue
            vals = {}
            for w in range(depth):
                old_w = tb.mem_word(mem, w)
                for k in range(nsub):
                    v = rng.getrandbits(32)
                    a = base + 4 * (w * nsub + k)
                    val, hits = do_access(a, 1, v)
                    what = "store to memory %s word %d sub-word %d @0x%x" % (R.name, w, k, a)
                    if hits is None:
                        alarm(what + ": the bus hangs")
                        continue
                    if set(tb.name_hits(hits)) != {"mw:" + R.name}:
                        alarm("%s: strobed %s" % (what, tb.name_hits(hits)), R_CSR8)
                    vals[(w, k)] = v & ((1 << bw) - 1)
                    if k < nsub - 1 and tb.mem_word(mem, w) != old_w:
                        alarm("%s: the memory word changed before its last sub-word was written" % what, R_CSR8)
                want_w = 0
                for k in range(nsub):
                    want_w = (want_w << bw) | vals.get((w, k), 0)
                want_w &= (1 << mwidth) - 1
                got_w = tb.mem_word(mem, w)
                if got_w != want_w:
                    alarm("memory %s word %d holds 0x%x after its sub-words %s were written in address order (expected 0x%x)" % (
                        R.name, w, got_w, [hex(vals.get((w, k), 0)) for k in range(nsub)], want_w), R_CSR8)
                if model_regs:
                    rec["lean"].append(("wideword %d %s" % (bw, " ".join(str(vals.get((w, k), 0)) for k in range(nsub))), str(got_w)))
            for w in range(depth):
                word = tb.mem_word(mem, w)
                for k in range(nsub):
                    a = base + 4 * (w * nsub + k)
                    val, hits = do_access(a, 0)
                    want = (word >> (bw * (nsub - 1 - k))) & ((1 << bw) - 1)
                    if hits is None:
                        alarm("load from memory %s @0x%x: the bus hangs" % (R.name, a))
                    elif val != want or (w, k) in vals and val != vals[(w, k)] & ((1 << min(bw, max(0, mwidth - bw * (nsub - 1 - k)))) - 1):
                        alarm("load from memory %s word %d sub-word %d @0x%x returns 0x%x; written 0x%x, that part of the memory word is 0x%x" % (
                            R.name, w, k, a, val or 0, vals.get((w, k), 0), want), R_CSR8,
                            *((R_AXIL_RD,) if val == want else ()))
                    if model_regs and hits is not None:
                        rec["lean"].append(("sramwide %d %d %d %d 0 %d" % (paging, R.page, depth, nsub, (a - csr_base) // 4), "%d %d" % (w, k)))
                        rec["lean"].append(("widesub %d %d %d %d" % (bw, nsub, word, k), str(val)))
                    count("mem_accesses", 2)
            continue
        paged = depth > W
        preg = R.name + "_page"
        has_preg = preg in ex.json["csr_registers"]
        if has_preg != paged:
            alarm("memory %s of %d words in a page of %d words: page register %s" % (
                R.name, depth, W, "published although the memory fits the page" if has_preg else "missing"))
        top = depth - 1
        words = {0, 1, top, min(depth, W) - 1, min(depth, W) // 2 - 1, min(depth, W) // 2, rng.randrange(depth), rng.randrange(depth)}
        if paged:
            words |= {W - 1, W, W + 1, top, rng.randrange(W, depth)}
        count("mem_windows_paged" if paged else "mem_windows_exact_page" if depth == W else "mem_windows_small")
        for w in sorted(x for x in words if 0 <= x < depth):
            pv = w // W
            if paged and has_preg:
                pstores = []
                if preg in ex.header.writers:
                    ex.header.write(preg, pv, lambda a, x: pstores.append((a, x)))
                for a, x in pstores:
                    do_access(a, 1, x)
            elif w >= W:
                continue
            a = base + 4 * (w % W)
            v = rng.getrandbits(32)
            before = [tb.mem_word(mem, k) for k in range(depth)]
            val, hits = do_access(a, 1, v)
            what = "store to memory %s word %d (page %d) @0x%x" % (R.name, w, pv, a)
            if hits is None:
                alarm(what + ": the bus hangs")
                continue
            got = set(tb.name_hits(hits))
            if got != {"mw:" + R.name}:
                alarm("%s: strobed %s" % (what, sorted(got)), R_CSR8)
            after = [tb.mem_word(mem, k) for k in range(depth)]
            changed = [k for k in range(depth) if after[k] != before[k]]
            want_v = v & ((1 << mwidth) - 1)
            if after[w] != want_v or any(k != w for k in changed):
                alarm("%s: memory word %d should become 0x%x; words changed: %s" % (what, w, want_v, changed[:4]), R_CSR8)
            val, hits = do_access(a, 0)
            if hits is None:
                alarm("load from memory %s: the bus hangs" % R.name)
            elif val != after[w] or set(tb.name_hits(hits)) != {"mr:" + R.name}:
                alarm("load from memory %s word %d returns 0x%x (holds 0x%x), strobes %s" % (
                    R.name, w, val or 0, after[w], tb.name_hits(hits)), R_CSR8,
                    *((R_AXIL_RD,) if (set(tb.name_hits(hits)) > {"mr:" + R.name} and val == after[w]) else ()))
            if model_regs:
                pbits = len(mmap._page.storage) if mmap._page is not None else 0
                real_pv = tb.get(mmap._page.storage) if mmap._page is not None else 0
                tgt = changed[0] if len(changed) == 1 else (w if not changed and after[w] == want_v else None)
                if tgt is not None:
                    rec["lean"].append(("sramsel %d %d %d %d %d" % (paging, R.page, depth, real_pv, (a - csr_base) // 4),
                                        "%d %d" % (pbits, tgt)))
            count("mem_accesses", 2)

    # ---- memory regions: every published region answers through its own slave and no other -----------------
    pub = {n: (m["base"], m["size"]) for n, m in ex.json["memories"].items()}

    def owner(addr):
        return [n for n, (b0, sz) in pub.items() if b0 <= addr < b0 + sz]
    for name, (b0, sz) in pub.items():
        if name not in soc.bus.slaves:
            continue
        pow2 = 1 << (sz - 1).bit_length()
        probes_ = [(b0, "first word"), (b0 + sz - 4, "last word")]
        if pow2 != sz:
            probes_.append((b0 + sz, "first word after the region"))
        for a, what in ((b0 - 4, "word before the region"), (b0 + pow2, "word after the decoded range")):
            if a >= 0 and owner(a):
                probes_.append((a, what))
        for a, what in probes_:
            if name == "csr" and a - b0 >= (1 << (aw + 2)):
                continue
            val, hits = do_access(a, 0)
            own = owner(a)
            if hits is None:
                if own:
                    alarm("load @0x%x (%s of region %s): the bus hangs" % (a, what, name))
                continue
            sel = sorted(hits["s"])
            if len(soc.bus.slaves) > 1 or len(soc.bus.masters) > 1:
                names_ = list(soc.bus.slaves)
                reg_words = []
                for n_ in names_:
                    rc_ = next((x for x in cfg.get("rams", []) if x["name"] == n_), None)
                    if n_ == "csr":
                        o_, z_ = csr_base, 4 << aw
                    elif rc_ is not None and rc_["origin"] is not None:
                        o_, z_ = rc_["origin"], rc_["size"]
                    else:
                        o_, z_ = pub[n_][0], (rc_["size"] if rc_ else pub[n_][1])   # automatic origin: as published
                    reg_words.append("%d %d %d %d" % (names_.index(n_), o_, z_, 1))
                real_e = " ".join("%d:%d:%d" % (names_.index(n_), pub[n_][0], pub[n_][1]) for n_ in names_)
                real_s = " ".join(str(names_.index(n_)) for n_ in names_ if n_ in hits["s"]) or "-"
                rec["lean"].append(("slaves %d %d %d ; %s" % (cfg.get("bus_aw", 32), cfg["bus_dw"], a // (cfg["bus_dw"] // 8),
                                                            " ; ".join(reg_words)), "%s # %s" % (real_e, real_s)))
            if own and sel != own:
                alarm("load @0x%x (%s of region %s, published in %s): slaves addressed %s" % (a, what, name, own, sel),
                      R_AXIL_RD if False else None)
            elif not own and len(sel) > 1:
                alarm("load @0x%x (%s of region %s): several slaves addressed %s" % (a, what, name, sel))
            count("region_probes")
        reg = soc.bus.regions[name]
        if (reg.origin, reg.size) != (b0, sz):
            alarm("published region %s (0x%x, 0x%x) differs from the decoder's SoCRegion (0x%x, 0x%x)" % (name, b0, sz, reg.origin, reg.size))

    # ---- a few addresses of the CSR window that no export mentions: nothing may answer ------------------------
    exported = set()
    for R in regions:
        for r in R.regs:
            a = ex.json["csr_registers"][r.full]["addr"]
            exported |= {a + 4 * k for k in range(len(r.simple))}
    mem_pages = {R.page for R in regions if R.mem is not None}
    for _ in range(6):
        page = rng.randrange(max(1, (4 << aw) // paging))
        if rng.random() < 0.5 and regions:
            page = rng.choice(regions).page
        off = paging * page + 4 * rng.randrange(paging // 4)
        a = csr_base + off
        if a in exported or page in mem_pages:
            continue
        we = rng.random() < 0.5
        val, hits = do_access(a, we, rng.getrandbits(32))
        if hits is None:
            alarm("access to unexported address 0x%x: the bus hangs" % a)
        elif tb.name_hits(hits):
            alarm("unexported address 0x%x strobes %s" % (a, tb.name_hits(hits)), R_CSR8,
                  *(() if we else (R_AXIL_RD,)))
        count("unexported_probed")

    # ---- RAM regions: base/size and init image ----------------------------------------------------------------
    for rc in cfg.get("rams", []):
        ram = b.rams[rc["name"]]
        region = soc.bus.regions[rc["name"]]
        base, psize = ex.mem_header[rc["name"].upper()]
        if psize != rc["size"] or (rc["origin"] is not None and base != rc["origin"]):
            alarm("RAM %s asked at %r size 0x%x is published at 0x%x size 0x%x" % (rc["name"], rc["origin"], rc["size"], base, psize))
        if ram.mem.depth * cfg["bus_dw"] // 8 != rc["size"]:
            alarm("RAM %s of 0x%x bytes holds %d words of %d bit" % (rc["name"], rc["size"], ram.mem.depth, cfg["bus_dw"]))
        wpb = cfg["bus_dw"] // 32
        init = rc.get("init")
        if init is not None:
            data = bytes(init["bytes"])
            nwd = (len(data) + 3) // 4
            for w in range(min(nwd + 1, rc["size"] // 4)):
                val, hits = do_access(base + 4 * w, 0)
                chunk = data[4 * w:4 * w + 4].ljust(4, b"\0")
                want = int.from_bytes(chunk, "little" if init["endianness"] == "little" else "big")
                if hits is None or val != want:
                    alarm("RAM %s init image: 32-bit load @0x%x = %r, file bytes %s (%s endian) = 0x%x" % (
                        rc["name"], base + 4 * w, val, chunk.hex(), init["endianness"], want))
            count("image_words", nwd + 1)
        if "w" in rc.get("mode", "rwx"):
            for off in (0, rc["size"] - 4):
                v = rng.getrandbits(32)
                val, hits = do_access(base + off, 1, v)
                if hits is not None and sorted(hits["s"]) != [rc["name"]]:
                    alarm("store to RAM %s @+0x%x addresses slaves %s" % (rc["name"], off, sorted(hits["s"])))
                idx, lane = off // (4 * wpb), (off // 4) % wpb
                got = (tb.mem_word(ram.mem, idx) >> (32 * lane)) & M32 if hits is not None else None
                val2, hits2 = do_access(base + off, 0)
                if got != v or val2 != v:
                    alarm("RAM %s @+0x%x: wrote 0x%x, memory holds %r, load returns %r" % (rc["name"], off, v, got, val2))
            count("ram_accesses", 4)
    # ---- memory-backed slaves: the WHOLE published window (user slaves of any standard / addressing / data width behind
    #      `bus.add_slave`, and the add_ram/add_rom memories): init content at its published address, every store changes
    #      exactly the cell (and 32-bit lane) the published address denotes, every word is its own storage -------------
    full_walk = max_words is None
    mstd_ = getattr(b, "master_std", cfg["bus"])
    mkind = "axil" if mstd_ != "wishbone" else "wb" + getattr(b.master, "addressing", "word")

    def walk_window(name, kind, base, size, mem, dwm, writable, w32_init, budget):
        n32, per, depth = size // 4, dwm // 32, mem.depth
        if full_walk or n32 <= budget:
            ks = set(range(n32))
        elif budget < 10:
            # quick tier, memories of the big SoCs: one word of every quarter (not word 0: a shifted window shows from 1 on)
            ks = set(sorted({1, n32 // 4 + 1, n32 // 2, 3 * n32 // 4 - 1, n32 - 1})[:budget])
        else:
            ks = {0, 1, 2, 3, 4, 5, n32 - 1, n32 - 2} | {q * n32 // 4 + d for q in (1, 2, 3) for d in (-1, 0, 1)}
            ks |= {1 << i for i in range(n32.bit_length())} | {(1 << i) - 1 for i in range(n32.bit_length() + 1)}
            ks |= {4 * k for k in (1, 2, 3, 5)} | {8 * k for k in (1, 3)}
            while len(ks) < budget:
                ks.add(rng.randrange(n32))
            ks = {k for k in ks if 0 <= k < n32}
            keep = {1, 4, n32 // 4 + 1, n32 // 2, 3 * n32 // 4 - 1, n32 - 1} & ks
            if len(ks) > budget:
                ks = keep | set(rng.sample(sorted(ks - keep), max(0, budget - len(keep))))
        ks = sorted(k for k in ks if 0 <= k < n32)
        bad = [0]

        def walarm(text):
            bad[0] += 1
            if bad[0] <= 3:
                alarm(text)
        cells = lambda: [tb.mem_word(mem, c) for c in range(depth)]
        where = "%s slave %s (%d x %d bit) on the %s %d-bit SoC bus, master %s" % (
            kind, name, depth, dwm, cfg["bus"], cfg["bus_dw"], getattr(b, "master_std", cfg["bus"]))
        if depth * dwm // 8 != size:
            walarm("%s: the published size 0x%x is not the size of the memory (0x%x bytes)" % (where, size, depth * dwm // 8))
            return
        if w32_init is not None:
            for k in ks:
                val, hits = do_access(base + 4 * k, 0)
                if hits is None or val != w32_init[k]:
                    walarm("%s: word %d of the published window (@0x%x) reads %s, the slave's cell %d lane %d was initialised with 0x%08x" % (
                        where, k, base + 4 * k, "nothing (bus hangs)" if hits is None or val is None else "0x%08x" % val, k // per, k % per, w32_init[k]))
                elif sorted(hits["s"]) != [name]:
                    walarm("%s: load @0x%x addresses slaves %s" % (where, base + 4 * k, sorted(hits["s"])))
                count("window_loads")
        if not writable:
            return
        written = {}
        for k in ks:
            cell, lane = k // per, k % per
            before = cells()
            v = ((((0xa500 + 13 * k) & 0xffff) << 16) | (~k & 0xffff)) & M32
            if (before[cell] >> (32 * lane)) & M32 == v:
                v ^= 0x10000
            val, hits = do_access(base + 4 * k, 1, v)
            if hits is None:
                walarm("%s: store @0x%x hangs the bus" % (where, base + 4 * k))
                continue
            after = cells()
            changed = [c for c in range(depth) if after[c] != before[c]]
            want = (before[cell] & ~(M32 << (32 * lane))) | (v << (32 * lane))
            if changed != [cell] or after[cell] != want:
                walarm("%s: store of 0x%08x to published address 0x%x (word %d of the window) must change exactly cell %d lane %d; "
                       "cells changed: %s" % (where, v, base + 4 * k, k, cell, lane,
                                              ["%d: 0x%x -> 0x%x" % (c, before[c], after[c]) for c in changed[:4]] or "none"))
            if len(changed) == 1:
                diff = before[changed[0]] ^ after[changed[0]]
                lanes = [l for l in range(per) if (diff >> (32 * l)) & M32]
                if len(lanes) == 1:
                    rec["lean"].append(("slavecell %s %s %d %d %d %d %d %d" % (mkind, kind, cfg["bus"] != "wishbone", dwm, cfg["bus_dw"],
                                                                                cfg.get("bus_aw", 32), depth, base + 4 * k),
                                        "%d %d" % (changed[0], lanes[0])))
            written[k] = v
            count("window_stores")
        for k in ks:
            if k not in written:
                continue
            val, hits = do_access(base + 4 * k, 0)
            if hits is None or val != written[k]:
                walarm("%s: word %d of the published window (@0x%x) lost its value: reads %r, 0x%08x was written (window aliases)" % (
                    where, k, base + 4 * k, val, written[k]))
            count("window_loads")

    for u in cfg.get("uslaves", []):
        mod, itf, mem, dws = b.uslaves[u["name"]]
        pubm = ex.mem_header.get(u["name"].upper())
        if pubm != (u["origin"], u["size"]) or pub.get(u["name"]) != (u["origin"], u["size"]):
            alarm("user slave %s asked at 0x%x size 0x%x is published as mem.h %r json %r" % (u["name"], u["origin"], u["size"], pubm, pub.get(u["name"])))
            continue
        kind = {"wishbone": "wbword" if u.get("addressing", "word") == "word" else "wbbyte", "axi-lite": "axil", "axi": "axil"}[u["std"]]
        walk_window(u["name"], kind, pubm[0], pubm[1], mem, dws, "w" in u.get("mode", "rw"), uslave_init(u, dws)[1], u.get("budget", 18))
        count("user_slaves")
        count("uslave.%s_on_%s" % (u["std"] + ("-" + u.get("addressing", "word") if u["std"] == "wishbone" else ""), cfg["bus"]))
    for rc in cfg.get("rams", []):
        if rc["name"] not in ex.mem_header:
            pass
        base, psize = ex.mem_header[rc["name"].upper()]
        walk_window(rc["name"], "wbword" if cfg["bus"] == "wishbone" else "axil", base, psize, b.rams[rc["name"]].mem, cfg["bus_dw"],
                    "w" in rc.get("mode", "rwx"), None, 5)
    st["cycles"] = tb.cycles
    return rec


# ------------------------------------------------------------------------------------------------------------
# configuration generator

SIZES = (1, 2, 7, 8, 9, 16, 17, 31, 32, 33, 40, 48, 63, 64, 65, 70)


ARCHETYPES = (
    ("storage", (1, 8, 31, 32), False), ("storage", (33, 40, 48, 63, 64), False), ("storage", (33, 40, 64), True),
    ("storage", (65, 70), True), ("storage", (65, 70), False), ("status", (33, 64), False), ("status", (1, 32), False),
    ("status", (65, 70), False), ("storage", (2, 7, 9, 16, 17), True), ("fields", (), False), ("any", (), False),
    ("any", (), False), ("csr", (1, 5, 8), False), ("status_rw", (8, 33, 40), False),
)


def gen_reg(rng, k, arch):
    kind, sizes, atomic = arch
    if kind == "any":
        kind = "storage" if rng.random() < 0.7 else "status"
        sizes = (rng.randint(1, 70),)
        atomic = rng.random() < 0.3
    if kind == "fields":
        fs, off = [], 0
        for fi in range(rng.randint(1, 3)):
            off += rng.randint(0, 3)
            sz = rng.randint(1, 9)
            fs.append({"name": "f%d" % fi, "size": sz, "offset": off})
            off += sz
        return {"kind": "storage", "name": "r%d" % k, "size": off, "fields": fs, "atomic": False}
    if kind == "status_rw":
        return {"kind": "status", "name": "r%d" % k, "size": rng.choice(sizes), "read_only": False}
    r = {"kind": kind, "name": "r%d" % k, "size": rng.choice(sizes)}
    if kind == "storage":
        r["atomic"] = atomic
        if rng.random() < 0.3:
            r["reset"] = rng.getrandbits(r["size"])
    return r


def gen_periph(rng, name, csr_dw, max_regs=6, deck=None, paging=None, mem_prob=0.25, wide_prob=0.3):
    regs = []
    for k in range(rng.randint(1, max_regs)):
        arch = deck.pop() if deck else rng.choice(ARCHETYPES)
        regs.append(gen_reg(rng, k, arch))
    p = {"name": name, "regs": regs}
    if rng.random() < 0.15 and len(regs) >= 2:
        # one register pinned at a location of its own inside the bank (`n=`), beyond the natural positions
        regs[-1]["n"] = len(regs) - 1 + rng.randint(0, 2)
        if regs[-1]["n"] == len(regs):      # `_sort_gathered_items` indexes out of range for n == len(items)
            regs[-1]["n"] += 1
    if rng.random() < mem_prob:
        depth = rng.choice((2, 4, 5, 16, 33, 64))
        if paging is not None and rng.random() < 0.5:
            W = paging // 4
            # depths around the page capacity: exactly one page, one word more, and paged memories (W <= 512 only)
            if W <= 1024:
                depth = rng.choice((W, W, W - 1) + ((W + 1, 2 * W, W + W // 2, 3 * W) if W <= 512 else ()))
        p["mems"] = [{"name": "m0", "width": rng.randint(1, csr_dw), "depth": depth}]
        if rng.random() < wide_prob:
            # a memory word several CSR words wide (csrw_per_memw = 2, 4, 8): sub-word order matters from 4 up
            p["mems"] = [{"name": "m0", "width": csr_dw * rng.choice((4, 8, 4, 8, 2)), "depth": rng.choice((2, 3, 4, 8))}]
    return p


def gen_cfg(rng, **fixed):
    cfg = {
        "bus": rng.choice(("wishbone", "wishbone", "axi-lite", "axi")),
        "bus_dw": rng.choice((32, 64, 32, 64, 128)),
        "ic": rng.choice(("shared", "crossbar")),
        "csr_dw": rng.choice((32, 32, 32, 8)),
        "paging": rng.choice((0x400, 0x800, 0x1000, 0x400, 0x800, 0x1000, 0x2000, 0x4000)),
        "ordering": rng.choice(("big", "big", "little")),
        "csr_aw": rng.choice((14, 14, 15, 16, 14, 15, 17, 18)),
        "with_ctrl": rng.random() < 0.7,
    }
    cfg.update(fixed)
    size = 4 << cfg["csr_aw"]
    if "bus_aw" not in cfg and rng.random() < 0.15:
        cfg["bus_aw"] = 64
    cfg.setdefault("csr_origin", rng.choice((0, 0xf0000000, 0x82000000, size * rng.randint(1, 200))
                                            + ((0x200000000, 0x1f00000000) if cfg.get("bus_aw") == 64 else ())))
    nlocs = size // cfg["paging"]
    periphs, used = [], set()
    deck = list(ARCHETYPES)
    rng.shuffle(deck)
    for k in range(rng.randint(2, 4)):
        # page-sized CSR memories are slow to simulate behind AXI converters / 8-bit CSR buses: keep them to the fast buses
        fast = cfg["csr_dw"] == 32 and (cfg["bus"] == "wishbone" or (cfg["bus"] == "axi-lite" and cfg["bus_dw"] == 32))
        p = gen_periph(rng, "p%d" % k, cfg["csr_dw"], fixed.get("max_regs", 6), deck, paging=cfg["paging"] if fast else None,
                       mem_prob=fixed.get("mem_prob", 0.25), wide_prob=fixed.get("wide_prob", 0.3))
        if rng.random() < 0.3:
            loc = rng.choice((nlocs - 1, rng.randrange(nlocs), rng.randrange(min(nlocs, 8))))
            if loc not in used:
                p["loc"] = loc
                used.add(loc)
                if rng.random() < 0.5:
                    p["via_csr_map"] = True     # pinned through the SoCCore.csr_map class attribute instead of add_csr()
        periphs.append(p)
    if rng.random() < fixed.get("big_prob", 0.2):
        # a long bank: one wide read-only register (no accessor: software walks the exported word addresses)
        p = rng.choice(periphs)
        if not any("n" in r for r in p["regs"]):
            have = sum(nwords(cfg["csr_dw"], r["size"]) for r in p["regs"])
            words = min(cfg["paging"] // 4 - have - rng.choice((0, 1, 7)),
                        rng.randint(40, 140) if cfg["bus"] == "wishbone" and cfg["csr_dw"] == 32 else rng.randint(40, 70))
            if words > 0:
                p["regs"].insert(rng.randrange(len(p["regs"]) + 1),
                                 {"kind": "status", "name": "big", "size": words * cfg["csr_dw"] - rng.randrange(cfg["csr_dw"])})
    cfg["periphs"] = periphs
    rams = []
    org = 0x10000000
    for k in range(rng.choice((0, 1, 1, 2))):
        r = {"name": "ram%d" % k, "origin": org, "size": rng.choice((0x40, 0x80, 0x100, 0x400, 0xc0, 0x180, 0x300))}
        if rng.random() < 0.6:
            n = rng.randint(1, min(70, r["size"] - 1))
            r["init"] = {"bytes": [rng.getrandbits(8) for _ in range(n)], "endianness": rng.choice(("little", "big"))}
            if rng.random() < 0.3:
                r["mode"] = "rx"        # built through add_rom()
        rams.append(r)
        org += 0x10000000
    if rng.random() < fixed.get("shadow_prob", 0.35) and cfg["csr_origin"] >= 0x1000:
        # a non-power-of-two slave at the bottom of the map followed by automatically placed ones: the allocator must
        # keep them out of the power-of-two range the first one's decoder answers to
        big, small = rng.choice(((0x180, 0x80), (0x300, 0x100), (0xc0, 0x40), (0x180, 0x40), (0x280, 0x80)))
        rams.append({"name": "lo0", "origin": 0, "size": big})
        rams.append({"name": "lo1", "origin": None, "size": small})
        if rng.random() < 0.5:
            rams.append({"name": "lo2", "origin": None, "size": rng.choice((0x40, 0xc0))})
    cfg["rams"] = rams
    if rng.random() < 0.25:
        cfg["second_master"] = True
    return cfg


class TaskTimeout(Exception):
    pass


def _limit(seconds):
    """Per-task wall-clock limit (a changed implementation may loop in elaboration or never settle)."""
    import signal

    def on_alarm(signum, frame):
        raise TaskTimeout("task exceeded %d s" % seconds)
    try:
        signal.signal(signal.SIGALRM, on_alarm)
        signal.alarm(seconds)
    except ValueError:
        pass


def _unlimit():
    import signal
    try:
        signal.alarm(0)
    except ValueError:
        pass


TASK_LIMIT = int(os.environ.get("VERIF_C14_TASK_LIMIT", "600"))


def guarded(fn, kind):
    """Wrap a pool task: an exception or a timeout becomes a record with the concrete input, never a crash."""
    def run(args):
        _limit(TASK_LIMIT)
        try:
            return fn(args)
        except BaseException:
            return {"crash": traceback.format_exc()[-1500:], "input": {"kind": kind, "seed": args[0], "forced": list(args[1:]) or None}, "alarms": [],
                    "stats": {}, "line": None, "real": None}
        finally:
            _unlimit()
            envshim.quiet_stderr()
    return run


def soc_task(args):
    """Pool worker: one end-to-end SoC check."""
    cfg, seed, max_regs = args[:3]
    max_words = args[3] if len(args) > 3 else None
    _limit(TASK_LIMIT)
    try:
        rec = check_soc(cfg, seed, max_regs, max_words)
    except BaseException:
        rec = {"cfg": cfg, "seed": seed, "lean": [], "alarms": [], "stats": {}, "verdict": "crash",
               "crash": traceback.format_exc()[-1500:], "samples": []}
    finally:
        _unlimit()
    envshim.quiet_stderr()
    return rec


# ------------------------------------------------------------------------------------------------------------
# memory images (pure Python code: mode C)

def ref_image_byte(img, q, big, a):
    """Byte-addressing reference CPU: the byte at address `a` of a memory of 4q-byte words initialised with img."""
    word = img[a // (4 * q)] if a // (4 * q) < len(img) else 0
    sub = (word >> (32 * ((a // 4) % q))) & M32
    lane = (3 - a % 4) if big else a % 4
    return (sub >> (8 * lane)) & 0xff


def unaligned_image_probe():
    """Witness of C14-mem-image-unaligned-base on the real get_mem_data: a 10-byte file at base 5 and a 4-byte aligned region at
    base 4, data_width=64.  -> (still_fails, what)"""
    tmp = tempfile.mkdtemp(prefix="c14_")
    try:
        fn = os.path.join(tmp, "f.bin")
        data = bytes(range(0x11, 0x1b))
        with open(fn, "wb") as f:
            f.write(data)
        out = []
        for base in (5, 4):
            try:
                img = get_mem_data({fn: "%08x" % base}, data_width=64, endianness="little")
            except Exception as e:      # refusing an unaligned base repairs the finding as well
                out.append((False, "base %d refused: %r" % (base, e)))
                continue
            got = [ref_image_byte(img, 2, False, base + i) for i in range(len(data)) if (base + i) < 8 * len(img)]
            bad = got != list(data)
            out.append((bad, "get_mem_data({f.bin: %08x}, data_width=64): file byte 0 (0x%02x) is read at byte address %s, expected %d" % (
                base, data[0], next((a for a in range(8 * len(img)) if ref_image_byte(img, 2, False, a) == data[0]), None), base)))
        fails = any(b for b, _ in out)
        return fails, "; ".join(t for b, t in out if b == fails)
    finally:
        shutil.rmtree(tmp, ignore_errors=True)


def mem_image_case(rng, tmpdir):
    """One random get_mem_data call.  -> (lean line, real answer, oracle alarm | None, second lean line, answer)"""
    n = rng.choice((1, 2, 3, 4, 5, 7, 8, 9, 15, 16, 17, 31, 32, 33, 64, 70)) if rng.random() < 0.5 else rng.randint(1, 70)
    q = rng.choice((1, 2, 4))
    big = rng.random() < 0.5
    data = bytes(rng.getrandbits(8) if rng.random() < 0.9 else 0 for _ in range(n))
    fn = os.path.join(tmpdir, "img_%d.bin" % rng.getrandbits(30))
    with open(fn, "wb") as f:
        f.write(data)
    offset = rng.choice((0, 0, 0x100, 0x40000000))
    k = rng.choice((0, 0, 0, 1, 3))
    # a region base that is not a multiple of the memory word (4-byte aligned ones on 64/128-bit memories included)
    r_ = rng.choice([x for x in range(1, 4 * q)] + [4 * x for x in range(1, q)]) if rng.random() < 0.12 else 0
    kb = k * 4 * q + r_
    base = offset + kb
    mem_size = rng.choice((None, None, n + kb + rng.randint(1, 9), 4096))
    src = fn if kb == 0 and rng.random() < 0.7 else {fn: "%08x" % base}
    if isinstance(src, dict) and rng.random() < 0.4:
        # the user-facing form: a .json file naming the binary and its base (get_mem_regions)
        jf = fn + ".json"
        with open(jf, "w") as f:
            json.dump({os.path.basename(fn): "0x%08x" % base}, f)
        src = jf
    alarm = None
    if mem_size is not None and rng.random() < 0.3:
        # a file that does not fit must be refused, never silently truncated or wrapped
        small = rng.randint(1, n + kb - 1) if n + kb > 1 else None
        if small is not None:
            try:
                get_mem_data(src, data_width=32 * q, endianness="big" if big else "little", mem_size=small, offset=offset)
                alarm = "a %d-byte image was accepted for a memory of %d bytes" % (n + kb, small)
            except AssertionError:
                pass
    img = get_mem_data(src, data_width=32 * q, endianness="big" if big else "little", mem_size=mem_size, offset=offset)
    os.unlink(fn)
    if isinstance(src, str) and src.endswith(".json"):
        os.unlink(src)
    total = 4 * q * len(img)
    tag = None
    for a in range(total):
        want = data[a - kb] if kb <= a < kb + n else 0
        if alarm is None and ref_image_byte(img, q, big, a) != want:
            alarm = "%d-byte file placed at byte offset %d of a %d-bit %s-endian memory: byte address %d of the image reads 0x%02x, file byte %s is 0x%02x" % (
                n, kb, 32 * q, "big" if big else "little", a, ref_image_byte(img, q, big, a), a - kb if kb <= a < kb + n else "(none)", want)
            # the open finding is exactly "placed at the aligned-down base": any other misplacement stays a fresh violation
            kf = kb // (4 * q) * (4 * q)
            floor_ok = all(ref_image_byte(img, q, big, x) == (data[x - kf] if kf <= x < kf + n else 0) for x in range(total))
            tag = R_UNALIGNED if (r_ and floor_ok) else None
            break
    if any(w_ >> (32 * q) for w_ in img):
        alarm, tag = "an image word exceeds %d bits" % (32 * q), None
    if total < kb + n or total >= kb + n + 4 * q:
        alarm, tag = "image has %d bytes for %d data bytes at +%d" % (total, n, kb), None
    line = "memimage %d %d %d %s" % (big, q, kb, " ".join(map(str, data)))
    real = " ".join(map(str, img))
    line2 = "imagebytes %d %d %d %s" % (big, q, total, real)
    if r_:
        want2 = " ".join(str(ref_image_byte(img, q, big, a)) for a in range(total))   # placement is the finding; the lane model is still tied
    else:
        want2 = " ".join(str(data[a - kb] if kb <= a < kb + n else 0) for a in range(total))
    return {"line": line, "real": real, "alarm": alarm, "tag": tag, "line2": line2, "real2": want2,
            "input": {"kind": "memimage", "bytes": list(data), "q": q, "big": big, "offset": offset, "base": base,
                      "mem_size": mem_size}}


# ------------------------------------------------------------------------------------------------------------
# exporters alone on hand-made regions (no SoC): wide sweep of the address arithmetic (mode C)

def export_case(rng):
    from litex.soc.integration.soc import SoCCSRRegion
    bw = rng.choice((8, 32))
    paging = rng.choice((0x400, 0x800, 0x1000, 0x2000))
    csr_base = rng.choice((0, 0xf0000000, 0x82000000, 0x10000 * rng.randint(1, 4000)))
    pages = sorted(rng.sample(range(32), rng.randint(1, 5)))
    regions, banks = {}, []
    for bi, page in enumerate(pages):
        sizes = [rng.choice(SIZES) if rng.random() < 0.5 else rng.randint(1, 200) for _ in range(rng.randint(0, 7))]
        objs = []
        for k, s in enumerate(sizes):
            objs.append(CSRStorage(s, name="r%d" % k) if rng.random() < 0.6 else CSRStatus(s, name="r%d" % k))
        regions["b%d" % bi] = SoCCSRRegion(csr_base + paging * page, bw, objs)
        banks.append(" ".join([str(page)] + [str(s) for s in sizes]))
    consts = {"CONFIG_CSR_ALIGNMENT": 32, "CONFIG_CSR_DATA_WIDTH": bw}
    js = json.loads(export.get_csr_json(regions, consts, {}))
    cs = parse_csv(export.get_csr_csv(regions, consts, {}))
    hd = CHeader(export.get_csr_header(regions, consts, csr_base=csr_base))
    jj, hh = [], []
    alarm = None
    for bi in range(len(pages)):
        ej, eh = [], []
        for c in regions["b%d" % bi].obj:
            full = "b%d_%s" % (bi, c.name)
            j = js["csr_registers"][full]
            if cs["csr_register"][full][:2] != (j["addr"], j["size"]):
                alarm = "csv/json differ for " + full
            ej.append("%d:%d" % (j["addr"], j["size"]))
            eh.append("%d:%d" % (hd.value("CSR_%s_ADDR" % full.upper()), hd.value("CSR_%s_SIZE" % full.upper())))
            if full in hd.readers and hd.word_addrs(full) != [j["addr"] + 4 * k for k in range(j["size"])]:
                alarm = "accessor addresses of " + full
        jj.append(" ".join(ej))
        hh.append(" ".join(eh))
    line = "export %d %d 32 %d %d ; %s" % (csr_base, paging, bw, csr_base, " ; ".join(banks))
    real = "J %s # H %s" % (" | ".join(jj), " | ".join(hh))
    return {"line": line, "real": real, "alarm": alarm, "input": {"kind": "export", "line": line}}


# ------------------------------------------------------------------------------------------------------------
# exhaustive decode sweep of a real CSRBankArray (no SoC around it): every CSR-bus address, every simple CSR

def sweep_case(args):
    """Build a real `CSRBankArray` + `Interconnect` for a random bank set with a small address width and drive
    EVERY CSR-bus address: the set of strobed simple CSRs per address is returned in the Lean `sweep` format."""
    seed = args[0]
    forced = args[1:] if len(args) > 1 else None      # (csr data width, memory word = factor x CSR word)
    rng = random.Random(seed)
    from litex.soc.interconnect import csr_bus
    from migen import Module
    bw = rng.choice((8, 32, 32))
    if forced:
        bw = forced[0]
    aw = rng.choice((9, 10, 11))
    paging = rng.choice((0x100, 0x200, 0x400)) if aw < 11 else rng.choice((0x200, 0x400))
    npages = (1 << aw) // (paging // 4)
    pages = rng.sample(range(npages), min(npages - 1 if forced else npages, rng.randint(1, 3)))
    if rng.random() < 0.3:
        pages[0] = npages - 1 if (npages - 1) not in pages else pages[0]
    src = LiteXModule()
    banks = []
    loc = {}
    npg = (1 << aw) // (paging // 4)
    asked = {}
    free = [x for x in range(npg) if x not in pages]
    mem_specs = []
    for k, page in enumerate(pages):
        p = gen_periph(rng, "p%d" % k, bw, max_regs=5, paging=paging if paging <= 0x200 else None,
                       mem_prob=0.5 if free else 0.0)
        for r in p["regs"]:
            r.pop("n", None)
        if forced and k == 0 and free:
            p["mems"] = [{"name": "m0", "width": bw * forced[1], "depth": rng.choice((2, 3, 5))}]
        if p.get("mems"):
            loc["p%d_m0" % k] = free.pop(rng.randrange(len(free)))
        if rng.random() < 0.4:
            # a bank that (nearly) fills its page: one wide register
            have = sum(nwords(bw, r["size"]) for r in p["regs"]) + (1 if p.get("mems") else 0)
            words = paging // 4 - have - rng.choice((0, 0, 1, 5))
            if words > 0:
                p["regs"].insert(rng.randrange(len(p["regs"]) + 1),
                                 {"kind": rng.choice(("status", "storage")), "name": "big", "size": words * bw - rng.randrange(bw)})
        setattr(src, p["name"], make_periph(p))
        loc[p["name"]] = page
        asked[p["name"]] = p
    import io, contextlib
    with contextlib.redirect_stdout(io.StringIO()):
        ba = csr_bus.CSRBankArray(src, address_map=lambda name, mem: loc[name if mem is None else name + "_" + mem.name_override],
                                  data_width=bw, address_width=aw, paging=paging, ordering=rng.choice(("big", "little")))
    master = csr_bus.Interface(data_width=bw, address_width=aw)
    top = Module()
    top.submodules += src, ba, csr_bus.Interconnect(master, ba.get_buses())
    nl = Netlist(top)
    order = {name: k for k, (name, _, _, _) in enumerate(ba.banks)}
    # the Lean bank list follows the order of `ba.banks` (xdir order)
    blist = []
    simple = []
    # the bank list sent to the model is what was ASKED for (sizes, depths, pages from the arguments above), not
    # what the elaborated objects report
    for name, csrs, mapaddr, rmap in ba.banks:
        p = asked[name]
        sizes = [r["size"] if not r.get("fields") else r["fields"][-1]["offset"] + r["fields"][-1]["size"] for r in p["regs"]]
        for m_ in p.get("mems", []):
            pb = clog2((m_["depth"] * nwords(bw, m_["width"]) + paging // 4 - 1) // (paging // 4))
            if pb:
                sizes.append(pb)
        blist.append(" ".join([str(loc[name])] + [str(x) for x in sizes]))
        for i, c in enumerate(rmap.simple_csrs):
            simple.append((order[name], i, c.re, c.we))
    mems = []
    walks = []
    for k, (name, memory, mapaddr, mmap) in enumerate(ba.srams):
        m_ = asked[name]["mems"][0]
        nsub = nwords(bw, m_["width"])
        pb = clog2((m_["depth"] * nsub + paging // 4 - 1) // (paging // 4))
        pv = rng.randrange(1 << pb) if pb else 0
        if mmap._page is not None:
            nl.set(mmap._page.storage, pv)
        elif pb:
            pv = 0
        port = [pt for pt in memory.ports if pt.we is not None][0]
        mems.append((k, port))
        blist.append("M %d %d %d %d" % (loc[name + "_m0"], m_["depth"], pv, nsub))
        if not pb:
            walks.append((name, memory, loc[name + "_m0"], m_, nsub))
    out = []
    nl.set(master.we, 1)
    nl.set(master.re, 1)
    for adr in range(1 << aw):
        nl.set(master.adr, adr)
        nl.settle()
        ev = nl.ev
        for b_, i, re_, we_ in simple:
            w, r = ev.eval(re_), ev.eval(we_)
            if w or r:
                if not (w and r):
                    out.append("%d:%d:%d:half" % (adr, b_, i))
                else:
                    out.append("%d:%d:%d" % (adr, b_, i))
        for k, port in mems:
            if ev.eval(port.we):
                out.append("%d:M%d:%d" % (adr, k, ev.eval(port.adr)))
    # ---- write EVERY sub-word location of every unpaged memory window with distinct values, read all back, and
    #      compare with the memory's own contents (oracle, independent of the model) -----------------------------
    alarms = []
    W = paging // 4
    dmask = (1 << bw) - 1
    nl.set(master.we, 0)
    nl.set(master.re, 0)
    nl.settle()
    for name, memory, page, m_, nsub in walks:
        arr = nl.ev.replaced_memories[memory]
        depth, width = m_["depth"], m_["width"]
        written = {}
        for w in range(depth):
            for k in range(nsub):
                v = rng.getrandbits(bw) | 1
                nl.set(master.adr, page * W + w * nsub + k)
                nl.set(master.dat_w, v)
                nl.set(master.we, 1)
                nl.settle()
                nl.tick()
                nl.set(master.we, 0)
                nl.settle()
                written[(w, k)] = v
        for w in range(depth):
            want = 0
            for k in range(nsub):
                want = (want << bw) | written[(w, k)]
            want &= (1 << width) - 1
            got = nl.getu(arr[w])
            if got != want:
                alarms.append("CSR memory %s_m0 (%d x %d bit on a %d-bit CSR bus): word %d holds 0x%x after its sub-words %s were "
                              "written in address order, expected 0x%x" % (name, depth, width, bw, w, got,
                                                                         [hex(written[(w, k)]) for k in range(nsub)], want))
                break
        for w in range(depth):
            word = nl.getu(arr[w])
            for k in range(nsub):
                nl.set(master.adr, page * W + w * nsub + k)
                nl.set(master.re, 1)
                nl.settle()
                nl.tick()
                nl.set(master.re, 0)
                nl.settle()
                val = nl.getu(master.dat_r)
                part = (word >> (bw * (nsub - 1 - k))) & dmask
                wr = written[(w, k)] & ((1 << max(0, min(bw, width - bw * (nsub - 1 - k)))) - 1)
                if val != part or val != wr:
                    alarms.append("CSR memory %s_m0 (%d x %d bit on a %d-bit CSR bus): read of word %d sub-word %d returns 0x%x, "
                                  "0x%x was written there, that part of the memory word is 0x%x" % (name, depth, width, bw, w, k, val, wr, part))
                    break
            else:
                continue
            break
    line = "sweep %d %d %d ; %s" % (bw, aw, paging, " ; ".join(blist))
    return {"line": line, "real": " ".join(out) or "-", "addresses": 1 << aw, "simple": len(simple), "alarms": alarms,
            "walked": [(m_["width"], m_["depth"]) for _, _, _, m_, _ in walks],
            "input": {"kind": "sweep", "seed": seed, "forced": list(forced) if forced else None}}


# ------------------------------------------------------------------------------------------------------------
# build verdicts: what the SoC refuses (page >= n_locs, page used twice, bank larger than its page)

def verdict_case(args):
    seed, = args
    rng = random.Random(seed)
    aw = rng.choice((14, 15))
    paging = rng.choice((0x400, 0x800, 0x1000))
    nlocs = (4 << aw) // paging
    cfg = dict(bus="wishbone", bus_dw=32, csr_dw=rng.choice((32, 32, 8)), paging=paging, ordering="big", csr_aw=aw,
               with_ctrl=False, ic="shared", rams=[])
    periphs, banks = [], []
    for k in range(rng.randint(1, 3)):
        p = gen_periph(rng, "p%d" % k, cfg["csr_dw"], max_regs=3)
        p.pop("mems", None)
        for r in p["regs"]:
            r.pop("n", None)
        mode = rng.random()
        p["loc"] = rng.choice((nlocs, nlocs - 1, nlocs + 1, rng.randrange(nlocs))) if mode < 0.35 else rng.randrange(min(nlocs, 6))
        if rng.random() < 0.25:
            # a bank around the page capacity: one wide register
            words = paging // 4 + rng.choice((-1, 0, 0, 1, 2)) - sum(nwords(cfg["csr_dw"], r["size"]) for r in p["regs"])
            if words > 0:
                p["regs"].append({"kind": "status", "name": "big", "size": words * cfg["csr_dw"] - rng.randrange(cfg["csr_dw"])})
        periphs.append(p)
        banks.append(" ".join([str(p["loc"])] + [str(r["size"]) for r in p["regs"]]))
    cfg["periphs"] = periphs
    b, verdict = safe_build(cfg)
    line = "accepts 32 %d %d %d ; %s" % (aw, paging, cfg["csr_dw"], " ; ".join(banks))
    # what the build must refuse, recomputed from the arguments (independent of the model)
    alarms = []
    if verdict == "ok":
        for p in periphs:
            n_ = sum(nwords(cfg["csr_dw"], r["size"]) for r in p["regs"])
            if n_ > paging // 4:
                alarms.append("bank %s with %d simple CSRs of %d bit was accepted in a page of %d locations" % (p["name"], n_, cfg["csr_dw"], paging // 4))
            if p["loc"] >= nlocs:
                alarms.append("bank %s was accepted at CSR location %d of %d" % (p["name"], p["loc"], nlocs))
    return {"line": line, "real": verdict, "alarms": alarms, "input": {"kind": "verdict", "cfg": cfg}}


# ------------------------------------------------------------------------------------------------------------
# interrupt numbers: a SoCCore around a stub CPU (harness side) whose `interrupt` lines are observed

def _stub_cpu_cls():
    from litex.soc.cores import cpu as cpu_mod

    class C14StubCPU(cpu_mod.CPU):
        category, family, name, human_name = "softcore", "stub", "c14stub", "C14 stub"
        variants = ["standard"]
        data_width, endianness = 32, "little"
        gcc_triple, gcc_flags, linker_output_format, nop = "none", "", "elf32-little", "nop"
        io_regions = {0x8000_0000: 0x8000_0000}

        own_interrupts = {}

        def __init__(self, platform, variant="standard"):
            self.platform, self.variant = platform, variant
            self.interrupts = dict(C14StubCPU.own_interrupts)   # the CPU's own (reserved) interrupt names
            self.reset = Signal()
            self.interrupt = Signal(32)
            self.dbus = wishbone.Interface(data_width=32, address_width=32, addressing="word")
            self.periph_buses = [self.dbus]
            self.memory_buses = []

        def set_reset_address(self, reset_address):
            self.reset_address = reset_address
    cpu_mod.CPUS["c14stub"] = C14StubCPU
    return C14StubCPU


def irq_case(args):
    """SoCCore(cpu=stub with 32 interrupt lines, timer0) + peripherals with an EventManager at random / automatic IRQ
    locations.  Oracle: the exported `<NAME>_INTERRUPT` (soc.h, JSON, CSV, SVD) is the index of the one CPU interrupt
    line that rises when that peripheral's event fires (enabled through the exported `ev_enable` address)."""
    from litex.soc.integration.soc_core import SoCCore
    from litex.soc.interconnect.csr_eventmanager import EventManager, EventSourceLevel
    seed, = args
    rng = random.Random(seed)
    stub = _stub_cpu_cls()
    stub.own_interrupts = {"cpuirq": rng.choice((1, 5, 30))} if rng.random() < 0.4 else {}
    alarms, stats = [], {}
    ids = {}            # name -> number used in the model call

    def nid(n_):
        return ids.setdefault(n_, len(ids))
    ops = ["E"] + ["A %d %d 0" % (nid(n_), l_) for n_, l_ in stub.own_interrupts.items()]
    envshim.quiet_stderr()
    plat = SimPlatform("SIM", _IO)
    with_timer = rng.random() < 0.6
    rom_bytes = None
    rom_kw = dict(integrated_rom_size=0x100)
    tmpd = None
    if rng.random() < 0.6:
        rom_bytes = bytes(rng.getrandbits(8) for _ in range(rng.randint(5, 70)))   # a one-word ROM is refused by migen (Signal(max=1))
        tmpd = tempfile.mkdtemp(prefix="c14_")
        with open(os.path.join(tmpd, "rom.bin"), "wb") as f:
            f.write(rom_bytes)
        rom_kw = dict(integrated_rom_size=0x100, integrated_rom_init=os.path.join(tmpd, "rom.bin"))
    try:
        soc = SoCCore(plat, clk_freq=int(1e6), cpu_type="c14stub", integrated_sram_size=rng.choice((0, 0x80, 0xc0)),
                      with_uart=False, with_timer=with_timer, csr_paging=rng.choice((0x400, 0x800, 0x1000)),
                      bus_interconnect=rng.choice(("shared", "crossbar")), **rom_kw)
    finally:
        if tmpd:
            shutil.rmtree(tmpd, ignore_errors=True)
    if with_timer:
        ops.append("A %d N 1" % nid("timer0"))
    names, fixed = [], {}
    used = set(stub.own_interrupts.values())
    for k in range(rng.randint(1, 4)):
        m = LiteXModule()
        m.ev = EventManager()
        m.ev.src = EventSourceLevel(name="src")
        m.ev.finalize()
        name = "q%d" % k
        setattr(soc, name, m)
        if rng.random() < 0.5:
            n = rng.choice((31, rng.randrange(32), rng.randrange(32)))
            # a pinned request (it may collide with a granted location: refused, then an automatic one is taken)
            ops.append("A %d %d 0" % (nid(name), n))
            try:
                soc.irq.add(name, n)
                fixed[name] = n
            except SoCError:
                envshim.quiet_stderr()
                ops.append("A %d N 1" % nid(name))
                soc.irq.add(name, use_loc_if_exists=True)
        else:
            ops.append("A %d N 1" % nid(name))
            soc.irq.add(name, use_loc_if_exists=True)
        used.add(soc.irq.locs[name])
        names.append(name)
    b = Built()
    b.cfg = {"bus": "wishbone", "bus_dw": 32, "csr_dw": 32, "paging": soc.csr.paging}
    b.soc, b.master, b.periphs, b.rams = soc, soc.cpu.dbus, {}, {}
    soc.finalize()
    envshim.quiet_stderr()
    ex = run_exports(b)
    tb = Tb(b)
    irqs = dict(soc.irq.locs)
    raised = {}
    for name in stub.own_interrupts:
        if (name.upper() + "_INTERRUPT") in soc.constants:
            alarms.append("CPU-owned interrupt %s was exported as a constant" % name)
    for name, loc in irqs.items():
        if name in stub.own_interrupts:
            continue
        c = name.upper() + "_INTERRUPT"
        if soc.constants.get(c) != loc or ex.json["constants"].get(c.lower()) != loc or \
                ("#define %s %d\n" % (c, loc)) not in ex.soc_header or ex.csv["constant"].get(c.lower()) != str(loc):
            alarms.append("%s: soc %r json %r csv %r (IRQ location %d)" % (c, soc.constants.get(c), ex.json["constants"].get(c.lower()),
                                                                       ex.csv["constant"].get(c.lower()), loc))
        if name in fixed and fixed[name] != loc:
            alarms.append("%s requested IRQ %d, got %d" % (name, fixed[name], loc))
    if ex.svd is None:
        alarms.append("SVD export crashed: %s" % ex.svd_error)
    else:
        for name, loc in irqs.items():
            if name.upper() not in ex.svd:      # a CPU-owned interrupt has no peripheral entry
                continue
            if ex.svd.get(name.upper(), {}).get("irq") != loc:
                alarms.append("SVD interrupt of %s: %r, IRQ location %d" % (name, ex.svd.get(name.upper(), {}).get("irq"), loc))
    if ex.json["constants"].get("config_cpu_interrupts") != max(irqs.values()) + 1:
        alarms.append("CONFIG_CPU_INTERRUPTS")
    for name in names:
        loc = irqs[name]
        mod = getattr(soc, name)
        reg = name + "_ev_enable"
        if reg not in ex.header.writers:
            alarms.append("no exported accessor for " + reg)
            continue
        ex.header.write(reg, 1, lambda a, x: tb.store32(a, x))
        before = tb.get(soc.cpu.interrupt)
        tb.set_reg(mod.ev.src.trigger, 1)
        tb.nl.tick()
        got = tb.get(soc.cpu.interrupt)
        raised[name] = [k_ for k_ in range(32) if (got >> k_) & 1 and not (before >> k_) & 1]
        if got != before | (1 << loc) or before & (1 << loc):
            alarms.append("%s_INTERRUPT = %d but firing the event takes cpu.interrupt from 0x%x to 0x%x" % (name.upper(), loc, before, got))
        pend = ex.header.read(name + "_ev_pending", lambda a: tb.load32(a)[0])
        if pend != 1:
            alarms.append("%s_ev_pending reads %r while the event is asserted" % (name, pend))
        tb.set_reg(mod.ev.src.trigger, 0)
        ex.header.write(reg, 0, lambda a, x: tb.store32(a, x))
        tb.nl.tick()
        if tb.get(soc.cpu.interrupt) & (1 << loc):
            alarms.append("%s: interrupt line %d stays high after disable" % (name, loc))
        stats["irq_lines"] = stats.get("irq_lines", 0) + 1
    # memory regions of this SoC as published, read back through the CPU's own bus
    mems = ex.json["memories"]
    if rom_bytes is not None:
        base, size = mems["rom"]["base"], mems["rom"]["size"]
        if size < len(rom_bytes):
            alarms.append("ROM region of 0x%x bytes published for a %d-byte image" % (size, len(rom_bytes)))
        for w in range((len(rom_bytes) + 3) // 4):
            val = tb.load32(base + 4 * w)[0]
            want = int.from_bytes(rom_bytes[4 * w:4 * w + 4].ljust(4, b"\0"), "little")
            if val != want:
                alarms.append("ROM image (SoCCore integrated_rom_init): load @0x%x = %r, file word 0x%x" % (base + 4 * w, val, want))
                break
        stats["rom_words"] = (len(rom_bytes) + 3) // 4
    for name, m_ in mems.items():
        if name in soc.bus.slaves:
            for a in (m_["base"], m_["base"] + m_["size"] - 4):
                val, hits = tb.load32(a)
                if sorted(hits["s"]) != [name]:
                    alarms.append("load @0x%x of published region %s addresses slaves %s" % (a, name, sorted(hits["s"])))
            stats["regions"] = stats.get("regions", 0) + 1
    # linker view of this CPU SoC: regions.ld / memory.x MEMORY block = the bus regions, `_stext` = the CPU's reset address
    # inside a published region, output_format.ld = the CPU's format
    ld, mx = export.get_linker_regions(soc.mem_regions), export.get_memory_x(soc)
    for name, region in soc.bus.regions.items():
        want_ = "\t%s : ORIGIN = 0x%08x, LENGTH = 0x%08x\n" % (name, region.origin, region.size)
        if ld.count(want_) != 1 or mx.count(want_) != 1:
            alarms.append("linker files (regions.ld / memory.x): region %s is not listed exactly once as (0x%x, 0x%x)" % (name, region.origin, region.size))
    if len(re.findall(r"ORIGIN = ", ld)) != len(soc.mem_regions):
        alarms.append("regions.ld lists %d regions, the SoC has %d" % (len(re.findall(r"ORIGIN = ", ld)), len(soc.mem_regions)))
    ms_ = re.search(r"_stext = (0x[0-9a-f]+);", mx)
    ra_ = getattr(soc.cpu, "reset_address", None)
    if ms_ is None or ra_ is None or int(ms_.group(1), 16) != ra_ or not any(
            m_["base"] <= ra_ < m_["base"] + m_["size"] for m_ in mems.values()):
        alarms.append("memory.x _stext %r, CPU reset address %r, published regions %r" % (ms_ and ms_.group(1), ra_, mems))
    if export.get_linker_output_format(soc.cpu) != 'OUTPUT_FORMAT("%s")\n' % stub.linker_output_format:
        alarms.append("output_format.ld: %r" % export.get_linker_output_format(soc.cpu))
    stats["linker_regions"] = len(soc.bus.regions)
    names_ld = list(soc.bus.regions)
    mx_real = ["%s:%d:%d" % (names_ld.index(m_.group(1)) if m_.group(1) in names_ld else m_.group(1), int(m_.group(2), 16), int(m_.group(3), 16))
               for m_ in re.finditer(r"^\t(\w+) : ORIGIN = 0x([0-9a-f]+), LENGTH = 0x([0-9a-f]+)$", mx, re.M)]
    extra_lines = [("ldregions %d ; " % (ra_ or 0) + " ; ".join("%d %d %d %d %d" % (i_, r_.origin, r_.size, bool(getattr(r_, "decode", True)), bool(r_.linker))
                                                               for i_, r_ in enumerate(soc.bus.regions.values())),
                    " ".join(mx_real) + " # %s" % (int(ms_.group(1), 16) if ms_ else "?"))]
    # the model call: b-c13's LocH run on the same requests, then the export / wiring functions of C14
    mods = [n_ for n_ in irqs if n_ not in stub.own_interrupts]
    line = "irq 32 ; O %s ; M %s ; %s ; %s" % (" ".join(str(nid(n_)) for n_ in stub.own_interrupts), " ".join(str(nid(n_)) for n_ in mods),
                                            " ; ".join(ops), " ; ".join("F %d" % nid(n_) for n_ in names))
    consts = {n_: soc.constants.get(n_.upper() + "_INTERRUPT") for n_ in irqs if (n_.upper() + "_INTERRUPT") in soc.constants}
    sp = lambda l: " ".join(l) or "-"
    real = " # ".join([sp(["%d:%d" % (nid(n_), l_) for n_, l_ in irqs.items()]),
                       sp(["%d:%d" % (nid(n_), l_) for n_, l_ in irqs.items() if n_ in consts and consts[n_] == l_]),
                       None, str(ex.json["constants"].get("config_cpu_interrupts")),
                       " | ".join(sp([str(k_) for k_ in raised.get(n_, [])]) for n_ in names)])  if False else None
    real = {"locs": sp(["%d:%d" % (nid(n_), l_) for n_, l_ in irqs.items()]),
            "consts": sp(["%d:%d" % (nid(n_), consts[n_]) for n_ in irqs if n_ in consts]),
            "cpuints": str(ex.json["constants"].get("config_cpu_interrupts")),
            "lines": " | ".join(sp([str(k_) for k_ in raised.get(n_, [])]) for n_ in names),
            "wired": {nid(n_): raised.get(n_) for n_ in names}}
    return {"alarms": alarms, "stats": stats, "irqs": irqs, "line": line, "real": real, "extra_lines": extra_lines,
            "input": {"kind": "irq", "seed": seed}}


# ------------------------------------------------------------------------------------------------------------
# `SoCBusHandler.add_adapter` on its own: one interface behind the real adapters, addresses driven on one side and observed
# on the other (ties `convS2M/convM2S/axil2wb/wb2axil/chainWord/masterBus`)

def adapter_case(args):
    seed, = args
    rng = random.Random(seed)
    from litex.soc.integration.soc import SoCBusHandler
    import io, contextlib
    std = rng.choice(("wishbone", "axi-lite"))
    dw = rng.choice((32, 64, 32))
    aw = 32
    sh = (dw // 8).bit_length() - 1
    direction = rng.choice(("m2s", "s2m"))
    ikind = rng.choice(("wbword", "wbbyte", "axil"))
    envshim.quiet_stderr()
    with contextlib.redirect_stdout(io.StringIO()):
        h = SoCBusHandler(standard=std, data_width=dw, address_width=aw)
        if ikind == "axil":
            itf = axi.AXILiteInterface(data_width=dw, address_width=aw)
        else:
            itf = wishbone.Interface(data_width=dw, address_width=aw, addressing=ikind[2:])
        adapted = h.add_adapter("x", itf, direction)
    envshim.quiet_stderr()
    nl = Netlist(h)
    src, dst = (itf, adapted) if direction == "m2s" else (adapted, itf)

    def is_wb(x):
        return hasattr(x, "cyc")
    for x in (src, dst):
        if is_wb(x):
            for s_ in (x.cyc, x.stb, x.we, x.adr, x.sel):
                nl.set(s_, 0)
            if x is dst:
                nl.set(x.ack, 0)
        else:
            for ch in (x.aw, x.w, x.ar):
                nl.set(ch.valid, 0)
    nl.settle()
    nl.tick()
    snap = nl.snapshot()
    busbyte = std != "wishbone"
    lines, alarms = [], []
    addrs = [0, 4, 1 << sh, (1 << sh) + 1, 0x30000004, 0x3000000c, 0xfffffffc] + [rng.getrandbits(32) for _ in range(10)]
    for A in addrs:
        for we in ((0, 1) if not is_wb(src) else (0,)):
            nl.restore(snap)
            if is_wb(src):
                nl.set(src.adr, A >> sh if src.addressing == "word" else A)
                nl.set(src.sel, (1 << (dw // 8)) - 1)
                nl.set(src.cyc, 1)
                nl.set(src.stb, 1)
            elif we:
                nl.set(src.aw.addr, A); nl.set(src.aw.valid, 1); nl.set(src.w.valid, 1); nl.set(src.w.strb, (1 << (dw // 8)) - 1)
            else:
                nl.set(src.ar.addr, A); nl.set(src.ar.valid, 1)
            nl.settle()
            seen = None
            for _ in range(8):
                if is_wb(dst):
                    if nl.get(dst.cyc) and nl.get(dst.stb):
                        seen = nl.getu(dst.adr)
                elif nl.get(dst.ar.valid):
                    seen = nl.getu(dst.ar.addr)
                elif nl.get(dst.aw.valid):
                    seen = nl.getu(dst.aw.addr)
                if seen is not None:
                    break
                nl.tick()
            what = "%s %s interface (%d bit) behind add_adapter(%s) of a %s bus, access at byte address 0x%x" % (
                ikind, "master" if direction == "m2s" else "slave", dw, direction, std, A)
            if seen is None:
                alarms.append(what + ": no request appears on the far side")
                continue
            word_dst = seen if (is_wb(dst) and dst.addressing == "word") else seen >> sh
            if word_dst != A >> sh:
                alarms.append(what + ": the far side is addressed with %s 0x%x = bus word 0x%x, expected bus word 0x%x" % (
                    "adr" if is_wb(dst) else "addr", seen, word_dst, A >> sh))
            if direction == "s2m":
                lines.append(("chainword %s %d %d %d %d" % (ikind, busbyte, sh, aw, A), str(word_dst)))
            else:
                byte_dst = seen << sh if (is_wb(dst) and dst.addressing == "word") else seen
                lines.append(("masterbus %s %d %d %d %d" % (ikind, busbyte, sh, aw, A), str(byte_dst)))
            # the pure addressing step (wishbone interface, wishbone bus of the other addressing) literally
            if is_wb(src) and is_wb(dst) and src.addressing != dst.addressing:
                lines.append(("adrconv %s %d %d %d %d %d" % (direction, itf.addressing == "word", std == "wishbone", sh, len(dst.adr),
                                                          nl.getu(src.adr)), str(seen)))
    return {"lines": lines, "alarms": alarms, "stats": {"addresses": len(addrs)},
            "input": {"kind": "adapter", "seed": seed, "std": std, "dw": dw, "direction": direction, "interface": ikind}}


def adapter_task(args):
    r = guarded(adapter_case, "adapter")(args)
    r.setdefault("lines", [])
    return r


def sweep_task(args):
    return guarded(sweep_case, "sweep")(args)


def verdict_task(args):
    return guarded(verdict_case, "verdict")(args)


def irq_task(args):
    return guarded(irq_case, "irq")(args)


def const_case(args):
    """`SoC.add_constant` histories on a real SoC object against `addConstants` (duplicate declarations are refused)."""
    seed, = args
    rng = random.Random(seed)
    envshim.quiet_stderr()
    soc = SoCMini(SimPlatform("SIM", _IO), clk_freq=int(1e6), with_ctrl=False)
    before = set(soc.constants)
    seq, verdict = [], "ok"
    for _ in range(rng.randint(1, 7)):
        k, v = rng.randrange(5), rng.randint(-4, 40)
        seq.append((k, v))
        try:
            soc.add_constant("c14_k%d" % k, v)
        except SoCError:
            envshim.quiet_stderr()
            verdict = "rejected"
            break
    mine = [(n_, v_) for n_, v_ in soc.constants.items() if n_ not in before]
    real = "rejected" if verdict == "rejected" else "ok " + " ".join("%d:%d" % (int(n_[len("C14_K"):]), v_) for n_, v_ in mine)
    hdr = export.get_soc_header(soc.constants)
    alarm = None
    for n_, v_ in mine:
        if hdr.count("#define %s %d\n" % (n_, v_)) != 1 or hdr.count("#define %s " % n_) != 1:
            alarm = "constant %s = %d is not defined exactly once in soc.h" % (n_, v_)
    return {"line": "constants " + " ".join("%d:%d" % p for p in seq), "real": real, "alarm": alarm,
            "input": {"kind": "constants", "seed": seed}}


def const_task(args):
    return guarded(const_case, "constants")(args)
