"""C02 — ordered emission: every place where the Verilog generator iterates a set/dict for emission.

  * `_generate_attribute` against the Lean model `emitAttrs` (real platform `attr_translate` tables);
  * ClockSignal/ResetSignal resolution of `get_name`, the IO naming step of `convert()`, the helper-register /
    clock-domain base names and the sorted emission orders against their Lean models;
  * the *emission corpus*: designs that reach every sorted()/set/dict iteration of verilog.py / memory.py /
    instance.py / hierarchy.py (several string and tuple attributes per signal/port/memory/instance, real
    platforms with their attr_translate tables and special overrides, several clock domains, several memories /
    instances, name overrides, sim-style comb, a LiteXContext.top hierarchy), generated in fresh interpreters under
    several PYTHONHASHSEED values; the texts must be identical modulo the date lines.
"""
import os, re, sys, json, random, subprocess, tempfile, shutil

import c02lib as L

HASHSEEDS = (0, 1, 2, 4242)          # >= 3 different values; 0 disables the randomisation

# ----------------------------------------------------------------------------------------------------------
# attribute tables
# ----------------------------------------------------------------------------------------------------------

def real_tables():
    """name -> attr_translate table of real toolchains (imported from /repo)."""
    out = {}
    from litex.gen.fhdl import verilog
    out["DummyAttrTranslate"] = verilog.DummyAttrTranslate()
    for mod, cls in (("litex.build.xilinx.vivado", "XilinxVivadoToolchain"), ("litex.build.xilinx.ise", "XilinxISEToolchain"),
                     ("litex.build.altera.quartus", "AlteraQuartusToolchain"), ("litex.build.lattice.diamond", "LatticeDiamondToolchain"),
                     ("litex.build.lattice.radiant", "LatticeRadiantToolchain"), ("litex.build.lattice.trellis", "LatticeTrellisToolchain"),
                     ("litex.build.lattice.icestorm", "LatticeIceStormToolchain"), ("litex.build.lattice.oxide", "LatticeOxideToolchain"),
                     ("litex.build.xilinx.f4pga", "F4PGAToolchain"), ("litex.build.generic_toolchain", "GenericToolchain"),
                     ("litex.build.yosys_nextpnr_toolchain", "YosysNextPNRToolchain")):
        try:
            m = __import__(mod, fromlist=[cls])
            out[cls] = getattr(m, cls).attr_translate
        except Exception:
            pass
    return out


STR_ATTRS = ["keep", "no_retiming", "async_reg", "mr_ff", "ars_ff1", "ars_ff2", "no_shreg_extract", "zz_unknown", "Keep", "a", "b"]
TUP_NAMES = ["loc", "dont_touch", "keep_hierarchy", "LOC", "iob", "a", "b", "syn_ramstyle", "_x"]
TUP_VALS = ["true", "yes", "SLICE_X0Y0", "block_ram", "", "1", 0, 1, -3, 12]


def gen_attr_case(rng, tables):
    tname = rng.choice(sorted(tables))
    if rng.random() < 0.25:
        tname = "random"
        table = {k: (None if rng.random() < 0.2 else (rng.choice(TUP_NAMES + STR_ATTRS), rng.choice(TUP_VALS)))
                 for k in rng.sample(STR_ATTRS, rng.randint(0, 8))}
    else:
        table = dict(tables[tname])
    attrs = [a for a in STR_ATTRS if rng.random() < 0.45]
    kinds = {}
    for _ in range(rng.randint(0, 5)):
        n = rng.choice(TUP_NAMES)
        v = rng.choice(TUP_VALS)
        k = kinds.setdefault(n, isinstance(v, int))      # one value type per name (a mixed pair raises TypeError)
        if k != isinstance(v, int):
            continue
        attrs.append([n, v])
    rng.shuffle(attrs)
    return {"table_name": tname, "table": {k: (list(v) if v is not None else None) for k, v in table.items()}, "attrs": attrs}


def attr_set(case):
    return {tuple(a) if isinstance(a, list) else a for a in case["attrs"]}


def table_of(case):
    return {k: (tuple(v) if v is not None else None) for k, v in case["table"].items()}


def _val(v):
    return ("i%d" % v) if isinstance(v, int) else "s=" + v


def lean_emitattrs_line(case, order):
    """`order`: the attribute set in its iteration order (what the generator's loop would see without sorted())."""
    ts = []
    for k, v in case["table"].items():
        ts.append("=%s - -" % k if v is None else "=%s =%s %s" % (k, v[0], _val(v[1])))
    as_ = []
    for a in order:
        as_.append("n =%s" % a if isinstance(a, str) else "p =%s %s" % (a[0], _val(a[1])))
    return "emitattrs %s | %s" % (" ".join(ts), " ".join(as_))


def dec(out):
    if out is None or not out.startswith("="):
        return None
    return out[1:].replace("~", " ").replace("$", "\n")


def real_emit_attrs(case):
    from litex.gen.fhdl import verilog
    s = attr_set(case)
    return verilog._generate_attribute(s, table_of(case)), list(s)


def independent_attr_text(case):
    """Model-independent recomputation (oracle): strings first ordered by the string, then tuples; Python order."""
    tr = table_of(case)
    s = attr_set(case)
    items = []
    for a in sorted(x for x in s if isinstance(x, str)):
        at = tr.get(a)
        if at is not None:
            items.append(at)
    strs, tups = items, sorted(x for x in s if isinstance(x, tuple))
    # strings carry the key ("", s): they come before every tuple whose name is non-empty
    allitems = strs + list(tups)
    txt = ", ".join("%s = %s" % (n, ('"%s"' % v) if not isinstance(v, int) else str(v)) for n, v in allitems)
    return "(* " + txt + " *)\n" if txt else ""


ATTR_CHILD = r'''
import sys, json
sys.path.insert(0, %(harness)r)
import envshim; envshim.install()
from litex.gen.fhdl import verilog
cases = json.load(open(sys.argv[1]))
out = []
for c in cases:
    s = {tuple(a) if isinstance(a, list) else a for a in c["attrs"]}
    t = {k: (tuple(v) if v is not None else None) for k, v in c["table"].items()}
    out.append(verilog._generate_attribute(s, t))
json.dump(out, sys.stdout)
'''


def attrs_across_hashseeds(cases, seeds=HASHSEEDS):
    """`_generate_attribute` on the cases in fresh interpreters, one per hash seed.  Returns {seed: [text]}."""
    d = tempfile.mkdtemp(prefix="c02a_")
    try:
        with open(os.path.join(d, "cases.json"), "w") as f:
            json.dump(cases, f)
        with open(os.path.join(d, "child.py"), "w") as f:
            f.write(ATTR_CHILD % {"harness": os.path.dirname(os.path.abspath(__file__))})
        procs = []
        for hs in seeds:
            env = dict(os.environ, PYTHONHASHSEED=str(hs), PYTHONDONTWRITEBYTECODE="1")
            procs.append((hs, subprocess.Popen([sys.executable, os.path.join(d, "child.py"), os.path.join(d, "cases.json")],
                                               stdout=subprocess.PIPE, stderr=subprocess.PIPE, text=True, env=env, cwd=d)))
        res = {}
        for hs, p in procs:
            try:
                o, e = p.communicate(timeout=120)
            except subprocess.TimeoutExpired:
                p.kill()
                o, e = p.communicate()
            res[hs] = json.loads(o) if p.returncode == 0 else "ERROR rc=%s %s" % (p.returncode, (e or "")[-400:])
        return res
    finally:
        shutil.rmtree(d, ignore_errors=True)


# ----------------------------------------------------------------------------------------------------------
# emission corpus: sources with `_build() -> (kind, text)`; each is generated in fresh interpreters
# ----------------------------------------------------------------------------------------------------------

HEAD = '''
from migen import *
from migen.fhdl.specials import Memory, Instance, Tristate
from migen.genlib.cdc import MultiReg
from migen.genlib.resetsync import AsyncResetSynchronizer
from litex.gen.fhdl import verilog
'''

# 1. plain convert() with a vendor attr_translate table: ports, signals, memories, instances with several attributes
ATTR_DESIGN = HEAD + '''
def _table():
    import importlib
    m = importlib.import_module(%(tmod)r)
    return getattr(m, %(tcls)r).attr_translate

def _build():
    d = Module()
    d.clock_domains.cd_sys = ClockDomain("sys")
    d.clock_domains.cd_por = ClockDomain("por", reset_less=True)
    d.clock_domains.cd_a   = ClockDomain("a")
    i  = Signal(8, name="i")
    o  = Signal(8, name="o")
    q  = Signal(8, name="q")
    ff = [Signal(8, name="ff%%d" %% k) for k in range(3)]
    for s in ff + [i, o]:
        for a in %(sattrs)r:
            s.attr.add(a)
    for s in [ff[0], o, q]:
        for a in %(tattrs)r:
            s.attr.add(tuple(a))
    d.sync     += [ff[0].eq(i), ff[1].eq(ff[0])]
    d.sync.por += ff[2].eq(ff[1] + 1)
    d.sync.a   += q.eq(ff[2])
    d.comb     += o.eq(ff[1] ^ ff[2])
    mems = []
    for k in range(3):
        mem = Memory(8, 4, init=[1, 2, 3, 4], name=%(memname)r)
        mem.attr = set()          # _generate_specials emits the attributes of every special that has `attr`
        for a in %(sattrs)r[:2]:
            mem.attr.add(a)
        for a in %(tattrs)r:
            mem.attr.add(tuple(a))
        p = mem.get_port(write_capable=True, mode=[0, 1, 2][k], clock_domain=["sys", "a", "por"][k])
        d.specials += mem, p
        d.comb += [p.adr.eq(i[:2]), p.dat_w.eq(i), p.we.eq(i[7])]
        mems.append(p.dat_r)
    outs = []
    for k in range(3):
        b = Signal(name="buf_o%%d" %% k)
        inst = Instance("BUF%%d" %% (k %% 2), name=%(instname)r, p_W=k, p_S="x", i_I=ff[k][0], i_C=ClockSignal("a"), i_R=ResetSignal("sys"), o_O=b)
        for a in %(tattrs)r:
            inst.attr.add(tuple(a))
        for a in %(sattrs)r:
            inst.attr.add(a)
        d.specials += inst
        outs.append(b)
    pad = Signal(name="pad")
    ti  = Signal(name="pad_i")
    d.specials += Tristate(pad, ff[0][0], ff[1][0], ti)
    sel = Signal(2, name="sel")
    z = Signal(8, name="z"); y = Signal(8, name="y")
    d.comb += Case(sel, {2: [z.eq(1), y.eq(2)], 0: [y.eq(3)], 1: [z.eq(i)], "default": [z.eq(mems[0]), y.eq(mems[1] ^ mems[2])]})
    res = Signal(16, name="res")
    d.comb += res.eq(Cat(*outs, ti, z, y))
    ios = {i, o, q, res, pad, sel, d.cd_sys.clk, d.cd_sys.rst, d.cd_por.clk, d.cd_a.clk, d.cd_a.rst}
    r = verilog.convert(d, ios=ios, name="top", attr_translate=_table(), regular_comb=%(regular)r)
    return r.main_source
'''

# 2. a real platform: attr_translate + special_overrides of the toolchain, MultiReg / AsyncResetSynchronizer lowered
PLATFORM_DESIGN = HEAD + '''
from litex.build.generic_platform import Pins, Subsignal, IOStandard

def _platform():
    io = [("clk", 0, Pins("A1"), IOStandard("LVCMOS33")), ("rst", 0, Pins("A2")), ("d", 0, Pins("B1 B2 B3 B4")),
          ("q", 0, Pins("C1 C2 C3 C4")), ("q", 1, Pins("D1 D2 D3 D4"))]
    kind = %(kind)r
    if kind == "vivado":
        from litex.build.xilinx import XilinxPlatform
        return XilinxPlatform("xc7a35t-csg324-1", io, toolchain="vivado")
    if kind == "ise":
        from litex.build.xilinx import XilinxPlatform
        return XilinxPlatform("xc6slx9-tqg144-2", io, toolchain="ise")
    if kind == "trellis":
        from litex.build.lattice import LatticePlatform
        return LatticePlatform("LFE5U-25F-6BG256C", io, toolchain="trellis")
    if kind == "diamond":
        from litex.build.lattice import LatticePlatform
        return LatticePlatform("LFE5U-25F-6BG256C", io, toolchain="diamond")
    if kind == "quartus":
        from litex.build.altera import AlteraPlatform
        return AlteraPlatform("EP4CE22F17C6", io, toolchain="quartus")
    from litex.build.lattice import LatticePlatform
    return LatticePlatform("ice40-hx8k-ct256", io, toolchain="icestorm")

def _build():
    platform = _platform()
    m = Module()
    m.clock_domains.cd_sys = ClockDomain("sys")
    m.clock_domains.cd_b   = ClockDomain("b")
    clk = platform.request("clk")
    m.comb += [m.cd_sys.clk.eq(clk), m.cd_b.clk.eq(~clk)]
    m.specials += AsyncResetSynchronizer(m.cd_sys, platform.request("rst"))
    m.specials += AsyncResetSynchronizer(m.cd_b, ResetSignal("sys"))
    d  = platform.request("d")
    q0 = platform.request("q", 0)
    q1 = platform.request("q", 1)
    s0 = Signal(4); s1 = Signal(4, name_override="x"); s2 = Signal(4, name_override="x2")
    for s in (s0, s1):
        s.attr.add("keep"); s.attr.add("no_retiming"); s.attr.add(("syn_x", "1")); s.attr.add(("a_first", 3))
    m.specials += MultiReg(d, s0, "b"), MultiReg(s0, s1, "sys", n=3)
    m.sync   += q0.eq(s1 + s2)
    m.sync.b += [s2.eq(s0), q1.eq(s0)]
    mem = Memory(4, 4)
    p = mem.get_port(write_capable=True, clock_domain="b")
    p2 = mem.get_port(clock_domain="sys")
    m.specials += mem, p, p2
    m.comb += [p.adr.eq(s0[:2]), p.dat_w.eq(s1), p.we.eq(s2[0]), p2.adr.eq(s1[:2])]
    m.sync += s2.eq(p2.dat_r)
    try:
        r = platform.get_verilog(m, name="top")
    except TypeError:
        r = platform.get_verilog(m)
    return r.main_source
'''

# 2b. multi-target comb groups (If / Case driving several signals: one always-block with several default-assignment
#     lines, `sorted(g[0], key=get_name)`), multi-target sync, two domains; all names pairwise different
GROUP_DESIGN = HEAD + '''
def _build():
    d = Module()
    d.clock_domains.cd_sys = ClockDomain("sys")
    d.clock_domains.cd_b   = ClockDomain("b")
    sel = Signal(3, name="sel")
    a   = Signal(8, name="a")
    ios = {sel, a, d.cd_sys.clk, d.cd_sys.rst, d.cd_b.clk, d.cd_b.rst}
    outs = []
    for gk, names in enumerate(%(groups)r):
        ts = [Signal(1 + (k %% 4), name=n, reset=k %% 2) for k, n in enumerate(names)]
        if gk %% 2 == 0:
            d.comb += If(sel[gk %% 3], *[t.eq(a[:len(t)]) for t in ts]).Elif(a[0], ts[0].eq(1), ts[-1].eq(0))
        else:
            d.comb += Case(sel, dict([(k, [t.eq(a[k:k + len(t)])] + ([ts[0].eq(1)] if k else [])) for k, t in enumerate(ts)] +
                                     [("default", [ts[-1].eq(1)])]))
        outs += ts
        ios.update(ts[::2])
    r1 = Signal(4, name="r1"); r2 = Signal(4, name="r2"); r3 = Signal(4, name="r3"); r4 = Signal(4, name="r4")
    d.sync   += If(sel[0], r1.eq(a), r2.eq(r1)).Else(r2.eq(0))
    d.sync.b += Case(sel, {0: [r3.eq(a)], 1: [r4.eq(r3), r3.eq(1)]})
    res = Signal(64, name="res")
    d.comb += res.eq(Cat(*outs, r1, r2, r3, r4))
    ios.add(res)
    r = verilog.convert(d, ios=ios, name="top", regular_comb=%(regular)r)
    return r.main_source
'''

# 2c. TIE designs: several signals with one base name among the IOs, among the internal signals and among the targets
#     of one comb group.  Which of them is issued `x` / `x_1` / `x_2` follows the FIRST-request order = iteration order
#     of a set of Signals (candidate finding C02-tie-order).
TIE_DESIGN = HEAD + '''
def _build():
    d = Module()
    a  = Signal(8, name="a_in")
    xs = [Signal(1 + k, name_override=%(n1)r) for k in range(%(nx)d)]
    ys = [Signal(1 + k, name_override=%(n2)r) for k in range(%(ny)d)]
    zs = [Signal(2 + k, name=%(n3)r) for k in range(3)]
    for k, x in enumerate(xs):
        d.comb += x.eq(a[:1 + k])
    for k, y in enumerate(ys):
        d.comb += y.eq(xs[k %% len(xs)] + k)
    d.comb += If(a[0], *[z.eq(a[:len(z)]) for z in zs])
    res = Signal(32, name="res")
    d.comb += res.eq(Cat(*ys, *zs))
    r = verilog.convert(d, ios={a, res} | set(xs), name="top")
    return r.main_source
'''

# 3. the SoC path: LiteXContext.top set, hierarchy comment, CSR banks, several instances of different cells in one module
SOC_DESIGN = HEAD + '''
def _build():
    import c02lib
    from litex.build.generic_platform import Pins, Subsignal
    from litex.build.sim import SimPlatform
    from litex.soc.integration.soc_core import SoCMini
    c02lib.install_fast_tracer()
    io = [("sys_clk", 0, Pins(1)), ("sys_rst", 0, Pins(1)), ("o", 0, Pins(4))]
    platform = SimPlatform("SIM", io)
    soc = SoCMini(platform, clk_freq=int(1e6), with_timer=True, with_uart=False, csr_data_width=%(csrw)d)
    class CRG(Module):
        def __init__(self, clk):
            self.clock_domains.cd_sys = ClockDomain()
            self.comb += self.cd_sys.clk.eq(clk)
    class Cells(Module):
        def __init__(self, o):
            # several black boxes of different cells in ONE module: their order in the hierarchy comment
            for k, cell in enumerate(%(cells)r):
                x = Signal(name="cell%%d" %% k)
                inst = Instance(cell, i_I=ClockSignal("sys"), o_O=x)
                inst.attr.add(("keep_hierarchy", "yes")); inst.attr.add(("dont_touch", "true"))
                self.specials += inst
                self.comb += o[k %% 4].eq(x)
    soc.submodules.crg = CRG(platform.request("sys_clk"))
    soc.submodules.cells = Cells(platform.request("o"))
    soc.finalize()
    r = platform.get_verilog(soc, name="top")
    return r.main_source
'''


def emission_corpus(rng, quick=True):
    """[(label, source)] — fixed members (one per back-end / path) plus randomised attribute sets."""
    out = []
    tabs = [("litex.build.xilinx.vivado", "XilinxVivadoToolchain"), ("litex.build.xilinx.ise", "XilinxISEToolchain"),
            ("litex.build.altera.quartus", "AlteraQuartusToolchain"), ("litex.build.lattice.diamond", "LatticeDiamondToolchain")]
    n = 4 if quick else 16
    for k in range(n):
        tmod, tcls = tabs[k % len(tabs)]
        sattrs = rng.sample(["keep", "no_retiming", "async_reg", "mr_ff", "ars_ff1", "ars_ff2", "no_shreg_extract"], rng.randint(3, 6))
        names = rng.sample(["loc", "dont_touch", "keep_hierarchy", "iob", "syn_ramstyle", "a_first"], rng.randint(2, 4))
        tattrs = [[nm, rng.choice(["true", "yes", "X0Y0", 1, 7])] for nm in names]
        out.append(("%sattr-design/%s/%d" % ("simcomb-" if k % 4 == 3 else "", tcls, k), ATTR_DESIGN % dict(
            tmod=tmod, tcls=tcls, sattrs=sattrs, tattrs=tattrs, memname=rng.choice([None, "mem", "storage"]),
            instname=rng.choice([None, "u", "buf"]), regular=(k % 4 != 3))))
    for kind in (("vivado", "trellis", "quartus") if quick else ("vivado", "ise", "trellis", "diamond", "quartus", "icestorm")):
        out.append(("platform/%s" % kind, PLATFORM_DESIGN % dict(kind=kind)))
    pool = ["t", "u", "zq", "aa", "m0", "dat", "x9", "hit", "stb", "ack", "w_e", "q7", "lo", "hi", "k", "cyc", "err", "sel_o", "b2", "c3", "d4", "e5", "f6", "g7"]
    for k in range(2 if quick else 8):
        names = rng.sample(pool, len(pool))
        groups, pos = [], 0
        for _ in range(4):
            n = rng.randint(2, 6)
            groups.append(names[pos:pos + n])
            pos += n
        out.append(("%scomb-groups/%d" % ("" if k % 2 == 0 else "simcomb-", k), GROUP_DESIGN % dict(groups=groups, regular=(k % 2 == 0))))
    # several black boxes of DIFFERENT cells in one module: the `[CELL]` lines of the hierarchy comment are compared too
    # (fixed finding C02-hierarchy-order: they were sorted by heap address).
    cells = ["PLLX", "BUFA", "IOBUFZ", "BUFA", "DNA", "CARRY9", "AND2"]
    for k in range(1 if quick else 3):
        rng.shuffle(cells)
        out.append(("soc/%d" % k, SOC_DESIGN % dict(csrw=rng.choice([8, 32]), cells=list(cells))))
    return out


def tie_corpus(rng, quick=True):
    """Designs inside the region of the candidate finding C02-tie-order (labels start with `tie/`)."""
    out = []
    for k in range(2 if quick else 6):
        out.append(("tie/%d" % k, TIE_DESIGN % dict(n1=rng.choice(["x", "pad"]), n2=rng.choice(["y", "x"]), n3=rng.choice(["z", "q"]),
                                                    nx=rng.randint(2, 4), ny=rng.randint(2, 5))))
    return out


def hierarchy_witness():
    """Two-process witness of C02-hierarchy-order: several black boxes of different cells in one module of a SoC,
    generated under the PYTHONHASHSEED values of HASHSEEDS."""
    cells = ["PLLX", "BUFA", "IOBUFZ", "BUFA", "DNA", "CARRY9", "AND2"]
    corpus = [("soc/hierarchy-witness", SOC_DESIGN % dict(csrw=8, cells=cells))]
    res = collect(start_corpus_procs(corpus))
    return corpus_differences(corpus, res)


def hierarchy_case(rng, ncells=8, trials=12):
    """Deterministic in-process witness: a module with `ncells` black boxes of pairwise different cells, built so that
    the heap-address order of the Instance objects differs from their creation (DUID) order: same-sized junk Instances
    are created first and freed in ascending address order (pymalloc's free lists are LIFO, so the design's instances
    then land on descending addresses); the forcing is *checked* on the objects (str-order != DUID order), and other
    freeing patterns are tried until it holds.
    Returns (forced, cells in the order of the `[CELL]` lines, [(cell, duid)] in creation order, text)."""
    import gc
    from migen import Module, Signal
    from migen.fhdl.specials import Instance
    from litex.gen.fhdl.hierarchy import LiteXHierarchyExplorer
    last = None
    for trial in range(trials):
        gc.collect()
        junk = [Instance("JUNK%d" % k) for k in range(4 * ncells)]
        order = sorted(range(len(junk)), key=lambda k: id(junk[k]))
        if trial % 3 == 1:
            order = order[::2] + order[1::2][::-1]
        elif trial % 3 == 2:
            rng.shuffle(order)
        victims = [junk[k] for k in order[:ncells + trial]]
        ids = set(map(id, victims))
        junk = [x for x in junk if id(x) not in ids]
        while victims:                      # free one by one, in the chosen order
            victims.pop(0)
        top = Module()
        sub = Module()
        top.submodules.sub = sub
        insts = []
        for k in range(ncells):
            inst = Instance("CELL%c" % (65 + (k * 5) % ncells))
            sub.specials += inst
            insts.append(inst)
        top.get_fragment()
        text = LiteXHierarchyExplorer(top=top, depth=None, with_colors=False).get_hierarchy()
        cells = re.findall(r"\[(CELL\w)\]", text)
        forced = [x.of for x in sorted(insts, key=str)] != [x.of for x in sorted(insts, key=lambda x: x.duid)]
        last = (forced, cells, [(x.of, x.duid) for x in insts], text)
        del junk
        if forced:
            return last
    return last


CANDIDATE_LABELS = ("tie/", "simcomb")           # corpus designs inside the region of the candidate finding C02-tie-order
DUID_OFFSETS = (0, 1, 2, 3, 5, 8, 13, 64)      # dummy objects elaborated before a REBUILD of the design in the same interpreter

BATCH_CHILD = r'''
import sys, json, traceback
sys.path.insert(0, %(harness)r)
import envshim; envshim.install()
import c02lib
from migen import Signal
from migen.fhdl.specials import Instance, Memory
corpus = json.load(open(sys.argv[1]))
offsets = json.loads(sys.argv[2])
KEEP = []

def build(label, src):
    try:
        g = {"__name__": "c02emit"}
        exec(compile(src, "<c02emit %%s>" %% label, "exec"), g)
        return c02lib.strip_dates(g["_build"]())
    except Exception:
        return "ERROR " + traceback.format_exc()[-1200:]
    finally:
        try:
            from litex.gen import LiteXContext
            LiteXContext.top = None; LiteXContext.platform = None; LiteXContext.toolchain = None; LiteXContext.soc = None
        except Exception:
            pass

first, later = [], []
for label, src in corpus:               # all first builds first: identical DUIDs in every process (hash-seed dimension)
    first.append(build(label, src))
for label, src in corpus:
    ts = []
    for k in offsets:
        # unrelated objects elaborated before the design is built again: shifts every DUID of the design by its own
        # size plus k (Signals hash by DUID) and moves heap addresses (specials / clock domains hash by address)
        for n in range(k):
            KEEP.append(Signal())
            if n %% 5 == 0:
                KEEP.append(Instance("DUMMY")); KEEP.append(Memory(1, 2))
        ts.append([k, build(label, src)])
    later.append(ts)
json.dump({"first": first, "later": later}, sys.stdout)
'''


class Results(dict):
    '''{hashseed: [first-build text per design] | "ERROR ..."}; `.later[hashseed][design] = [[k, text], ...]` are the
    rebuilds of the design in the same interpreter after k extra objects.'''
    later = None


def start_corpus_procs(corpus, seeds=HASHSEEDS, offsets=DUID_OFFSETS):
    '''One fresh interpreter per hash seed converts the whole corpus, then rebuilds every design after k dummy objects
    for its share of `offsets`.  Returns a handle for `collect`.'''
    d = tempfile.mkdtemp(prefix="c02e_")
    with open(os.path.join(d, "corpus.json"), "w") as f:
        json.dump(corpus, f)
    with open(os.path.join(d, "child.py"), "w") as f:
        f.write(BATCH_CHILD % {"harness": os.path.dirname(os.path.abspath(__file__))})
    procs = []
    for i, hs in enumerate(seeds):
        env = dict(os.environ, PYTHONHASHSEED=str(hs), PYTHONDONTWRITEBYTECODE="1")
        share = list(offsets[i::len(seeds)])
        procs.append((hs, subprocess.Popen([sys.executable, os.path.join(d, "child.py"), os.path.join(d, "corpus.json"), json.dumps(share)],
                                           stdout=subprocess.PIPE, stderr=subprocess.PIPE, text=True, env=env, cwd=d)))
    return d, procs


def collect(handle, timeout=300):
    d, procs = handle
    res = Results()
    res.later = {}
    try:
        for hs, p in procs:
            try:
                o, e = p.communicate(timeout=timeout)
            except subprocess.TimeoutExpired:
                p.kill()
                o, e = p.communicate()
                res[hs] = "ERROR did not finish within %d s" % timeout
                continue
            try:
                if p.returncode == 0:
                    r = json.loads(o)
                    res[hs] = r["first"]
                    res.later[hs] = r["later"]
                else:
                    res[hs] = "ERROR rc=%s %s" % (p.returncode, (e or "")[-600:])
            except ValueError:
                res[hs] = "ERROR unreadable output %r" % (o[-300:],)
    finally:
        shutil.rmtree(d, ignore_errors=True)
    return res


def offset_differences(corpus, res):
    '''DUID-offset dimension: [(label, source, hashseed, k, differing lines)] — a rebuild of the design in the same
    interpreter after k extra objects whose text differs from the first build.'''
    diffs = []
    for hs in sorted(res.later or {}):
        if isinstance(res[hs], str):
            continue
        for idx, (label, src) in enumerate(corpus):
            base = res[hs][idx]
            if base.startswith("ERROR"):
                continue
            for k, t in res.later[hs][idx]:
                if t != base:
                    diffs.append((label, src, hs, k, L.text_diff(base, t) if not t.startswith("ERROR") else [t[-600:]]))
                    break
    return diffs


def corpus_differences(corpus, res):
    """-> (machinery errors, [(label, source, seed_a, seed_b, differing lines)])."""
    errs, diffs = [], []
    seeds = sorted(res)
    for hs in seeds:
        if isinstance(res[hs], str):
            errs.append({"hashseed": hs, "out": res[hs]})
    good = [hs for hs in seeds if not isinstance(res[hs], str)]
    if not good:
        return errs, diffs
    for k, (label, src) in enumerate(corpus):
        base = res[good[0]][k]
        if base.startswith("ERROR") or "module top" not in base:
            errs.append({"design": label, "hashseed": good[0], "out": base[-900:]})
            continue
        for hs in good[1:]:
            t = res[hs][k]
            if t != base:
                diffs.append((label, src, good[0], hs, L.text_diff(base, t)))
                break
    return errs, diffs


def attr_line_count(text):
    return len(re.findall(r"\(\*[^\n]*?,[^\n]*?\*\)", text))
