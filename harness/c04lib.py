"""C04 — handshake contract and progress: monitors (independent of the Lean model), contract-aware exhaustive
co-exploration (mode A), holding-producer co-simulation (mode B) and a small parallel job runner.

Letters/outputs follow `streamlib.StreamInst`:
   letter = (sink.valid, sink.data, sink.first, sink.last, source.ready, extra inputs...)
   outs   = [sink.ready, source.valid, source.data, source.first, source.last]

The property (properties.jsonl C04):
 (S) stability: driven by a producer that holds valid and its token until accepted, once source.valid is raised,
     valid/payload/param/first/last stay unchanged until the cycle in which source.ready is seen;
 (P) progress: from every reachable state, under a cooperative producer and consumer, tokens keep moving.
"""
import os
import time
from collections import deque

from explore import Disagreement, impl_step


# ---------------------------------------------------------------------------------------------------------
# Monitors (property oracles on real-code traces; no reference to the model)

class StabilityMonitor:
    """(S) on one trace.  The producer-side contract is tracked too: the property only speaks about producers
    that keep it, so the monitor disarms for the rest of the trace when the producer breaks it (`strict=False`).
    With `strict=True` only the boundary at which the producer misbehaved is skipped (one-cycle form, which is
    what the Lean theorem `KeepsContract` states for every reachable state).
    Extra inputs (enable / shift) are control inputs: they must be held while a token waits at the *source*
    (Lean: `EnableHeld`, `ShiftHeld`); a boundary across which they moved is not checked."""

    def __init__(self, strict=False):
        self.strict = strict
        self.armed = True
        self.sink_pending = None
        self.src_pending = None
        self.ex_pending = None
        self.checks = 0

    def observe(self, letter, outs):
        v, d, f, l, r = letter[:5]
        ex = tuple(letter[5:])
        obey = True
        if self.sink_pending is not None and (v, d, f, l) != self.sink_pending:
            obey = False
        if self.ex_pending is not None and ex != self.ex_pending:
            obey = False
        if not obey and not self.strict:
            self.armed = False
        msg = None
        if obey and self.armed and self.src_pending is not None:
            self.checks += 1
            msg = stability_msg(self.src_pending, outs)
        self.sink_pending, self.src_pending, self.ex_pending = next_pending(letter, outs)
        return msg


def stability_msg(src_pending, outs):
    if not outs[1]:
        return "source.valid retracted: token %r was offered, not taken (source.ready=0), and is gone" % (src_pending,)
    if tuple(outs[2:5]) != tuple(src_pending):
        return "source token changed while valid and not ready: %r -> %r (data, first, last)" % (
            tuple(src_pending), tuple(outs[2:5]))
    return None


def next_pending(letter, outs):
    """Obligations created by this cycle for the next one."""
    v, d, f, l, r = letter[:5]
    ex = tuple(letter[5:])
    sp = (v, d, f, l) if (v and not outs[0]) else None
    op = tuple(outs[2:5]) if (outs[1] and not r) else None
    xp = ex if (ex and op is not None) else None
    return sp, op, xp


class LiveWatch:
    """(P) on one trace: a window of `k_hs + slack` consecutive cooperative cycles (valid=1, ready=1, extras
    cooperative) must contain a sink or source handshake, a window of `k_del + slack` a delivery (and, where the
    element promises it, a window of `k_acc + slack` a sink handshake)."""

    def __init__(self, k_hs, k_del, coop_extra=None, slack=2, k_acc=None):
        self.k = {"handshake": k_hs, "delivery": k_del, "sink handshake": k_acc}
        self.slack = slack
        self.coop_extra = coop_extra
        self.run = {"handshake": 0, "delivery": 0, "sink handshake": 0}
        self.max = {"handshake": 0, "delivery": 0, "sink handshake": 0}

    def observe(self, letter, outs):
        coop = letter[0] == 1 and letter[4] == 1 and (self.coop_extra is None or self.coop_extra(tuple(letter[5:])))
        if not coop:
            for k in self.run:
                self.run[k] = 0
            return None
        ev = {"handshake": bool(outs[0]) or bool(outs[1]), "delivery": bool(outs[1]), "sink handshake": bool(outs[0])}
        for k in self.run:
            self.run[k] = 0 if ev[k] else self.run[k] + 1
            self.max[k] = max(self.max[k], self.run[k])
        for k in ("handshake", "delivery", "sink handshake"):
            if self.k[k] is not None and self.run[k] >= self.k[k] + self.slack:
                return "no %s in %d consecutive cooperative cycles (valid=1, ready=1)" % (k, self.run[k])
        return None


def fwd_dependence_msg(letter_a, outs_a, letter_b, outs_b):
    """(F) the forward path must not look at source.ready: two cycles from the same state whose inputs differ only
    in source.ready show the same source.valid and, when valid, the same token (a source that waits for ready before
    raising valid deadlocks against a consumer that waits for valid; a token that depends on ready changes when the
    consumer stalls).  Lean: `Elem.fwd` has no `ready` argument."""
    if bool(outs_a[1]) != bool(outs_b[1]):
        return ("source.valid depends combinationally on source.ready: valid=%d with ready=%d, valid=%d with ready=%d"
                % (outs_a[1], letter_a[4], outs_b[1], letter_b[4]))
    if outs_a[1] and tuple(outs_a[2:5]) != tuple(outs_b[2:5]):
        return ("source token depends combinationally on source.ready: %r with ready=%d, %r with ready=%d"
                % (tuple(outs_a[2:5]), letter_a[4], tuple(outs_b[2:5]), letter_b[4]))
    return None


def fwd_probe(inst, letter):
    """Evaluate (F) in the current register state for `letter` (no clock edge): returns (msg|None, letters)."""
    la = tuple(letter[:4]) + (0,) + tuple(letter[5:])
    lb = tuple(letter[:4]) + (1,) + tuple(letter[5:])
    inst.apply(la)
    oa = inst.sample()
    inst.apply(lb)
    ob = inst.sample()
    return fwd_dependence_msg(la, oa, lb, ob), la


class FwdMonitor:
    """(F) as a trace monitor: after each cycle the register state *before* it is restored and the same letter
    with source.ready flipped is evaluated (no clock edge), then the state after the cycle is put back."""

    def __init__(self, inst):
        self.inst = inst
        self.pre = inst.netlist.snapshot()
        self.checks = 0

    def observe(self, letter, outs):
        n = self.inst.netlist
        post = n.snapshot()
        n.restore(self.pre)
        flipped = tuple(letter[:4]) + (1 - letter[4],) + tuple(letter[5:])
        self.inst.apply(flipped)
        o2 = self.inst.sample()
        n.restore(post)
        self.pre = post
        self.checks += 1
        return fwd_dependence_msg(letter, outs, flipped, o2)


class Both:
    def __init__(self, *mons):
        self.mons = mons

    def observe(self, letter, outs):
        for m in self.mons:
            r = m.observe(letter, outs)
            if r:
                return r
        return None


def selftest():
    """Sensitivity self-test of the monitors on synthetic traces (no design involved)."""
    bad = []
    m = StabilityMonitor()
    m.observe((1, 1, 0, 0, 0), [1, 1, 1, 0, 0])
    if not m.observe((0, 0, 0, 0, 0), [1, 0, 0, 0, 0]):
        bad.append("retraction not flagged")
    m = StabilityMonitor()
    m.observe((1, 1, 0, 0, 0), [1, 1, 1, 0, 0])
    if not m.observe((0, 0, 0, 0, 0), [1, 1, 1, 0, 1]):
        bad.append("changed last not flagged")
    m = StabilityMonitor()
    m.observe((1, 1, 0, 0, 0), [0, 1, 1, 0, 0])
    if m.observe((0, 1, 0, 0, 0), [0, 0, 0, 0, 0]):
        bad.append("flagged although the producer itself broke the contract")
    m = StabilityMonitor()
    m.observe((1, 1, 0, 0, 0), [1, 1, 1, 0, 0])
    if m.observe((0, 0, 0, 0, 1), [1, 1, 1, 0, 0]) or m.observe((0, 0, 0, 0, 0), [1, 0, 0, 0, 0]):
        bad.append("false alarm on a legal trace")
    if not fwd_dependence_msg((1, 1, 0, 0, 0), [1, 0, 0, 0, 0], (1, 1, 0, 0, 1), [1, 1, 1, 0, 0]):
        bad.append("ready->valid dependence not flagged")
    if fwd_dependence_msg((1, 1, 0, 0, 0), [0, 1, 1, 0, 0], (1, 1, 0, 0, 1), [1, 1, 1, 0, 0]):
        bad.append("false alarm of the ready->valid check (only sink.ready may follow source.ready)")
    w = LiveWatch(1, 2)
    fired = [w.observe((1, 0, 0, 0, 1), [0, 0, 0, 0, 0]) for _ in range(3)]
    if not fired[2] or fired[0]:
        bad.append("watchdog window wrong: %r" % (fired,))
    return bad


# ---------------------------------------------------------------------------------------------------------
# Instance wrapper

class C04Inst:
    """Wraps a `streamlib.StreamInst` (as built by props.c03): same netlist, ports and Lean machine; C04 monitors.
       k_hs / k_del  : the bounds K, K' of the Lean theorems `X_progress` / `X_no_livelock` for this element
       k_acc         : bound of `AcceptsWithin` (sink served), when such a theorem exists
       coop_extra    : predicate on the extra inputs under which progress is promised (None: always)
       tokens        : optional restriction of the (data, first, last) token values of the alphabet"""

    def __init__(self, inner, k_hs, k_del, coop_extra=None, tokens=None, stable=True, note=None, k_acc=None):
        self.inner = inner
        self.k_acc = k_acc
        self.name = inner.name
        self.lean_open = inner.lean_open
        self.netlist = inner.netlist
        self.qual = inner.qual
        self.k_hs, self.k_del = k_hs, k_del
        self.coop_extra = coop_extra
        self.stable = stable
        self.note = note
        alpha = list(inner.alphabet)
        if tokens is not None:
            tk = set(tuple(t) for t in tokens)
            alpha = [l for l in alpha if tuple(l[1:4]) in tk or (l[0] == 0 and tuple(l[1:4]) == (0, 0, 0))]
        self.alphabet = alpha
        self.tokens = sorted(set(tuple(l[1:4]) for l in alpha if l[0] == 1))
        self.extras = sorted(set(tuple(l[5:]) for l in alpha))
        if hasattr(inner, "model_letter"):
            self.model_letter = inner.model_letter
        if hasattr(inner, "clocks") and callable(inner.clocks):
            self.clocks = inner.clocks

    def apply(self, letter):
        self.inner.apply(letter)

    def sample(self):
        return self.inner.sample()

    def nontrivial(self, letter, outs):
        return self.inner.nontrivial(letter, outs)

    def gen(self, rng, t):
        return self.inner.gen(rng, t)

    def monitor(self):
        mons = [LiveWatch(self.k_hs, self.k_del, self.coop_extra, k_acc=self.k_acc), FwdMonitor(self)]
        if self.stable:
            mons.insert(0, StabilityMonitor())
        return Both(*mons)

    def coop_extras(self):
        return [ex for ex in self.extras if self.coop_extra is None or self.coop_extra(ex)]

    def watch_tokens(self):
        """Token values driven during the cooperative watchdog runs: one with last=0 and one with last=1 when
        the alphabet has them (the control paths look at `last` only)."""
        out = []
        for want in (0, 1):
            for t in self.tokens:
                if t[2] == want:
                    out.append(t)
                    break
        return out or [(0, 0, 0)]


class HoldingGen:
    """Contract-obeying producer around `inst.gen`: holds valid/token while the sink did not accept, and holds the
    extra inputs (enable/shift) while a token waits at the source."""

    def __init__(self, inst):
        self.inst = inst
        self.sp = self.op = self.xp = None

    def gen(self, rng, t):
        l = list(self.inst.gen(rng, t))
        if self.sp is not None:
            l[0:4] = self.sp
        if self.xp is not None:
            l[5:] = self.xp
        return tuple(l)

    def observe(self, letter, outs):
        self.sp, self.op, self.xp = next_pending(letter, outs)


# ---------------------------------------------------------------------------------------------------------
# Cooperative watchdog from a snapshot (real code only)

def coop_gaps(inst, snap, budget=400, slack=2):
    """From the register state `snap`, drive cooperative letters (valid=1, ready=1) with every sequence of the
    watchdog tokens and every held cooperative extra value, until a delivery (and, if the element promises one, a
    sink handshake) is seen.  Returns (gaps, failing_letters|None, msg|None) where gaps = worst-case number of
    cooperative cycles needed to see the first handshake / delivery / sink handshake.  The property monitor part:
    more than K + slack cycles is a violation."""
    n = inst.netlist
    toks = inst.watch_tokens()
    want = {"handshake": inst.k_hs, "delivery": inst.k_del, "sink handshake": inst.k_acc}
    worst = {k: 0 for k in want}
    steps = 0
    for ex in inst.coop_extras() or [()]:
        stack = [(snap, [], {k: None for k in want})]
        while stack:
            s, letters, first = stack.pop()
            depth = len(letters)
            for tk in (toks if steps < budget else toks[:1]):
                n.restore(s)
                letter = (1,) + tuple(tk) + (1,) + tuple(ex)
                outs = impl_step(inst, letter)
                steps += 1
                ls = letters + [letter]
                ev = {"handshake": bool(outs[0]) or bool(outs[1]), "delivery": bool(outs[1]),
                      "sink handshake": bool(outs[0])}
                f2 = dict(first)
                open_ = False
                for k, kk in want.items():
                    if kk is None:
                        continue
                    if f2[k] is None and ev[k]:
                        f2[k] = depth + 1
                        worst[k] = max(worst[k], depth + 1)
                    if f2[k] is None:
                        open_ = True
                        if depth + 1 >= kk + slack:
                            worst[k] = max(worst[k], depth + 1)
                            return worst, ls, "no %s in %d cooperative cycles (valid=1, ready=1)" % (k, depth + 1)
                if open_:
                    stack.append((n.snapshot(), ls, f2))
    return worst, None, None


def over_bounds(inst, worst):
    """Observed gaps against the bounds of the Lean theorems (tighter than the monitor's K + slack)."""
    want = {"handshake": inst.k_hs, "delivery": inst.k_del, "sink handshake": inst.k_acc}
    return [(k, worst[k], kk) for k, kk in want.items() if kk is not None and worst[k] > kk]


# ---------------------------------------------------------------------------------------------------------
# Mode A: exhaustive co-exploration of (implementation state, model state, pending obligations)

def masked_equal(inst, a, b):
    if b is None or len(a) != len(b):
        return False
    for k in range(len(a)):
        qk = inst.qual[k]
        if qk is None:
            pass
        elif callable(qk):
            if not qk(a):
                continue
        elif a[qk] != 1 or b[qk] != 1:
            continue
        if a[k] != b[k]:
            return False
    return True


def path_to(seen, st):
    path = []
    while True:
        parent, letter = seen[st]
        if parent is None:
            break
        path.append(letter)
        st = parent
    path.reverse()
    return path


def coexplore(inst, lean, cov, max_states=200000, deadline=None):
    """Breadth-first over every letter of the alphabet from reset.  A product state is
         (impl register snapshot key, model state id, sink obligation, source obligation, held extras, armed)
    where the obligations are what the previous cycle left pending (a refused sink token the producer must
    repeat; a source token the element must repeat) and `armed` says that the producer kept its contract on the
    whole path.  On every transition: model/impl port comparison (as C03), and — when the producer keeps its
    contract across this boundary and a source token is pending — the stability check on the real outputs.
    On every distinct implementation state: the cooperative watchdog."""
    n = inst.netlist
    t_start = time.time()
    lean.open(inst.lean_open)
    root_snap = n.snapshot()
    root = (n.state_key(), 0, None, None, None, True)
    seen = {root: (None, None)}
    frontier = deque([(root_snap, root)])
    alphabet = inst.alphabet
    transitions = nontriv = checks = armed_checks = fwd_checks = 0
    watched = {}
    maxgap = {"handshake": 0, "delivery": 0, "sink handshake": 0}
    out = []
    exhaustive = True
    while frontier and len(out) < 6:
        if (deadline is not None and time.time() > deadline) or len(seen) > max_states:
            exhaustive = False
            break
        batch = [frontier.popleft() for _ in range(min(len(frontier), 256))]
        reqs, impl_res = [], []
        for snap, st in batch:
            key, sid, sp, op, xp, armed = st
            first_visit = key not in watched
            fw = {}
            if key not in watched:
                worst, wl, wmsg = coop_gaps(inst, snap)
                watched[key] = True
                for k in maxgap:
                    maxgap[k] = max(maxgap[k], worst[k])
                if wmsg:
                    tr = path_to(seen, st) + wl
                    out.append(Disagreement(inst, tr, len(tr) - 1, None, None, kind="monitor:" + wmsg))
                elif over_bounds(inst, worst):
                    tr = path_to(seen, st)
                    out.append(Disagreement(inst, tr, len(tr) - 1, None, None,
                                            kind="progress-bound: observed cooperative gaps exceed the bounds of the "
                                                 "Lean theorems (what, observed, bound): %r" % (over_bounds(inst, worst),)))
            for letter in alphabet:
                n.restore(snap)
                outs = impl_step(inst, letter)
                impl_res.append((st, letter, outs, n.state_key(), n.snapshot()))
                reqs.append((sid, inst.model_letter(letter) if hasattr(inst, "model_letter") else letter))
                if first_visit:
                    fk = tuple(letter[:4]) + tuple(letter[5:])
                    if fk in fw:
                        fwd_checks += 1
                        fmsg = fwd_dependence_msg(fw[fk][0], fw[fk][1], letter, outs)
                        if fmsg:
                            tr = path_to(seen, st) + [letter]
                            out.append(Disagreement(inst, tr, len(tr) - 1, outs, None, kind="monitor:" + fmsg))
                    else:
                        fw[fk] = (letter, outs)
        model_res = lean.step_batch(reqs)
        for (st, letter, outs, key2, snap2), (sid2, mouts) in zip(impl_res, model_res):
            key, sid, sp, op, xp, armed = st
            transitions += 1
            if inst.nontrivial(letter, outs):
                nontriv += 1
            obey = (sp is None or tuple(letter[:4]) == sp) and (xp is None or tuple(letter[5:]) == xp)
            mismatch = not masked_equal(inst, outs, mouts)
            if mismatch:
                tr = path_to(seen, st) + [letter]
                out.append(Disagreement(inst, tr, len(tr) - 1, outs, mouts))
            if inst.stable and obey and op is not None:
                checks += 1
                armed_checks += 1 if armed else 0
                msg = stability_msg(op, outs)
                if msg:
                    tr = path_to(seen, st) + [letter]
                    if armed:
                        out.append(Disagreement(inst, tr, len(tr) - 1, outs, None, kind="monitor:" + msg))
                    else:
                        out.append(Disagreement(inst, tr, len(tr) - 1, outs, None,
                                                kind="one-cycle stability (Lean KeepsContract) fails in a state reached "
                                                     "by a producer that broke the contract earlier: " + msg))
                    if len(out) >= 6:
                        break
                    continue
            if mismatch:
                if len(out) >= 6:
                    break
                continue
            sp2, op2, xp2 = next_pending(letter, outs)
            st2 = (key2, sid2, sp2, op2, xp2, armed and obey)
            if st2 not in seen:
                seen[st2] = (st, letter)
                frontier.append((snap2, st2))
    if out:
        exhaustive = False
    lean.close_session()
    n.restore(root_snap)
    cov.add_instance(inst.name, states=len(seen), transitions=transitions, nontrivial=nontriv,
                     exhaustive=exhaustive, mode="A")
    rec = cov.instances[-1]
    rec.update({"wall_s": round(time.time() - t_start, 1), "impl_states_watched": len(watched),
                "stability_checks": checks, "stability_checks_on_all_obeying_paths": armed_checks,
                "ready_to_valid_independence_checks": fwd_checks,
                "max_coop_cycles_to_handshake": maxgap["handshake"],
                "max_coop_cycles_to_delivery": maxgap["delivery"],
                "K_theorem": inst.k_hs, "K_delivery_theorem": inst.k_del})
    if inst.k_acc is not None:
        rec.update({"max_coop_cycles_to_sink_handshake": maxgap["sink handshake"], "K_accept_theorem": inst.k_acc})
    if inst.note:
        rec["note"] = inst.note
    cov.hist["stability_checks"] = cov.hist.get("stability_checks", 0) + checks
    cov.hist["fwd_independence_checks"] = cov.hist.get("fwd_independence_checks", 0) + fwd_checks
    cov.hist["watchdog_states"] = cov.hist.get("watchdog_states", 0) + len(watched)
    if len(cov.samples) < 4 and len(seen) > 1:
        last = next(reversed(seen))
        cov.samples.append({"instance": inst.name, "mode": "A",
                            "path_to_deepest_state": [list(l) for l in path_to(seen, last)][:40]})
    return out


# ---------------------------------------------------------------------------------------------------------
# Mode B: random co-simulation with a contract-obeying producer, monitors armed, periodic watchdog

def cosim(inst, lean, cov, rng, cycles, runs=1, watch_every=8):
    n = inst.netlist
    root = n.snapshot()
    out = []
    if inst.k_del is not None and inst.k_del > 8:
        # a watchdog run costs about K + slack steps: keep its share of the run bounded for long pipelines
        watch_every = max(watch_every, 2 * inst.k_del + 4)
    for run in range(runs):
        t_run = time.time()
        n.restore(root)
        lean.open(inst.lean_open)
        prod = HoldingGen(inst)
        stab = StabilityMonitor()
        live = LiveWatch(inst.k_hs, inst.k_del, inst.coop_extra, k_acc=inst.k_acc)
        mon = Both(stab, live) if inst.stable else live
        letters, impl_outs = [], []
        monmsg = None
        distinct = set()
        maxgap = {"handshake": 0, "delivery": 0, "sink handshake": 0}
        watched = 0
        fwd_checks = 0
        for t in range(cycles):
            if t % watch_every == 0 and monmsg is None:
                here = n.snapshot()
                worst, wl, wmsg = coop_gaps(inst, here, budget=60)
                n.restore(here)
                watched += 1
                for k in maxgap:
                    maxgap[k] = max(maxgap[k], worst[k])
                if wmsg:
                    tr = list(letters) + wl
                    out.append(Disagreement(inst, tr, len(tr) - 1, None, None, kind="monitor:" + wmsg))
                    monmsg = (t, wmsg)
                elif over_bounds(inst, worst):
                    out.append(Disagreement(inst, list(letters), len(letters) - 1, None, None,
                                            kind="progress-bound: observed cooperative gaps exceed the bounds of the "
                                                 "Lean theorems (what, observed, bound): %r" % (over_bounds(inst, worst),)))
                    monmsg = (t, "bound")
            letter = prod.gen(rng, t)
            if t % watch_every in (0, 3) and monmsg is None:
                fmsg, fl = fwd_probe(inst, letter)
                fwd_checks += 1
                if fmsg:
                    tr = list(letters) + [fl]
                    out.append(Disagreement(inst, tr, len(tr) - 1, None, None, kind="monitor:" + fmsg))
                    monmsg = (t, fmsg)
            outs = impl_step(inst, letter)
            prod.observe(letter, outs)
            letters.append(letter)
            impl_outs.append(outs)
            if inst.nontrivial(letter, outs):
                distinct.add((n.state_key(), tuple(letter)))
            if monmsg is None:
                m = mon.observe(letter, outs)
                if m:
                    monmsg = (t, m)
                    out.append(Disagreement(inst, letters[:t + 1], t, outs, None, kind="monitor:" + m))
        mletters = [inst.model_letter(l) for l in letters] if hasattr(inst, "model_letter") else letters
        model_outs = lean.run(mletters)
        lean.close_session()
        for t in range(cycles):
            if not masked_equal(inst, impl_outs[t], model_outs[t]):
                out.append(Disagreement(inst, letters[:t + 1], t, impl_outs[t], model_outs[t]))
                break
        cov.add_instance(inst.name, states=0, transitions=cycles, nontrivial=len(distinct), exhaustive=False, mode="B")
        cov.instances[-1].update({"wall_s": round(time.time() - t_run, 1),
                                  "stability_checks": stab.checks, "snapshots_watched": watched,
                                  "ready_to_valid_independence_checks": fwd_checks,
                                  "max_coop_cycles_to_handshake": maxgap["handshake"],
                                  "max_coop_cycles_to_delivery": maxgap["delivery"],
                                  "K_theorem": inst.k_hs, "K_delivery_theorem": inst.k_del})
        if inst.k_acc is not None:
            cov.instances[-1].update({"max_coop_cycles_to_sink_handshake": maxgap["sink handshake"],
                                      "K_accept_theorem": inst.k_acc})
        cov.hist["stability_checks"] = cov.hist.get("stability_checks", 0) + stab.checks
        cov.hist["watchdog_states"] = cov.hist.get("watchdog_states", 0) + watched
        if len(cov.samples) < 4:
            cov.samples.append({"instance": inst.name, "mode": "B", "first_cycles_in": [list(l) for l in letters[:12]],
                                "first_cycles_out": impl_outs[:12]})
        if out:
            break
    n.restore(root)
    return out


def monitor_search(inst, rng, cycles=4000, runs=6, deadline=None):
    """Failing-input search on the real code alone: holding producer, both monitors, periodic watchdog."""
    n = inst.netlist
    root = n.snapshot()
    try:
        for run in range(runs):
            n.restore(root)
            prod = HoldingGen(inst)
            mon = inst.monitor()
            letters = []
            for t in range(cycles):
                if deadline is not None and time.time() > deadline:
                    return None
                if t % 4 == 0:
                    here = n.snapshot()
                    _, wl, wmsg = coop_gaps(inst, here, budget=60)
                    n.restore(here)
                    if wmsg:
                        return letters + wl, wmsg
                letter = prod.gen(rng, t)
                outs = impl_step(inst, letter)
                prod.observe(letter, outs)
                letters.append(letter)
                m = mon.observe(letter, outs)
                if m:
                    return letters, m
    finally:
        n.restore(root)
    return None


# ---------------------------------------------------------------------------------------------------------
# Parallel job runner (mode "A"/"B": the C04 engines above; "A0"/"B0": the plain engines of explore.py)

_JOBS = None
_CTXINFO = None


class _JobTimeout(Exception):
    pass


def _alarm(signum, frame):
    raise _JobTimeout()


def _worker(idx):
    """One job.  An exception or a hang while building or driving the (possibly changed) implementation is not a
    crash of the check: it comes back as a disagreement of that instance."""
    import random
    import signal
    import traceback
    import explore
    from runner import Coverage
    from leanproc import LeanDriver
    prop, seed, tier = _CTXINFO
    job = _JOBS[idx]
    cov = Coverage()
    lean = None
    name = "job %d" % idx
    dis = []
    budget = int(job.kw.get("deadline_s", 40 if tier == "quick" else 400) * 2 + 30)
    # CPU-time budget (user + system time of this worker): a busy hang is caught, a loaded machine is not mistaken
    # for one
    old = signal.signal(signal.SIGPROF, _alarm)
    signal.setitimer(signal.ITIMER_PROF, budget)
    try:
        lean = LeanDriver(prop)
        inst = job.make()
        name = getattr(inst, "name", name) if not isinstance(inst, str) else name
        rng = random.Random(seed * 7919 + idx)
        kw = dict(job.kw)
        if "deadline_s" in kw:
            kw["deadline"] = time.time() + kw.pop("deadline_s")
        if isinstance(inst, str):
            cov.notes.append("not covered: " + inst)
        elif job.mode == "A":
            dis = coexplore(inst, lean, cov, **kw)
        elif job.mode == "B":
            dis = cosim(inst, lean, cov, rng, **kw)
        elif job.mode == "R":
            dis = route_pairs(inst, lean, cov, **kw)
        elif job.mode == "AP":
            dis = coexplore_ports(inst, lean, cov, **kw)
        elif job.mode == "BP":
            dis = cosim_ports(inst, lean, cov, rng, **kw)
        elif job.mode == "A0":
            dis = explore.coexplore(inst, lean, cov, **job.kw)
        else:
            dis = explore.cosim(inst, lean, cov, rng, **job.kw)
        res = [(d.trace, d.cycle, d.impl_outs, d.model_outs, d.kind, d.inst_name, d.lean_open) for d in dis]
    except _JobTimeout:
        res = [([], 0, None, None, "hang: instance did not finish within %d s of CPU time (build, settle or exploration loop)" % budget,
                name, None)]
    except Exception as e:      # noqa: BLE001 - anything the changed implementation throws at us
        res = [([], 0, None, None, "exception while building/driving the instance: %r | %s" % (
            e, traceback.format_exc().strip().splitlines()[-3:]), name, None)]
    finally:
        signal.setitimer(signal.ITIMER_PROF, 0)
        signal.signal(signal.SIGPROF, old)
        if lean is not None:
            try:
                lean.quit()
            except Exception:
                pass
    return idx, cov.__dict__, res


def run_jobs(ctx, jobs):
    global _JOBS, _CTXINFO
    import multiprocessing as mp
    _JOBS = jobs
    _CTXINFO = (ctx.prop, ctx.seed, ctx.tier)
    procs = min(len(jobs), int(os.environ.get("VERIF_PROCS", "0")) or min(os.cpu_count() or 4, 8))
    if procs <= 1 or len(jobs) <= 1:
        results = [_worker(i) for i in range(len(jobs))]
    else:
        with mp.get_context("fork").Pool(procs) as pool:
            results = pool.map(_worker, range(len(jobs)), chunksize=1)
    dis = []
    for idx, covd, ds in sorted(results):
        ctx.cov.instances += covd["instances"]
        for s in covd["samples"]:
            if len(ctx.cov.samples) < 8:
                ctx.cov.samples.append(s)
        ctx.cov.evaluations += covd["evaluations"]
        ctx.cov.nontrivial += covd["nontrivial"]
        ctx.cov.states += covd["states"]
        ctx.cov.transitions += covd["transitions"]
        for k, v in covd["hist"].items():
            ctx.cov.count(k, v)
        ctx.cov.notes += covd["notes"]
        for (trace, cycle, io, mo, kind, iname, lopen) in ds:
            d = Disagreement(None, trace, cycle, io, mo, kind)
            d.inst_name, d.lean_open, d.job = iname, lopen, idx
            dis.append(d)
    return dis


# ---------------------------------------------------------------------------------------------------------
# packet.Status

class StatusRef:
    """Reference for `packet.Status` computed from the history of the observed endpoint only:
       first   = no beat transferred yet, or the latest transferred beat carried `last`;
       last    = a last beat is transferred in this cycle;
       ongoing = (valid now, or valid seen since the most recent last-beat transfer) and not `last`."""

    def __init__(self):
        self.history = []

    def observe(self, letter, outs):
        v, l, r = letter[:3]
        beats = [c for c in self.history if c[0] and c[2]]
        first = 1 if (not beats or beats[-1][1]) else 0
        last = 1 if (v and l and r) else 0
        since = []
        for c in reversed(self.history):
            if c[0] and c[1] and c[2]:
                break
            since.append(c)
        ongoing = 1 if ((v or any(c[0] for c in since)) and not last) else 0
        self.history.append((v, l, r))
        if len(self.history) > 64:            # keep the reference cheap: cut before a packet boundary only
            for k in range(len(self.history) - 32, 0, -1):
                c = self.history[k - 1]
                if c[0] and c[1] and c[2]:
                    self.history = self.history[k - 1:]
                    break
        exp = [first, last, ongoing]
        if list(outs[:3]) != exp:
            return "Status (first, last, ongoing) = %r, expected %r from the endpoint history" % (list(outs[:3]), exp)
        return None


class StatusInst:
    """`packet.Status` observing a free endpoint.  inputs: valid, last, ready   outputs: first, last, ongoing."""

    def __init__(self, name="packet.Status"):
        from netlist import Netlist
        from migen import Module
        from litex.soc.interconnect import stream, packet
        m = Module()
        ep = stream.Endpoint([("data", 1)])
        st = packet.Status(ep)
        m.submodules += st
        self.name = name
        self.lean_open = "status"
        self.module = m
        self.netlist = Netlist(m)
        self.inputs = [ep.valid, ep.last, ep.ready]
        self.outputs = [st.first, st.last, st.ongoing]
        self.qual = [None, None, None]
        self.alphabet = [(v, l, r) for v in (0, 1) for l in (0, 1) for r in (0, 1)]

    def gen(self, rng, t):
        regime = (t // 64) % 4
        pv = (0.5, 0.9, 0.2, 1.0)[regime]
        pr = (0.5, 0.3, 0.9, 1.0)[regime]
        return (1 if rng.random() < pv else 0, 1 if rng.random() < 0.25 else 0, 1 if rng.random() < pr else 0)

    def nontrivial(self, letter, outs):
        return bool(letter[0] and letter[2])

    def monitor(self):
        return StatusRef()


# ---------------------------------------------------------------------------------------------------------
# Multiplexer / Demultiplexer (combinational routers; letters as in c03lib.MuxInst / DemuxInst)

class RouteView:
    """Uniform view of one cycle of a router: which tokens wait where, and what `held` inputs the environment
    must repeat in the next cycle (the selector while any token waits, and every refused sink token).
       mux   letter = (sel, source.ready, (valid, data, first, last) per sink)
             outs   = [source.valid, data, first, last, sink_k.ready ...]
       demux letter = (sel, sink.valid, data, first, last, source_k.ready ...)
             outs   = [sink.ready, (valid, data, first, last) per source]"""

    def __init__(self, kind, n):
        self.kind, self.n = kind, n

    def sinks(self, letter):
        if self.kind == "mux":
            return [tuple(letter[2 + 4 * k: 6 + 4 * k]) for k in range(self.n)]
        return [tuple(letter[1:5])]

    def sink_ready(self, outs):
        return list(outs[4:4 + self.n]) if self.kind == "mux" else [outs[0]]

    def sources(self, outs):
        if self.kind == "mux":
            return [tuple(outs[0:4])]
        return [tuple(outs[1 + 4 * k: 5 + 4 * k]) for k in range(self.n)]

    def source_ready(self, letter):
        return [letter[1]] if self.kind == "mux" else list(letter[5:5 + self.n])

    def pending(self, letter, outs):
        sp = {k: s for k, (s, r) in enumerate(zip(self.sinks(letter), self.sink_ready(outs))) if s[0] and not r}
        op = {k: s[1:] for k, (s, r) in enumerate(zip(self.sources(outs), self.source_ready(letter))) if s[0] and not r}
        return sp, op

    def obeys(self, prev_letter, sp, op, letter):
        if (sp or op) and letter[0] != prev_letter[0]:
            return False
        cur = self.sinks(letter)
        return all(cur[k] == s for k, s in sp.items())

    def check(self, op, outs):
        src = self.sources(outs)
        for k, tok in op.items():
            if not src[k][0]:
                return "source%s.valid retracted: token %r was offered, not taken, and is gone" % (
                    "" if self.kind == "mux" else k, tok)
            if src[k][1:] != tok:
                return "source%s token changed while valid and not ready: %r -> %r" % (
                    "" if self.kind == "mux" else k, tok, src[k][1:])
        return None

    def moves(self, letter, outs):
        """Progress: selector legal, selected sink offers, selected consumer ready -> the token moves now."""
        sel = letter[0]
        if sel >= self.n:
            return None
        if self.kind == "mux":
            s = self.sinks(letter)[sel]
            if s[0] and letter[1]:
                if not (outs[0] and outs[4 + sel]):
                    return "selected sink %d offers and the consumer is ready, but no handshake" % sel
        else:
            if letter[1] and letter[5 + sel]:
                src = self.sources(outs)[sel]
                if not (outs[0] and src[0]):
                    return "sink offers and source %d is ready, but no handshake" % sel
        return None


class RouteMonitor:
    """Trace monitor for a router.  The routers have no state, so the one-cycle form is exact: the boundary is
    checked whenever the environment kept its part across it."""

    def __init__(self, view):
        self.view = view
        self.prev = None
        self.checks = 0

    def observe(self, letter, outs):
        v = self.view
        msg = v.moves(letter, outs)
        if msg is None and self.prev is not None:
            pl, sp, op = self.prev
            if op and v.obeys(pl, sp, op, letter):
                self.checks += 1
                msg = v.check(op, outs)
        sp, op = v.pending(letter, outs)
        self.prev = (letter, sp, op)
        return msg


class RouteInst:
    """Wraps c03lib.MuxInst / DemuxInst with the C04 monitor and a generator that mostly keeps the contract."""

    def __init__(self, inner, kind):
        self.inner = inner
        self.kind = kind
        self.n = inner.n
        self.view = RouteView(kind, inner.n)
        self.name, self.lean_open, self.netlist, self.qual = inner.name, inner.lean_open, inner.netlist, inner.qual
        # selector values from the constructor argument n (every value of a ceil(log2 n)-bit selector, i.e. also
        # those that select nothing), not from the width of the implementation's `sel` signal
        self.nsel = 1 << max(1, (inner.n - 1).bit_length())
        alpha = list(inner.alphabet)
        have = set(l[0] for l in alpha)
        base = [l for l in alpha if l[0] == 0]
        for sv in range(self.nsel):
            if sv not in have:
                alpha += [(sv,) + tuple(l[1:]) for l in base]
        self.alphabet = alpha
        self._last = None

    def apply(self, letter):
        self._letter = letter
        self.inner.apply(letter)

    def sample(self):
        outs = self.inner.sample()
        self._last = (self._letter, outs)
        return outs

    def nontrivial(self, letter, outs):
        return self.inner.nontrivial(letter, outs)

    def gen(self, rng, t):
        l = list(self.inner.gen(rng, t))
        if rng.random() < 0.3:
            l[0] = rng.randrange(self.nsel)
        if self._last is not None and rng.random() < 0.8:
            pl, po = self._last
            sp, op = self.view.pending(pl, po)
            if sp or op:
                l[0] = pl[0]
            for k, s in sp.items():
                if self.kind == "mux":
                    l[2 + 4 * k: 6 + 4 * k] = s
                else:
                    l[1:5] = s
        return tuple(l)

    def monitor(self):
        return RouteMonitor(self.view)


def route_pairs(inst, lean, cov, deadline=None):
    """Exhaustive over the alphabet: port comparison with the model for every letter, the progress check for every
    letter, and the stability check for every ordered pair (l, l') in which the environment keeps its part."""
    n = inst.netlist
    t0 = time.time()
    root = n.snapshot()
    out = []
    lean.open(inst.lean_open)
    v = inst.view
    outs_of = {}
    stateless = len(n.regs) == 0
    reqs = []
    for l in inst.alphabet:
        n.restore(root)
        outs_of[l] = impl_step(inst, l)
        reqs.append((0, l))
    model = lean.step_batch(reqs)
    lean.close_session()
    nontriv = 0
    for l, (sid, mo) in zip(inst.alphabet, model):
        if inst.nontrivial(l, outs_of[l]):
            nontriv += 1
        if not masked_equal(inst, outs_of[l], mo):
            out.append(Disagreement(inst, [l], 0, outs_of[l], mo))
        m = v.moves(l, outs_of[l])
        if m:
            out.append(Disagreement(inst, [l], 0, outs_of[l], None, kind="monitor:" + m))
        if len(out) >= 3:
            break
    checks = pairs = 0
    exhaustive = True
    if not out:
        for l in inst.alphabet:
            if deadline is not None and time.time() > deadline:
                exhaustive = False
                break
            sp, op = v.pending(l, outs_of[l])
            if not op:
                continue
            for l2 in inst.alphabet:
                if not v.obeys(l, sp, op, l2):
                    continue
                pairs += 1
                if stateless:
                    o2 = outs_of[l2]
                else:
                    n.restore(root)
                    impl_step(inst, l)
                    o2 = impl_step(inst, l2)
                checks += 1
                m = v.check(op, o2)
                if m:
                    out.append(Disagreement(inst, [l, l2], 1, o2, None, kind="monitor:" + m))
                    break
            if len(out) >= 3:
                break
    n.restore(root)
    cov.add_instance(inst.name, states=1, transitions=len(inst.alphabet) + pairs, nontrivial=nontriv,
                     exhaustive=exhaustive and not out, mode="A")
    cov.instances[-1].update({"wall_s": round(time.time() - t0, 1), "stability_checks": checks,
                              "contract_obeying_letter_pairs": pairs, "registers": len(n.regs)})
    cov.hist["stability_checks"] = cov.hist.get("stability_checks", 0) + checks
    return out


# ---------------------------------------------------------------------------------------------------------
# packet.py elements (Arbiter, Dispatcher, PacketFIFO, Packetizer, Depacketizer): multi-port views.
# The instances are built by c16lib's constructors (letters/outputs in the port order of
# lean/LitexModel/Packet/Num.lean); the monitors below only look at those ports.

class PView:
    """One cycle of a multi-port packet element.
       sinks(letter)        -> [(valid, token...)]   what each producer drives
       sink_ready(outs)     -> [ready]
       sources(outs)        -> [(valid, token...)]   what the element drives on each source
       source_ready(letter) -> [ready]
       ctrl(letter)         -> control inputs that must be held while a token waits at a source (Dispatcher: sel)
       env / legal          -> the producer-side protocol state (packet length so far) and which letters a
                               well-formed producer may drive (PacketFIFO: packets <= payload_depth;
                               Depacketizer: a packet is at least header + one payload beat)
       coop_modes / coop_letters / bounds -> cooperative runs of the progress watchdog and the bounds promised."""
    kind = "?"

    def env0(self):
        return 0                  # None is reserved for "the producer left the well-formed region"

    def env_next(self, env, letter, outs):
        return env

    def legal(self, env, letter):
        return True

    strict = False                # True: outside the producer domain (`legal`) nothing is claimed at all

    def ctrl(self, letter):
        return ()

    def set_ctrl(self, l, c):
        pass

    def norm(self, tok):
        """Specified part of a source token (default: everything)."""
        return tuple(tok)

    def pending(self, letter, outs):
        sp = tuple((k, s) for k, (s, r) in enumerate(zip(self.sinks(letter), self.sink_ready(outs))) if s[0] and not r)
        op = tuple((k, self.norm(s[1:])) for k, (s, r) in enumerate(zip(self.sources(outs), self.source_ready(letter)))
                   if s[0] and not r)
        cp = self.ctrl(letter) if op else None
        return sp, op, (cp if cp else None)

    def obeys(self, sp, cp, letter):
        cur = self.sinks(letter)
        if any(cur[k] != s for k, s in sp):
            return False
        return cp is None or self.ctrl(letter) == cp

    def check(self, op, outs):
        src = self.sources(outs)
        for k, tok in op:
            if not src[k][0]:
                return "source %d: valid retracted, token %r was offered, not taken (ready=0), and is gone" % (k, tok)
            if self.norm(src[k][1:]) != tuple(tok):
                return "source %d: token changed while valid and not ready: %r -> %r" % (k, tok, self.norm(src[k][1:]))
        return None

    def events(self, letter, outs):
        acc = any(s[0] and r for s, r in zip(self.sinks(letter), self.sink_ready(outs)))
        dlv = any(s[0] and r for s, r in zip(self.sources(outs), self.source_ready(letter)))
        return {"handshake": bool(acc or dlv), "delivery": bool(dlv)}


class SSView(PView):
    """One sink, one source: letter = (valid, token..., source.ready); outs = [sink.ready, source.valid, token...]."""
    kind = "ss"

    def __init__(self, alphabet, k_hs, k_del, last_idx=None):
        self.k_hs, self.k_del = k_hs, k_del
        self.last_idx = last_idx                       # index of `last` in the letter
        coop = [l for l in alphabet if l[0] == 1 and l[-1] == 1]
        self.coop = []
        for want in (0, 1):                            # one letter with last = 0, one with last = 1
            for l in coop:
                if last_idx is None or l[last_idx] == want:
                    self.coop.append(l)
                    break
        self.coop = list(dict.fromkeys(self.coop)) or None

    def sinks(self, letter):
        return [tuple(letter[:-1])]

    def sink_ready(self, outs):
        return [outs[0]]

    def sources(self, outs):
        return [tuple(outs[1:])]

    def source_ready(self, letter):
        return [letter[-1]]

    def set_sink(self, l, k, s):
        l[:-1] = s

    def coop_modes(self):
        return [None]

    def coop_letters(self, mode, env):
        return [l for l in self.coop if self.legal(env, l)]

    def is_coop(self, letter, env):
        return letter[0] == 1 and letter[-1] == 1

    def bounds(self, mode):
        return {"handshake": self.k_hs, "delivery": self.k_del}


class PacketFifoView(SSView):
    """letter = (valid, data, param, last, ready).  Documented limit of the store-and-forward FIFO: a packet longer
    than payload_depth never completes, so the producer keeps packets <= payload_depth (env = beats accepted
    since the last accepted `last`)."""
    kind = "packetfifo"

    def __init__(self, alphabet, pd, k_hs, k_del):
        SSView.__init__(self, alphabet, k_hs, k_del, last_idx=3)
        self.pd = pd

    def env0(self):
        return 0

    def env_next(self, env, letter, outs):
        if env is None:
            return None
        if letter[0] and not letter[3] and env + 1 >= self.pd:
            return None                                 # over-long packet: outside the progress obligation
        if letter[0] and outs[0]:
            return 0 if letter[3] else env + 1
        return env

    def legal(self, env, letter):
        return env is not None and not (letter[0] and not letter[3] and env + 1 >= self.pd)


class DepackView(SSView):
    """letter = (valid, data, last, ready).  A framed packet carries the whole header and at least one payload beat:
    `last` is low during the first W = header_words beats (env = index of the next beat in its packet)."""
    kind = "depacketizer"

    def __init__(self, alphabet, W, k_hs, k_del):
        SSView.__init__(self, alphabet, k_hs, k_del, last_idx=2)
        self.W = W        # beats at the start of a packet that do not carry `last` (unaligned: header + residue beat)

    def env0(self):
        return 0

    def env_next(self, env, letter, outs):
        if env is None or (letter[0] and letter[2] and env < self.W):
            return None
        if letter[0] and outs[0]:
            return 0 if letter[2] else min(env + 1, self.W)
        return env

    def legal(self, env, letter):
        return env is not None and not (letter[0] and letter[2] and env < self.W)


class PacketizerUView(SSView):
    """Packetizer with a header that is not a multiple of the beat.  The property is claimed in the producer domain
    of C16's `UOk` hypothesis (outside it the open C16 findings live): (1) a refused beat is offered again
    unchanged, (2) a producer that pauses *inside* a packet keeps its data/last/header lines, (3) no single-beat
    packets.  env = (lines last driven, beat pending, inside a packet).  The whole source token is compared, also
    the padding bytes of the flush (`last`) beat: since the fix of C04-packetizer-flush-padding-unstable they are 0
    and no longer follow the idle sink lines (Lean: packetizer_stable_partial).
    letter = (valid, data, last, header fields..., ready); outs = [sink.ready, source.valid, data, last]."""
    kind = "packetizer-unaligned"
    strict = True

    def __init__(self, alphabet, B, H, k_hs, k_del):
        SSView.__init__(self, alphabet, k_hs, k_del, last_idx=2)

    def env0(self):
        return (None, False, False)

    def legal(self, env, letter):
        if env is None:
            return False
        lines, pend, inpkt = env
        v, f = letter[0], tuple(letter[1:-1])
        if pend and not (v and f == lines):
            return False
        if not v and inpkt and f != lines:
            return False
        if v and not pend and not inpkt and letter[2]:
            return False
        return True

    def env_next(self, env, letter, outs):
        if not self.legal(env, letter):
            return None
        lines, pend, inpkt = env
        v, acc = letter[0], bool(letter[0] and outs[0])
        return (tuple(letter[1:-1]), bool(v and not acc), (not letter[2]) if acc else inpkt)

    def coop_letters(self, mode, env):
        if env is None:
            return []
        lines, pend, inpkt = env
        if pend:
            return [(1,) + tuple(lines) + (1,)]
        return [l for l in self.coop if self.legal(env, l)]


class ArbiterView(PView):
    """letter = ((valid, data, last) per master, slave.ready); outs = [master_k.ready..., slave.valid, data, last,
    grant].  The arbiter is packet-atomic by design: a master that pauses in the middle of its packet keeps the
    grant.  Cooperative therefore means: the slave is ready, some master offers, and every master with an open
    packet (env = one flag per master: it has shown valid since its last transferred `last` beat) offers."""
    kind = "arbiter"

    def env0(self):
        return (0,) * self.n

    def env_next(self, env, letter, outs):
        sk, rd = self.sinks(letter), self.sink_ready(outs)
        return tuple(int((sk[k][0] or env[k]) and not (sk[k][0] and sk[k][2] and rd[k])) for k in range(self.n))

    def __init__(self, n, alphabet, k_hs, k_del):
        self.n, self.k_hs, self.k_del = n, k_hs, k_del
        self.dvals = sorted(set(l[1] for l in alphabet)) if alphabet else [0, 1]

    def sinks(self, letter):
        return [tuple(letter[3 * k:3 * k + 3]) for k in range(self.n)]

    def sink_ready(self, outs):
        return list(outs[:self.n])

    def sources(self, outs):
        return [tuple(outs[self.n:self.n + 3])]

    def source_ready(self, letter):
        return [letter[3 * self.n]]

    def set_sink(self, l, k, s):
        l[3 * k:3 * k + 3] = s

    def coop_modes(self):
        return [m for m in range(1, 1 << self.n)]

    def coop_letters(self, mode, env):
        if any(env[k] and not (mode >> k) & 1 for k in range(self.n)):
            return []
        out = []
        for last in (0, 1):
            l = []
            for k in range(self.n):
                l += [1, self.dvals[-1], last] if (mode >> k) & 1 else [0, 0, 0]
            out.append(tuple(l) + (1,))
        return out

    def is_coop(self, letter, env):
        val = [letter[3 * k] for k in range(self.n)]
        return letter[3 * self.n] == 1 and any(val) and all(val[k] for k in range(self.n) if env[k])

    def bounds(self, mode):
        return {"handshake": self.k_hs, "delivery": self.k_del}


def arbiter_fairness(inst, snap, slack=2):
    """Every port makes progress: all masters offer single-beat packets (last = 1), the slave is ready; each master
    must be served within n cycles (round robin).  Returns (worst wait, failing letters|None, msg|None)."""
    v = inst.view
    n = inst.netlist
    letter = tuple(x for _ in range(v.n) for x in (1, v.dvals[-1], 1)) + (1,)
    n.restore(snap)
    served = {}
    letters = []
    for t in range(v.n + slack):
        outs = impl_step(inst, letter)
        letters.append(letter)
        for k, r in enumerate(v.sink_ready(outs)):
            if r and k not in served:
                served[k] = t + 1
        if len(served) == v.n:
            return max(served.values()), None, None
    missing = [k for k in range(v.n) if k not in served]
    return v.n + slack, letters, ("masters %r not served in %d cycles although every master offers single-beat packets "
                                  "and the slave is ready (starvation)" % (missing, v.n + slack))


class DispatcherView(PView):
    """letter = (valid, data, last, sel, slave_k.ready...); outs = [master.ready, (valid, data, last) per slave].
    Cooperative: the master offers, every slave is ready, `sel` is anything (also a value that addresses no slave:
    the packet is then drained, master.ready = 1).  `sel` is held while a token waits at a slave."""
    kind = "dispatcher"

    def __init__(self, m, nsel, alphabet, k_hs):
        self.m, self.nsel, self.k_hs = m, nsel, k_hs
        self.dvals = sorted(set(l[1] for l in alphabet)) if alphabet else [0, 1]

    def sinks(self, letter):
        return [tuple(letter[0:3])]

    def sink_ready(self, outs):
        return [outs[0]]

    def sources(self, outs):
        return [tuple(outs[1 + 3 * k:4 + 3 * k]) for k in range(self.m)]

    def source_ready(self, letter):
        return list(letter[4:4 + self.m])

    def ctrl(self, letter):
        return (letter[3],)

    def set_ctrl(self, l, c):
        l[3] = c[0]

    def set_sink(self, l, k, s):
        l[0:3] = s

    def coop_modes(self):
        return list(range(self.nsel))

    def coop_letters(self, mode, env):
        return [(1, self.dvals[-1], last, mode) + (1,) * self.m for last in (0, 1)]

    def is_coop(self, letter, env):
        return letter[0] == 1 and all(letter[4:4 + self.m])

    def bounds(self, mode):
        return {"handshake": self.k_hs, "delivery": None}


class PortMonitor:
    """Trace monitor for a packet element: stability of every source (armed while every producer and the control
    inputs keep their part) and the progress watchdog (from any state, while the producers stay well-formed)."""

    def __init__(self, view, slack=2):
        self.v = view
        self.slack = slack
        self.armed = True
        self.prev = None
        self.env = view.env0()
        self.run = {"handshake": 0, "delivery": 0}
        self.checks = 0
        self.wait = None

    def _fair(self, letter, outs):
        """Arbiter: while every master offers a last beat and the slave is ready, nobody waits longer than n."""
        v = self.v
        sk = v.sinks(letter)
        if not (v.source_ready(letter)[0] and all(s[0] and s[2] for s in sk)):
            self.wait = None
            return None
        if self.wait is None:
            self.wait = [0] * v.n
        for k, r in enumerate(v.sink_ready(outs)):
            self.wait[k] = 0 if r else self.wait[k] + 1
            if self.wait[k] >= v.n + self.slack:
                return "master %d not served in %d cycles although every master offers single-beat packets" % (
                    k, self.wait[k])
        return None

    def observe(self, letter, outs):
        v = self.v
        msg = None
        if v.kind == "arbiter":
            msg = self._fair(letter, outs)
        if msg is None and self.prev is not None:
            sp, op, cp = self.prev
            if not v.obeys(sp, cp, letter) or (v.strict and not v.legal(self.env, letter)):
                self.armed = False
            elif self.armed and op:
                self.checks += 1
                msg = v.check(op, outs)
        legal = v.legal(self.env, letter)
        if v.strict and not legal:
            self.armed = False            # the producer left the domain in which the property is claimed
            msg = None
        if msg is None and legal and v.is_coop(letter, self.env):
            ev = v.events(letter, outs)
            b = v.bounds(None) if v.kind != "dispatcher" else v.bounds(letter[3])
            for k in self.run:
                self.run[k] = 0 if ev[k] else self.run[k] + 1
                if b.get(k) is not None and self.run[k] >= b[k] + self.slack:
                    msg = "no %s in %d consecutive cooperative cycles" % (k, self.run[k])
                    break
        else:
            self.run = {"handshake": 0, "delivery": 0}
        self.env = v.env_next(self.env, letter, outs)
        self.prev = v.pending(letter, outs)
        return msg


class PortC04Inst:
    """A c16lib.PortInst with the C04 view, monitor and a contract-keeping closed-loop generator."""

    def __init__(self, inner, view):
        self.inner, self.view = inner, view
        self.name, self.lean_open, self.netlist, self.qual = inner.name, inner.lean_open, inner.netlist, inner.qual
        self.alphabet = inner.alphabet
        self._pend = None

    def apply(self, letter):
        self.inner.apply(letter)

    def sample(self):
        outs = self.inner.sample()
        self._pend = self.view.pending(self.inner.last_letter, outs)
        return outs

    def nontrivial(self, letter, outs):
        return self.view.events(letter, outs)["handshake"]

    def gen(self, rng, t):
        if t == 0:
            self._pend = None
        l = list(self.inner.gen(rng, t))
        if self._pend is not None:
            sp, op, cp = self._pend
            for k, s in sp:
                self.view.set_sink(l, k, s)
            if cp is not None:
                self.view.set_ctrl(l, cp)
        return tuple(l)

    def monitor(self):
        return PortMonitor(self.view)


def port_gaps(inst, snap, env, budget=300, slack=2):
    """Cooperative watchdog from a register snapshot of a packet element (see `coop_gaps`)."""
    n = inst.netlist
    v = inst.view
    worst = {"handshake": 0, "delivery": 0}
    steps = 0
    for mode in v.coop_modes():
        want = v.bounds(mode)
        stack = [(snap, env, [], {k: None for k in want})]
        while stack:
            s, e, letters, first = stack.pop()
            depth = len(letters)
            cands = v.coop_letters(mode, e)
            for letter in (cands if steps < budget else cands[:1]):
                n.restore(s)
                outs = impl_step(inst, letter)
                steps += 1
                ls = letters + [letter]
                ev = v.events(letter, outs)
                f2 = dict(first)
                open_ = False
                for k, kk in want.items():
                    if kk is None:
                        continue
                    if f2[k] is None and ev[k]:
                        f2[k] = depth + 1
                        worst[k] = max(worst[k], depth + 1)
                    if f2[k] is None:
                        open_ = True
                        if depth + 1 >= kk + slack:
                            worst[k] = max(worst[k], depth + 1)
                            return worst, ls, "no %s in %d cooperative cycles" % (k, depth + 1), mode
                if open_:
                    stack.append((n.snapshot(), v.env_next(e, letter, outs), ls, f2))
    return worst, None, None, None


def port_over(inst, worst):
    b = {"handshake": 0, "delivery": 0}
    for mode in inst.view.coop_modes():
        for k, kk in inst.view.bounds(mode).items():
            if kk is not None:
                b[k] = max(b[k], kk)
    return [(k, worst[k], b[k]) for k in worst if b[k] and worst[k] > b[k]]


def coexplore_ports(inst, lean, cov, max_states=100000, deadline=None):
    """Mode A for packet elements: product of (implementation registers, model state, pending obligations,
    producer protocol state, armed) over every *well-formed* letter; port comparison with the model, stability
    check on every boundary the environment keeps, watchdog from every distinct (registers, protocol state)."""
    n = inst.netlist
    v = inst.view
    t0 = time.time()
    lean.open(inst.lean_open)
    root_snap = n.snapshot()
    root = (n.state_key(), 0, (), (), None, v.env0(), True)
    seen = {root: (None, None)}
    frontier = deque([(root_snap, root)])
    transitions = nontriv = checks = 0
    watched = set()
    maxgap = {"handshake": 0, "delivery": 0}
    maxfair = 0
    out = []
    exhaustive = True
    while frontier and len(out) < 6:
        if (deadline is not None and time.time() > deadline) or len(seen) > max_states:
            exhaustive = False
            break
        batch = [frontier.popleft() for _ in range(min(len(frontier), 128))]
        reqs, impl_res = [], []
        for snap, st in batch:
            key, sid, sp, op, cp, env, armed = st
            if env is not None and (key, env) not in watched:
                watched.add((key, env))
                worst, wl, wmsg, mode = port_gaps(inst, snap, env)
                for k in maxgap:
                    maxgap[k] = max(maxgap[k], worst[k])
                if not wmsg and v.kind == "arbiter":
                    fw, wl, wmsg = arbiter_fairness(inst, snap)
                    maxfair = max(maxfair, fw)
                    if not wmsg and fw > v.n:
                        wmsg, wl = "a master waited %d cycles, round-robin bound is %d" % (fw, v.n), []
                if wmsg:
                    tr = path_to(seen, st) + wl
                    out.append(Disagreement(inst, tr, len(tr) - 1, None, None, kind="monitor:" + wmsg))
                elif port_over(inst, worst):
                    tr = path_to(seen, st)
                    out.append(Disagreement(inst, tr, len(tr) - 1, None, None,
                                            kind="progress-bound: observed cooperative gaps exceed the declared bounds "
                                                 "(what, observed, bound): %r" % (port_over(inst, worst),)))
            for letter in inst.alphabet:
                if not v.legal(env, letter):
                    continue
                n.restore(snap)
                outs = impl_step(inst, letter)
                impl_res.append((st, letter, outs, n.state_key(), n.snapshot()))
                reqs.append((sid, letter))
        model_res = lean.step_batch(reqs)
        for (st, letter, outs, key2, snap2), (sid2, mouts) in zip(impl_res, model_res):
            key, sid, sp, op, cp, env, armed = st
            transitions += 1
            if v.events(letter, outs)["handshake"]:
                nontriv += 1
            obey = v.obeys(sp, cp, letter)
            mismatch = not masked_equal(inst, outs, mouts)
            if mismatch:
                tr = path_to(seen, st) + [letter]
                out.append(Disagreement(inst, tr, len(tr) - 1, outs, mouts))
            if obey and op and armed:
                checks += 1
                msg = v.check(op, outs)
                if msg:
                    tr = path_to(seen, st) + [letter]
                    out.append(Disagreement(inst, tr, len(tr) - 1, outs, None, kind="monitor:" + msg))
                    continue
            if mismatch:
                continue
            sp2, op2, cp2 = v.pending(letter, outs)
            st2 = (key2, sid2, sp2, op2, cp2, v.env_next(env, letter, outs), armed and obey)
            if st2 not in seen:
                seen[st2] = (st, letter)
                frontier.append((snap2, st2))
    if out:
        exhaustive = False
    lean.close_session()
    n.restore(root_snap)
    cov.add_instance(inst.name, states=len(seen), transitions=transitions, nontrivial=nontriv,
                     exhaustive=exhaustive, mode="A")
    b = {"handshake": 0, "delivery": 0}
    for mode in v.coop_modes():
        for k, kk in v.bounds(mode).items():
            b[k] = max(b[k], kk or 0)
    cov.instances[-1].update({"wall_s": round(time.time() - t0, 1), "impl_states_watched": len(watched),
                              "stability_checks": checks,
                              "max_coop_cycles_to_handshake": maxgap["handshake"], "K_declared": b["handshake"],
                              "max_coop_cycles_to_delivery": maxgap["delivery"], "K_delivery_declared": b["delivery"]})
    if v.kind == "arbiter":
        cov.instances[-1].update({"max_wait_of_a_master_all_offering": maxfair, "round_robin_bound": v.n})
    cov.hist["stability_checks"] = cov.hist.get("stability_checks", 0) + checks
    cov.hist["watchdog_states"] = cov.hist.get("watchdog_states", 0) + len(watched)
    return out


def cosim_ports(inst, lean, cov, rng, cycles, runs=1, watch_every=8):
    """Mode B for packet elements: closed-loop contract-keeping generator, monitors armed, periodic watchdog."""
    n = inst.netlist
    v = inst.view
    root = n.snapshot()
    out = []
    for run in range(runs):
        t_run = time.time()
        n.restore(root)
        lean.open(inst.lean_open)
        mon = PortMonitor(v)
        letters, impl_outs = [], []
        distinct = set()
        maxgap = {"handshake": 0, "delivery": 0}
        watched = 0
        stop = False
        for t in range(cycles):
            if t % watch_every == 0 and not stop and mon.env is not None:
                here = n.snapshot()
                saved = (inst.inner.last_letter, inst.inner.last_outs, inst._pend)
                worst, wl, wmsg, mode = port_gaps(inst, here, mon.env, budget=60)
                if not wmsg and v.kind == "arbiter":
                    fw, wl, wmsg = arbiter_fairness(inst, here)
                    if not wmsg and fw > v.n:
                        wmsg, wl = "a master waited %d cycles, round-robin bound is %d" % (fw, v.n), []
                n.restore(here)
                inst.inner.last_letter, inst.inner.last_outs, inst._pend = saved
                watched += 1
                for k in maxgap:
                    maxgap[k] = max(maxgap[k], worst[k])
                if wmsg:
                    tr = list(letters) + wl
                    out.append(Disagreement(inst, tr, len(tr) - 1, None, None, kind="monitor:" + wmsg))
                    stop = True
                elif port_over(inst, worst):
                    out.append(Disagreement(inst, list(letters), len(letters) - 1, None, None,
                                            kind="progress-bound: observed cooperative gaps exceed the declared bounds "
                                                 "(what, observed, bound): %r" % (port_over(inst, worst),)))
                    stop = True
            letter = inst.gen(rng, t)
            outs = impl_step(inst, letter)
            letters.append(letter)
            impl_outs.append(outs)
            if inst.nontrivial(letter, outs):
                distinct.add((n.state_key(), tuple(letter)))
            if not stop:
                m = mon.observe(letter, outs)
                if m:
                    out.append(Disagreement(inst, letters[:t + 1], t, outs, None, kind="monitor:" + m))
                    stop = True
        model_outs = lean.run(letters)
        lean.close_session()
        for t in range(cycles):
            if not masked_equal(inst, impl_outs[t], model_outs[t]):
                out.append(Disagreement(inst, letters[:t + 1], t, impl_outs[t], model_outs[t]))
                break
        cov.add_instance(inst.name, states=0, transitions=cycles, nontrivial=len(distinct), exhaustive=False, mode="B")
        cov.instances[-1].update({"wall_s": round(time.time() - t_run, 1), "stability_checks": mon.checks,
                                  "snapshots_watched": watched,
                                  "max_coop_cycles_to_handshake": maxgap["handshake"],
                                  "max_coop_cycles_to_delivery": maxgap["delivery"]})
        cov.hist["stability_checks"] = cov.hist.get("stability_checks", 0) + mon.checks
        cov.hist["watchdog_states"] = cov.hist.get("watchdog_states", 0) + watched
        if out:
            break
    n.restore(root)
    return out


# ---------------------------------------------------------------------------------------------------------
# Self-contained constructors for the packet.py instances (port orders of lean/LitexModel/Packet/Num.lean).
# Every value range below comes from the constructor arguments, never from the width of an implementation signal.

def pk_regime(rng, t, period=64):
    k = (t // period) % 6
    return (0.5, 0.9, 0.15, 1.0, 0.5, 1.0)[k], (0.5, 0.15, 0.9, 1.0, 0.2, 0.5)[k]


class BeatSource:
    """One packet producer keeping the stream contract: the offered beat is held until accepted; it may pause
    between beats; packets have min_len..max_len beats; `extra(rng)` draws per-packet values (params/header)."""

    def __init__(self, dwid, min_len, max_len, extra=None, data_values=None, hold_mid=False):
        self.dwid, self.min_len, self.max_len, self.extra, self.data_values = dwid, min_len, max_len, extra, data_values
        self.hold_mid = hold_mid          # keep the lines during a pause inside a packet (C16 `UOk`, clause 2)
        self.reset()

    def reset(self):
        self.queue, self.cur, self.lines = [], None, None

    def next(self, rng, pv, accepted_prev):
        """-> (valid, data, last, extra tuple)"""
        if self.cur is not None and accepted_prev:
            self.cur = None
        if self.cur is None and rng.random() < pv:
            if not self.queue:
                n = rng.randint(self.min_len, self.max_len)
                ex = tuple(self.extra(rng)) if self.extra else ()
                for k in range(n):
                    d = rng.choice(self.data_values) if self.data_values else rng.randint(0, (1 << self.dwid) - 1)
                    self.queue.append((d, int(k == n - 1), ex))
            self.cur = self.queue.pop(0)
        if self.cur is not None:
            self.lines = self.cur
            return (1,) + self.cur
        if self.hold_mid and self.queue and self.lines is not None:
            return (0,) + self.lines
        ex = tuple(self.extra(rng)) if self.extra else ()
        return (0, rng.randint(0, (1 << self.dwid) - 1), rng.randint(0, 1), ex)      # garbage while idle


class PkInst:
    def __init__(self, name, module, lean_open, ins, outs, qual, alphabet, stim):
        from netlist import Netlist
        self.name, self.module, self.lean_open = name, module, lean_open
        self.netlist = Netlist(module)
        self.in_sigs, self.out_sigs, self.qual = list(ins), list(outs), list(qual)
        self.alphabet = alphabet or []
        self.stim = stim                  # stim(rng, t, prev) -> letter; prev = (letter, outs) of the last cycle
        self.last_letter = self.last_outs = None

    def apply(self, letter):
        n = self.netlist
        for s, v in zip(self.in_sigs, letter):
            n.set(s, v)
        n.settle()
        self.last_letter = letter

    def sample(self):
        self.last_outs = [self.netlist.getu(s) for s in self.out_sigs]
        return self.last_outs

    def gen(self, rng, t):
        prev = None if t == 0 else (self.last_letter, self.last_outs)
        return self.stim(rng, t, prev)


def pk_arbiter(name, n, dwid=1, data_values=(0, 1), alphabet=True, max_len=4):
    import itertools
    from migen import Module
    from litex.soc.interconnect import stream, packet
    desc = stream.EndpointDescription([("data", dwid)])
    masters = [stream.Endpoint(desc) for _ in range(n)]
    slave = stream.Endpoint(desc)

    class DUT(Module):
        def __init__(self):
            self.submodules.arb = packet.Arbiter(list(masters), slave)
    m = DUT()
    ins = [x for ep in masters for x in (ep.valid, ep.data, ep.last)] + [slave.ready]
    outs = [ep.ready for ep in masters] + [slave.valid, slave.data, slave.last, m.arb.grant]
    letters = []
    if alphabet:
        per = [(v, d, l) for v in (0, 1) for d in data_values for l in (0, 1)]
        for combo in itertools.product(per, repeat=n):
            for r in (0, 1):
                letters.append(tuple(x for c in combo for x in c) + (r,))
    srcs = [BeatSource(dwid, 1, max_len) for _ in range(n)]

    def stim(rng, t, prev):
        if t == 0:
            for s in srcs:
                s.reset()
        pv, pr = pk_regime(rng, t)
        l = []
        for k, s in enumerate(srcs):
            acc = bool(prev and prev[0][3 * k] and prev[1][k])
            l += list(s.next(rng, pv * (0.4 + 0.6 * ((t // 200 + k) % 2)), acc)[:3])
        return tuple(l) + (int(rng.random() < pr),)
    return PkInst(name, m, "arbiter %d" % n, ins, outs, [None] * n + [None, n, n, None], letters, stim)


def pk_dispatcher(name, m_slaves, one_hot=False, dwid=1, data_values=(0, 1), alphabet=True, max_len=4):
    import itertools
    from migen import Module
    from litex.soc.interconnect import stream, packet
    desc = stream.EndpointDescription([("data", dwid)])
    master = stream.Endpoint(desc)
    slaves = [stream.Endpoint(desc) for _ in range(m_slaves)]

    class DUT(Module):
        def __init__(self):
            self.submodules.disp = packet.Dispatcher(master, list(slaves), one_hot=one_hot)
    m = DUT()
    # binary: every value of a ceil(log2 m)-bit selector (also those addressing no slave); one-hot: every m-bit
    # pattern (none or several bits set address no slave) -- from the constructor arguments
    nsel = (1 << m_slaves) if one_hot else (1 << max(1, (m_slaves - 1).bit_length()))
    ins = [master.valid, master.data, master.last, m.disp.sel] + [ep.ready for ep in slaves]
    outs, qual = [master.ready], [None]
    for k, ep in enumerate(slaves):
        outs += [ep.valid, ep.data, ep.last]
        qual += [None, 1 + 3 * k, 1 + 3 * k]
    letters = []
    if alphabet:
        for v in (0, 1):
            for d in data_values:
                for l in (0, 1):
                    for sv in range(nsel):
                        for rs in itertools.product((0, 1), repeat=m_slaves):
                            letters.append((v, d, l, sv) + rs)
    src = BeatSource(dwid, 1, max_len)
    state = {"sel": 0}

    def stim(rng, t, prev):
        if t == 0:
            src.reset()
            state["sel"] = 0
        pv, pr = pk_regime(rng, t)
        acc = bool(prev and prev[0][0] and prev[1][0])
        v, d, l, _ = src.next(rng, pv, acc)
        if rng.random() < 0.3:               # the selector moves at any time (held by the wrapper while a token waits)
            state["sel"] = (1 << rng.randrange(m_slaves)) if (one_hot and rng.random() < 0.7) else rng.randrange(nsel)
        return (v, d, l, state["sel"]) + tuple(int(rng.random() < pr) for _ in range(m_slaves))
    inst = PkInst(name, m, "dispatcher %d %d" % (m_slaves, int(one_hot)), ins, outs, qual, letters, stim)
    inst.nsel = nsel
    return inst


def pk_packetfifo(name, pd, qd=None, buffered=False, dwid=1, pwid=1, alphabet=True, tokens=None):
    from litex.soc.interconnect import stream, packet
    layout = stream.EndpointDescription([("data", dwid)], [("p", pwid)])
    m = packet.PacketFIFO(layout, payload_depth=pd, param_depth=qd, buffered=buffered)
    ins = [m.sink.valid, m.sink.data, m.sink.p, m.sink.last, m.source.ready]
    outs = [m.sink.ready, m.source.valid, m.source.data, m.source.p, m.source.first, m.source.last]
    letters = []
    if alphabet:
        toks = tokens or [(d, p, l) for d in (0, 1) for p in (0, 1) for l in (0, 1)]
        for r in (0, 1):
            letters.append((0, 0, 0, 0, r))
            for (d, p, l) in toks:
                letters.append((1, d, p, l, r))
    src = BeatSource(dwid, 1, pd, extra=lambda rng: (rng.randint(0, (1 << pwid) - 1),))     # packets <= payload_depth

    def stim(rng, t, prev):
        if t == 0:
            src.reset()
        pv, pr = pk_regime(rng, t)
        acc = bool(prev and prev[0][0] and prev[1][0])
        v, d, l, ex = src.next(rng, pv, acc)
        return (v, d, ex[0], l, int(rng.random() < pr))
    qdepth = (qd if qd is not None else pd) + 1
    return PkInst(name, m, "packetfifo%s %d %d" % ("_buffered" if buffered else "", pd, qdepth), ins, outs,
                  [None, None, 1, 1, 1, 1], letters, stim)


def _pk_header(fields, H, swap):
    from litex.soc.interconnect import packet
    names = sorted(fields)
    table = [tuple(fields[k]) for k in names]
    hdr = packet.Header({k: packet.HeaderField(*fields[k]) for k in names}, H, swap_field_bytes=bool(swap))
    args = "%d %d %s" % (int(bool(swap)), len(table), " ".join("%d %d %d" % f for f in table))
    return names, table, hdr, args


def pk_packetizer(name, B, H, fields, swap, data_values=None, hdr_values=None, alphabet=True, max_len=8):
    from litex.soc.interconnect import stream, packet
    assert H >= B, "at least one whole header word (H < B: open finding C16-header-shorter-than-beat)"
    unaligned = H % B != 0
    names, table, hdr, args = _pk_header(fields, H, swap)
    dw = 8 * B
    m = packet.Packetizer(stream.EndpointDescription([("data", dw)], hdr.get_layout()),
                          stream.EndpointDescription([("data", dw)]), hdr)
    ins = [m.sink.valid, m.sink.data, m.sink.last] + [getattr(m.sink, k) for k in names] + [m.source.ready]
    outs = [m.sink.ready, m.source.valid, m.source.data, m.source.last]
    hmax = [(1 << w) - 1 for (_, _, w) in table]
    letters = []
    if alphabet:
        for v in (0, 1):
            for r in (0, 1):
                for d in data_values:
                    for l in (0, 1):
                        for hv in hdr_values:
                            letters.append((v, d, l) + tuple(hv) + (r,))
    else:
        letters_coop = [(1, (1 << dw) - 1, l) + tuple(hmax) + (1,) for l in (0, 1)]
    src = BeatSource(dw, 2 if unaligned else 1, max_len,
                     extra=lambda rng: tuple(rng.choice((0, x, rng.randint(0, x))) for x in hmax), hold_mid=unaligned)

    def stim(rng, t, prev):
        if t == 0:
            src.reset()
        pv, pr = pk_regime(rng, t)
        acc = bool(prev and prev[0][0] and prev[1][0])
        v, d, l, ex = src.next(rng, pv, acc)
        if not v and unaligned and not src.queue:
            l = rng.randint(0, 1)
        # back-pressure on every beat position: in every 4th regime the consumer stalls most cycles
        return (v, d, l) + tuple(ex) + (int(rng.random() < pr),)
    inst = PkInst(name, m, "packetizer %d %d %s" % (B, H, args), ins, outs, [None, None, 1, 1], letters, stim)
    inst.B, inst.H = B, H
    inst.coop_alpha = letters or letters_coop
    return inst


def pk_depacketizer(name, B, H, fields, swap, data_values=None, alphabet=True, max_len=None):
    from litex.soc.interconnect import stream, packet
    assert H >= B, "at least one whole header word (H < B: open finding C16-header-shorter-than-beat)"
    names, table, hdr, args = _pk_header(fields, H, swap)
    dw = 8 * B
    # beats at the start of a packet that must not carry `last`: the header words and, for an unaligned header, the
    # residue beat (a packet ending there: open finding C16-depacketizer-residue-end)
    W = H // B + (1 if H % B else 0)
    m = packet.Depacketizer(stream.EndpointDescription([("data", dw)]),
                            stream.EndpointDescription([("data", dw)], hdr.get_layout()), hdr)
    ins = [m.sink.valid, m.sink.data, m.sink.last, m.source.ready]
    outs = [m.sink.ready, m.source.valid, m.source.data, m.source.last] + [getattr(m.source, k) for k in names]
    letters = []
    if alphabet:
        letters = [(v, d, l, r) for v in (0, 1) for r in (0, 1) for d in data_values for l in (0, 1)]
    src = BeatSource(dw, W + 1, max_len or W + 7, data_values=data_values if alphabet else None)

    def stim(rng, t, prev):
        if t == 0:
            src.reset()
        pv, pr = pk_regime(rng, t)
        acc = bool(prev and prev[0][0] and prev[1][0])
        v, d, l, _ = src.next(rng, pv, acc)
        return (v, d, l, int(rng.random() < pr))
    inst = PkInst(name, m, "depacketizer %d %d %s" % (B, H, args), ins, outs, [None, None, 1, 1] + [1] * len(names),
                  letters, stim)
    inst.coop_alpha = letters or [(1, (1 << dw) - 1, l, 1) for l in (0, 1)]
    inst.W = W
    return inst
