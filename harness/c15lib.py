"""C15 — instances and the lost-event monitor for `csr_eventmanager.py` and its clients.

Every instance drives the REAL EventManager through a REAL `csr_bus.CSRBank` (bus widths 1/2/8/32, both CSR
orderings).  Model letters (see lean/LitexModel/Event/Num.lean): [trig, bank-local CSR index, we, dat_w];
compared outputs: [irq, dat_r, clear vector, pending vector, status vector].

  EvInst      bare EventManager with sources of any kind mix (modes A and B)
  SharedInst  several EventManagers + SharedIRQ, one bank each
  ClientInst  Timer / UART with their real trigger logic (mode B; the triggers fed to the model are sampled
              from the real `source.trigger` signals, everything else — pending, clear, irq, read values — is the
              model's own prediction)
  GpioInst    GPIOIn / GPIOTristate with_irq against the Lean `gpioIrq` model, which computes the triggers itself from
              the synchronised pads and the mode/edge registers (the real trigger vector is a compared output)
  LostEventMonitor   property oracle on the real signals and the bus letters (independent of the Lean model)
"""
import itertools
from netlist import Netlist
from migen import Module, Signal
from migen.util.misc import xdir
from litex.soc.interconnect import csr_bus
from litex.soc.interconnect import csr_eventmanager as evm
from litex.soc.interconnect.csr import AutoCSR

KIND_NAMES = {"p": "pulse", "r": "rising", "f": "falling", "l": "level"}
PAGE_BITS = 9          # CSRBank: paging 0x800 bytes -> 0x200 words


def make_source(kind, name, defaults=False):
    """`defaults`: use the constructors' default-argument paths (EventSourceProcess() is a falling-edge source)."""
    if defaults and kind == "f":
        return evm.EventSourceProcess(name=name)
    if kind == "p":
        return evm.EventSourcePulse(name=name)
    if kind == "r":
        return evm.EventSourceProcess(name=name, edge="rising")
    if kind == "f":
        return evm.EventSourceProcess(name=name, edge="falling")
    if kind == "l":
        return evm.EventSourceLevel(name=name)
    raise ValueError(kind)


def kinds_text(kinds):
    if len(kinds) <= 4:
        return ",".join(KIND_NAMES[k] for k in kinds)
    return "%d sources %s" % (len(kinds), "".join(kinds))


def vec(bits):
    v = 0
    for k, b in enumerate(bits):
        v |= (1 if b else 0) << k
    return v


class EvTop(Module):
    """EventManager with the given sources + its CSRs in a real CSRBank."""
    def __init__(self, kinds, dw, ordering="big", page=0, variant=False):
        """`variant`: attribute names whose alphabetical order is the reverse of the creation order (the bit order
        must follow creation order = duid, not `xdir` order), sources attached in reverse order, default-argument
        constructors."""
        self.ev = ev = evm.EventManager()
        nk = len(kinds)
        names = [("z%03d" % (nk - k)) if variant else ("e%d" % k) for k in range(nk)]
        made = [make_source(kind, names[k], defaults=variant) for k, kind in enumerate(kinds)]
        self.made_sources = made                         # creation order = bit order (constructor arguments)
        for k in (reversed(range(nk)) if variant else range(nk)):
            setattr(ev, names[k], made[k])
        self.submodules += ev
        ev.finalize()
        self.bus = csr_bus.Interface(data_width=dw, address_width=14)
        self.bank = csr_bus.CSRBank(ev.get_csrs(), address=page, bus=self.bus, ordering=ordering)
        self.submodules += self.bank


class StructureMismatch(Exception):
    pass


class EvView:
    """Ports of one real EventManager behind a real CSRBank (found by object identity, never by name)."""
    def __init__(self, ev, bank, bus, kinds, page=0, ordering="big", dw=None, srcs=None):
        """Sizes come from the arguments the instance was built with (`kinds`, `dw`), never from signal widths; the
        real CSRs are then checked against them (a mismatch is raised and ends as a reported violation)."""
        self.ev, self.bank, self.bus, self.kinds, self.page, self.ordering = ev, bank, bus, list(kinds), page, ordering
        found = sorted([v for _, v in xdir(ev, True) if isinstance(v, evm._EventSource)], key=lambda s: s.duid)
        self.srcs = list(srcs) if srcs is not None else found
        self.n = len(self.kinds)
        if dw is None:
            raise ValueError("EvView needs the CSR bus width the instance was built with")
        self.bw = dw
        self.nw = (self.n + self.bw - 1) // self.bw
        if len(found) != self.n or len(self.srcs) != self.n:
            raise StructureMismatch("%d event sources found in the EventManager, %d were attached" % (len(found), self.n))
        for reg in (ev.status, ev.pending, ev.enable):
            sizes = sorted(c.size for c in reg.simple_csrs)
            want = sorted(self.word_bits(w) for w in range(self.nw))
            if reg.size != self.n or sizes != want:
                raise StructureMismatch("CSR %s: size %d, words %s; expected size %d, words %s (n=%d, bus %d bits)"
                                        % (reg.name, reg.size, sizes, self.n, want, self.n, self.bw))
        local = list(ev.status.simple_csrs) + list(ev.pending.simple_csrs) + list(ev.enable.simple_csrs)
        ids = [id(c) for c in bank.simple_csrs]
        self.index_of_local = [ids.index(id(c)) for c in local]          # local index -> index in the bank
        self.local_of = {b: l for l, b in enumerate(self.index_of_local)}
        self.unmapped = 3 * self.nw
        self.nbank = len(bank.simple_csrs)

    def model_adr(self, adr):
        if (adr >> PAGE_BITS) != self.page:
            return self.unmapped
        return self.local_of.get(adr & ((1 << PAGE_BITS) - 1), self.unmapped)

    def bus_adr(self, local):
        return (self.page << PAGE_BITS) | self.index_of_local[local]

    def idle_adr(self):
        """An address of this page that selects no CSR (dat_r becomes 0)."""
        return (self.page << PAGE_BITS) | self.nbank

    # documented layout (independent of the Lean model): status, pending, enable; `nw` words each; "big" puts the
    # most significant word at the lowest address.  -> (reg, word) with reg in 0..2, or None
    def doc_decode(self, local):
        if local >= 3 * self.nw:
            return None
        reg, pos = divmod(local, self.nw)
        return reg, (pos if self.ordering == "little" else self.nw - 1 - pos)

    def local_index(self, reg, word):
        pos = word if self.ordering == "little" else self.nw - 1 - word
        return reg * self.nw + pos

    def word_bits(self, word):
        return min(self.n - word * self.bw, self.bw)

    def drive(self, n, trig, adr, we, dat, re=0):
        if trig is not None:
            for k, s in enumerate(self.srcs):
                n.set(s.trigger, (trig >> k) & 1)
        n.set(self.bus.adr, adr)
        n.set(self.bus.we, we)
        n.set(self.bus.dat_w, dat)
        n.set(self.bus.re, re)

    def observe(self, n):
        """Everything the monitor looks at, read from the real signals."""
        return {
            "trig": [n.getu(s.trigger) for s in self.srcs],
            "pend": [n.getu(s.pending) for s in self.srcs],
            "stat": [n.getu(s.status) for s in self.srcs],
            "clear": [n.getu(s.clear) for s in self.srcs],
            "irq": n.getu(self.ev.irq),
            "pstat": n.getu(self.ev.pending.status),
            "en": n.getu(self.ev.enable.storage),
            "dat_r": n.getu(self.bus.dat_r),
        }

    def outs(self, o):
        return [o["irq"], o["dat_r"], vec(o["clear"]), vec(o["pend"]), vec(o["stat"])]


# ---------------------------------------------------------------------------------------------------------
# property oracle

class LostEventMonitor:
    """Checks C15 on the real signals, cycle by cycle, from the bus letters and the sampled triggers:
       - irq == OR(pending & enable) read from the real registers, and == OR(pending & what software last wrote
         to `enable`);
       - an event (pulse: trigger high; process: edge of the declared polarity, first sample compared with 0) makes
         the source pending in the next cycle, whatever else happens in that cycle (also a clear);
       - pending never drops without an addressed clear: a write to the committing word of `pending` two cycles
         earlier whose value has a one in that bit position.  `strict`: the ones must have been written since the
         previous commit (accessor discipline); otherwise the last value ever written to the bit's word counts,
         which is what `pending.r` (a register per word) keeps;
       - pending never rises without an event; an addressed clear without a coinciding event clears;
       - level sources: pending == trigger; status == trigger (0 for pulse sources)."""

    def __init__(self, view, get_obs, get_bus, strict=True, foreign_reads=False):
        self.v = view
        self.foreign_reads = foreign_reads      # the bank holds other registers too: unmapped reads are not checked
        self.get_obs = get_obs          # () -> dict of the current cycle (sampled before the edge)
        self.get_bus = get_bus          # letter -> (local index, we, dat)
        self.strict = strict
        n = view.n
        self.prev_trig = [0] * n
        self.prev = None                # (pend, event, acting) of the previous cycle
        self.shadow_en = [0] * n
        self.last_word = {}             # pending word -> (value, fresh)
        self.ack_next = set()           # acked bits of the write of the previous cycle (clear acts in this cycle)
        self.prev_read = None           # value the bus must return in this cycle (addressed in the previous one)

    def observe(self, letter, outs):
        v = self.v
        o = self.get_obs()
        local, we, dat = self.get_bus(letter)
        n = v.n
        msg = None
        pend, trig = o["pend"], o["trig"]
        # --- combinational claims of the current cycle
        exp_irq = 1 if any(((o["pstat"] >> k) & 1) and ((o["en"] >> k) & 1) for k in range(n)) else 0
        if o["irq"] != exp_irq:
            msg = "irq=%d but OR(pending & enable) of the real registers is %d" % (o["irq"], exp_irq)
        exp_irq2 = 1 if any(pend[k] and self.shadow_en[k] for k in range(n)) else 0
        if msg is None and o["irq"] != exp_irq2:
            msg = "irq=%d but pending=%s and software enabled %s" % (o["irq"], pend, self.shadow_en)
        for k in range(n):
            if msg:
                break
            kind = v.kinds[k]
            if ((o["pstat"] >> k) & 1) != pend[k]:
                msg = "pending register bit %d differs from source.pending" % k
            elif kind == "l" and pend[k] != trig[k]:
                msg = "level source %d: pending=%d trigger=%d" % (k, pend[k], trig[k])
            elif o["stat"][k] != (0 if kind == "p" else trig[k]):
                msg = "status bit %d = %d, trigger = %d (kind %s)" % (k, o["stat"][k], trig[k], KIND_NAMES[kind])
        # --- what software reads: the word addressed in the previous cycle, as the register was then
        if msg is None and self.prev_read is not None and o["dat_r"] != self.prev_read[1]:
            msg = "bus read of %s returned %#x, the register held %#x" % (self.prev_read[0], o["dat_r"], self.prev_read[1])
        self.prev_read = None
        d = v.doc_decode(local)
        if d is not None:
            reg, word = d
            bits = (o["stat"], pend, self.shadow_en)[reg]
            lo = word * v.bw
            self.prev_read = ("status pending enable".split()[reg] + "[word %d]" % word,
                              vec(bits[lo:lo + v.word_bits(word)]))
        elif not self.foreign_reads:
            self.prev_read = ("an unmapped index", 0)
        # --- claims about the step from the previous cycle to this one
        acting = self.ack_next
        self.acting_now = acting
        if self.prev is not None and msg is None:
            ppend, pevent, pacting = self.prev
            for k in range(n):
                if v.kinds[k] == "l":
                    continue
                if pevent[k] and not pend[k]:
                    msg = "LOST EVENT: source %d had an event in the previous cycle and is not pending%s" % (
                        k, " (clear coincided)" if k in pacting else "")
                elif ppend[k] and not pend[k] and k not in pacting:
                    msg = "pending of source %d dropped without a clear addressed to it" % k
                elif not ppend[k] and pend[k] and not pevent[k]:
                    msg = "source %d became pending without an event" % k
                elif k in pacting and not pevent[k] and pend[k]:
                    msg = "source %d still pending after an addressed clear with no new event" % k
                if msg:
                    break
        # --- bookkeeping for the next cycle
        event = []
        for k in range(n):
            kind = v.kinds[k]
            if kind == "p":
                e = trig[k]
            elif kind == "r":
                e = 1 if (trig[k] and not self.prev_trig[k]) else 0
            elif kind == "f":
                e = 1 if (not trig[k] and self.prev_trig[k]) else 0
            else:
                e = 0
            event.append(e)
        self.prev = (list(pend), event, acting)
        self.prev_trig = list(trig)
        self.ack_next = set()
        if we:
            d = v.doc_decode(local)
            if d is not None:
                reg, word = d
                lo = word * v.bw
                if reg == 2:
                    for j in range(v.word_bits(word)):
                        self.shadow_en[lo + j] = (dat >> j) & 1
                elif reg == 1:
                    self.last_word[word] = (dat, True)
                    commit_word = (v.nw - 1) if v.ordering == "little" else 0
                    if word == commit_word:
                        for w, (val, fresh) in self.last_word.items():
                            if fresh or not self.strict:
                                for j in range(v.word_bits(w)):
                                    if (val >> j) & 1:
                                        self.ack_next.add(w * v.bw + j)
                        self.last_word = {w: (val, False) for w, (val, _) in self.last_word.items()}
        return msg


# ---------------------------------------------------------------------------------------------------------
# bare event managers

class EvInst:
    """letter = (trig, bus.adr, bus.we, bus.dat_w, bus.re)"""

    def __init__(self, kinds, dw, ordering="big", masks="all", reads=True, disciplined=True, tag="", trigs=None,
                 extra=True, en_masks=None, page=0, variant=False):
        self.kinds = list(kinds)
        self.top = EvTop(self.kinds, dw, ordering, page=page, variant=variant)
        self.netlist = Netlist(self.top)
        self.view = v = EvView(self.top.ev, self.top.bank, self.top.bus, self.kinds, page, ordering, dw=dw,
                               srcs=self.top.made_sources)
        self.name = "EventManager[%s]/csr%d%s%s" % (kinds_text(self.kinds), dw,
                                                    "/little" if ordering == "little" else "", tag)
        self.lean_open = "ev %d %d %s" % (dw, 1 if ordering == "little" else 0, " ".join(self.kinds))
        self.qual = [None] * 5
        self.disciplined = disciplined
        self.inputs = self.outputs = None
        self.last_obs = None
        self._queue = []
        # ---- alphabet for mode A
        n = v.n
        if trigs is not None and masks == "all":
            masks = "onehot"            # mode-B instances: the alphabet is not used, keep it small
        ops = [(v.idle_adr(), 0, 0, 0)]
        if reads:
            ops += [(v.bus_adr(l), 0, 0, 1) for l in range(3 * v.nw)]
        for reg in (1, 2):
            for w in range(v.nw):
                nb = v.word_bits(w)
                if reg == 2 and en_masks is not None:
                    ms = [m & ((1 << nb) - 1) for m in en_masks]
                elif masks == "all":
                    ms = range(1 << nb)
                elif masks == "onehot":
                    ms = sorted({0, (1 << nb) - 1} | {1 << j for j in range(nb)}) if reg == 1 else [0, (1 << nb) - 1]
                else:
                    ms = masks
                ops += [(v.bus_adr(v.local_index(reg, w)), 1, m, 0) for m in ms]
        full = (1 << min(dw, 8)) - 1
        busfull = (1 << dw) - 1
        if extra:
            # ones everywhere EXCEPT the register's own bits (and everywhere): bits above the register do nothing
            w0 = v.word_bits(0)
            for reg in (1, 2):
                a = v.bus_adr(v.local_index(reg, 0))
                for m in {busfull & ~((1 << w0) - 1), busfull}:
                    if m >> w0:
                        ops.append((a, 1, m, 0))
        if extra:
            ops.append((v.bus_adr(v.local_index(0, 0)), 1, full, 0))                             # write to status: no effect
            ops.append((((page + 1) << PAGE_BITS) | (v.bus_adr(v.local_index(1, 0)) & ((1 << PAGE_BITS) - 1)), 1, full, 0))  # other page
        tv = trigs if trigs is not None else range(1 << n)
        self.alphabet = [(t,) + op for t in tv for op in ops]

    def apply(self, letter):
        trig, adr, we, dat, re = letter
        self.view.drive(self.netlist, trig, adr, we, dat, re)
        self.netlist.settle()

    def sample(self):
        self.last_obs = o = self.view.observe(self.netlist)
        return self.view.outs(o)

    def model_letter(self, letter):
        trig, adr, we, dat, re = letter
        return (trig, self.view.model_adr(adr), we, dat)

    def nontrivial(self, letter, outs):
        return bool(letter[2] or outs[0] or outs[2] or outs[3])

    def monitor(self):
        v = self.view
        return LostEventMonitor(v, lambda: self.last_obs, lambda l: (v.model_adr(l[1]), l[2], l[3]),
                                strict=self.disciplined)

    # mode B generator: trigger density regimes; bus traffic = idle / reads / whole-register writes (all words in
    # address order when `disciplined`) / single random word writes otherwise
    def gen(self, rng, t):
        v = self.view
        if t == 0:
            self._queue = []
        regime = (t // 97) % 4
        pt = (0.5, 0.1, 0.9, 0.02)[regime]
        trig = 0
        for k in range(v.n):
            if rng.random() < pt:
                trig |= 1 << k
        if self._queue:
            if rng.random() < 0.7:
                adr, dat = self._queue.pop(0)
                return (trig, adr, 1, dat, 0)
            return (trig, v.idle_adr(), 0, 0, 0)
        x = rng.random()
        if x < 0.35:
            return (trig, v.idle_adr(), 0, 0, 0)
        if x < 0.5:
            return (trig, v.bus_adr(rng.randrange(3 * v.nw)), 0, rng.getrandbits(v.bw), 1)
        if x < 0.53:
            return (trig, rng.randrange(v.nbank, 1 << 12), rng.randint(0, 1), rng.getrandbits(v.bw), rng.randint(0, 1))
        reg = 1 if rng.random() < 0.6 else 2
        if reg == 2:
            value = rng.getrandbits(v.n) if rng.random() < 0.5 else (1 << v.n) - 1
        else:
            value = rng.choice([1 << rng.randrange(v.n), rng.getrandbits(v.n), (1 << v.n) - 1])
        if self.disciplined or rng.random() < 0.5:
            seq = []
            for l in range(reg * v.nw, (reg + 1) * v.nw):
                _, w = v.doc_decode(l)
                d = (value >> (w * v.bw)) & ((1 << v.bw) - 1)
                if rng.random() < 0.5:          # ones above the register's bits: must be ignored
                    d |= rng.getrandbits(v.bw) & ~((1 << v.word_bits(w)) - 1)
                seq.append((v.bus_adr(l), d))
            adr, dat = seq.pop(0)
            self._queue = seq
            return (trig, adr, 1, dat, 0)
        l = rng.randrange(reg * v.nw, (reg + 1) * v.nw)
        return (trig, v.bus_adr(l), 1, rng.getrandbits(v.bw), 0)


# ---------------------------------------------------------------------------------------------------------
# SharedIRQ over several managers

class SharedTop(Module):
    def __init__(self, kinds_list, dw, ordering="big"):
        self.tops = []
        for kinds in kinds_list:
            t = EvTop(kinds, dw, ordering)
            self.submodules += t
            self.tops.append(t)
        self.shared = evm.SharedIRQ(*[t.ev for t in self.tops])
        self.submodules += self.shared


class SharedMonitor:
    def __init__(self, inst):
        self.inst = inst
        self.mons = [LostEventMonitor(v, (lambda j=j: inst.last_obs[j]),
                                      (lambda l, j=j, v=v: (v.model_adr(l[4 * j + 1]), l[4 * j + 2], l[4 * j + 3])))
                     for j, v in enumerate(inst.views)]

    def observe(self, letter, outs):
        irqs = [o["irq"] for o in self.inst.last_obs]
        if outs[0] != (1 if any(irqs) else 0):
            return "shared irq=%d but the managers' irq lines are %s" % (outs[0], irqs)
        for j, m in enumerate(self.mons):
            r = m.observe(letter, None)
            if r:
                return "manager %d: %s" % (j, r)
        return None


class SharedInst:
    """letter = (trig, adr, we, dat) per manager, concatenated.  outputs: shared irq, then the five outputs of
    every manager."""

    def __init__(self, kinds_list, dw, ordering="big", small=False):
        self.top = SharedTop(kinds_list, dw, ordering)
        self.netlist = Netlist(self.top)
        self.views = [EvView(t.ev, t.bank, t.bus, k, 0, ordering, dw=dw, srcs=t.made_sources)
                      for t, k in zip(self.top.tops, kinds_list)]
        self.name = "SharedIRQ[%s]/csr%d" % (" | ".join(kinds_text(ks) for ks in kinds_list), dw)
        self.lean_open = "shared " + " | ".join("%d %d %s" % (dw, 1 if ordering == "little" else 0, " ".join(ks))
                                                for ks in kinds_list)
        self.qual = [None] * (1 + 5 * len(self.views))
        self.inputs = self.outputs = None
        self.last_obs = None
        per = []
        for v in self.views:
            full = (1 << v.n) - 1
            ops = [(v.idle_adr(), 0, 0), (v.bus_adr(v.local_index(1, 0)), 1, full),
                   (v.bus_adr(v.local_index(2, 0)), 1, full), (v.bus_adr(v.local_index(2, 0)), 1, 0)]
            if small:
                ops = ops[:3]
            if small == 2 and per:
                ops = [ops[0], ops[2]]          # managers after the first: idle / enable all
            per.append([(t,) + op for t in range(1 << v.n) for op in ops])
        size = 1
        for p in per:
            size *= len(p)
        self.alphabet = [sum(c, ()) for c in itertools.product(*per)] if size <= 4096 else []   # large: mode B only

    def apply(self, letter):
        for j, v in enumerate(self.views):
            trig, adr, we, dat = letter[4 * j:4 * j + 4]
            v.drive(self.netlist, trig, adr, we, dat, 0)
        self.netlist.settle()

    def sample(self):
        self.last_obs = [v.observe(self.netlist) for v in self.views]
        outs = [self.netlist.getu(self.top.shared.irq)]
        for v, o in zip(self.views, self.last_obs):
            outs += v.outs(o)
        return outs

    def model_letter(self, letter):
        out = []
        for j, v in enumerate(self.views):
            trig, adr, we, dat = letter[4 * j:4 * j + 4]
            out += [trig, v.model_adr(adr), we, dat]
        return tuple(out)

    def nontrivial(self, letter, outs):
        return bool(outs[0] or any(letter[4 * j + 2] for j in range(len(self.views))))

    def monitor(self):
        return SharedMonitor(self)

    def gen(self, rng, t):
        out = []
        for v in self.views:
            trig = rng.getrandbits(v.n) if rng.random() < 0.4 else 0
            x = rng.random()
            if x < 0.4:
                op = (v.idle_adr(), 0, 0)
            elif x < 0.6:
                op = (v.bus_adr(rng.randrange(3 * v.nw)), 0, 0)
            else:
                op = (v.bus_adr(rng.randrange(v.nw, 3 * v.nw)), 1, rng.getrandbits(v.bw))
            out += [trig, op[0], op[1], op[2]]
        return tuple(out)


# ---------------------------------------------------------------------------------------------------------
# clients with their real trigger logic

class ClientTop(Module):
    def __init__(self, core, dw, ordering="big"):
        self.core = core
        self.submodules += core
        self.bus = csr_bus.Interface(data_width=dw, address_width=14)
        self.bank = csr_bus.CSRBank(core.get_csrs(), address=0, bus=self.bus, ordering=ordering)
        self.submodules += self.bank
        # test-bench register (not part of /repo): which address produced the current dat_r
        self.prev_adr = Signal(14)
        self.sync += self.prev_adr.eq(self.bus.adr)


class ClientInst:
    """letter = (t, stimulus…, bus.adr, bus.we, bus.dat_w, bus.re); `t` is the cycle number (keys the log of sampled
    triggers that is handed to the model).  Compared: irq, dat_r (when the previous address was one of the event
    manager's registers, else 0), clear, pending and status vectors."""

    def __init__(self, name, core, kinds, dw, stim, gen_stim, gen_bus=None, ordering="big", wide_bias=None):
        self.core = core
        self.top = ClientTop(core, dw, ordering)
        self.netlist = Netlist(self.top)
        self.view = v = EvView(core.ev, self.top.bank, self.top.bus, kinds, 0, ordering, dw=dw)
        self.name = "%s/csr%d" % (name, dw)
        self.lean_open = "ev %d %d %s" % (dw, 1 if ordering == "little" else 0, " ".join(kinds))
        self.qual = [None] * 5
        self.inputs = self.outputs = None
        self.stim = list(stim)            # externally driven signals of the core
        self.gen_stim = gen_stim          # (rng, t) -> tuple of values for `stim`
        self.gen_bus = gen_bus            # optional (inst, rng, t) -> (adr, we, dat, re) or None for the default
        self.trig_log = {}
        self.last_obs = None
        self.ns = len(self.stim)
        self._queue = []
        self.alphabet = []                # mode B only

    def apply(self, letter):
        n = self.netlist
        t = letter[0]
        for s, val in zip(self.stim, letter[1:1 + self.ns]):
            n.set(s, val)
        adr, we, dat, re = letter[1 + self.ns:5 + self.ns]
        self.view.drive(n, None, adr, we, dat, re)
        n.settle()
        self.trig_log[t] = vec(n.getu(s.trigger) for s in self.view.srcs)

    def sample(self):
        n = self.netlist
        self.last_obs = o = self.view.observe(n)
        outs = self.view.outs(o)
        if self.view.model_adr(n.getu(self.top.prev_adr)) == self.view.unmapped:
            outs[1] = 0
        return outs

    def bus_of(self, letter):
        adr, we, dat, re = letter[1 + self.ns:5 + self.ns]
        return self.view.model_adr(adr), we, dat

    def model_letter(self, letter):
        l, we, dat = self.bus_of(letter)
        return (self.trig_log[letter[0]], l, we, dat)

    def nontrivial(self, letter, outs):
        return bool(outs[0] or outs[2] or outs[3])

    def monitor(self):
        return LostEventMonitor(self.view, lambda: self.last_obs, self.bus_of, strict=True, foreign_reads=True)

    def gen(self, rng, t):
        v = self.view
        if t == 0:
            self._queue = []
        st = tuple(self.gen_stim(rng, t))
        bus = None
        if self._queue:
            if rng.random() < 0.7:
                adr, dat = self._queue.pop(0)
                bus = (adr, 1, dat, 0)
            else:
                bus = (v.idle_adr(), 0, 0, 0)
        elif self.gen_bus is not None:
            bus = self.gen_bus(self, rng, t)
        if bus is None:
            x = rng.random()
            if x < 0.45:
                bus = (v.idle_adr(), 0, 0, 0)
            elif x < 0.6:
                bus = (rng.randrange(v.nbank), 0, 0, 1)
            elif x < 0.8:
                # whole-register write to pending / enable (all words, address order)
                reg = 1 if rng.random() < 0.6 else 2
                value = rng.choice([1 << rng.randrange(v.n), rng.getrandbits(v.n), (1 << v.n) - 1])
                seq = []
                for l in range(reg * v.nw, (reg + 1) * v.nw):
                    _, w = v.doc_decode(l)
                    seq.append((v.bus_adr(l), (value >> (w * v.bw)) & ((1 << v.bw) - 1)))
                adr, dat = seq.pop(0)
                self._queue = seq
                bus = (adr, 1, dat, 0)
            else:
                adr = rng.randrange(v.nbank)
                if adr in v.local_of and v.doc_decode(v.local_of[adr])[0] == 1 and v.nw > 1:
                    bus = (v.idle_adr(), 0, 0, 0)      # pending is only written as a whole register here
                else:
                    bus = (adr, 1, rng.choice([0, 1, 2, 3, rng.getrandbits(v.bw)]), 0)
        return (t,) + st + tuple(bus)


class GpioInst(ClientInst):
    """GPIOIn / GPIOTristate with_irq against the Lean `gpioIrq` model: the model computes the triggers itself from
    the synchronised pad values and the mode/edge registers (sampled from the real signals); the real
    `source.trigger` vector is an additional compared output."""

    def __init__(self, name, core, npads, dw, stim, gen_stim, ordering="big"):
        ClientInst.__init__(self, name, core, ["r"] * npads, dw, stim, gen_stim, None, ordering)
        self.lean_open = "gpio %d %d %d" % (dw, 1 if ordering == "little" else 0, npads)
        self.qual = [None] * 6

    def apply(self, letter):
        ClientInst.apply(self, letter)
        n, c = self.netlist, self.core
        self.trig_log[letter[0]] = (n.getu(c._in.status), n.getu(c._mode.storage), n.getu(c._edge.storage))

    def sample(self):
        outs = ClientInst.sample(self)
        n, c = self.netlist, self.core
        self.gpio_obs = (n.getu(c._in.status), n.getu(c._mode.storage), n.getu(c._edge.storage))
        return outs + [vec(self.last_obs["trig"])]

    def model_letter(self, letter):
        l, we, dat = self.bus_of(letter)
        i, m, e = self.trig_log[letter[0]]
        return (i, m, e, l, we, dat)

    def monitor(self):
        return GpioPadOracle(self)

    def gen(self, rng, t):
        """Default client traffic, plus whole-register writes to `_mode` / `_edge` (all-Change, all-Edge, mixed,
        rising / falling) so that every mode is exercised on several pads at once."""
        letter = ClientInst.gen(self, rng, t)
        if not self._queue and rng.random() < (0.25 if t < 40 else 0.02):
            v, c = self.view, self.core
            ids = [id(x) for x in self.top.bank.simple_csrs]
            reg = c._mode if rng.random() < 0.6 else c._edge
            full = (1 << v.n) - 1
            value = rng.choice([full, full, 0, rng.getrandbits(v.n)])
            scs = list(reg.simple_csrs)
            nw = len(scs)
            seq = []
            for pos, sc in enumerate(scs):
                w = pos if v.ordering == "little" else nw - 1 - pos
                seq.append((ids.index(id(sc)), (value >> (w * v.bw)) & ((1 << v.bw) - 1)))
            adr, dat = seq.pop(0)
            self._queue = seq
            return letter[:1 + self.ns] + (adr, 1, dat, 0)
        return letter


class GpioPadOracle:
    """Model-independent oracle for `_GPIOIRQ` with any number of pads, on top of the lost-event monitor (which turns
    every trigger edge into "pending next cycle, kept until an addressed clear, never without an event"):
    the trigger of pad k is a function of pad k ALONE - Change mode (`_mode[k]`=1): the synchronised pad k differs
    from its own value one cycle earlier; Edge mode: synchronised pad k XOR `_edge[k]` (rising / falling).  The
    reference keeps one delayed sample per pad; mode/edge are the values of the real storage registers.  So event k
    is pending iff pad k (after the synchroniser) made the configured transition since the last clear."""

    def __init__(self, inst):
        self.inst = inst
        self.base = LostEventMonitor(inst.view, lambda: inst.last_obs, inst.bus_of, strict=True, foreign_reads=True)
        self.prev = 0

    def observe(self, letter, outs):
        m = self.base.observe(letter, outs)
        if m:
            return m
        inst = self.inst
        pads, mode, edge = inst.gpio_obs
        trig = inst.last_obs["trig"]
        for k in range(inst.view.n):
            p, d = (pads >> k) & 1, (self.prev >> k) & 1
            if (mode >> k) & 1:
                want, why = p ^ d, "Change mode, pad %d was %d and is %d" % (k, d, p)
            else:
                e = (edge >> k) & 1
                want, why = p ^ e, "Edge mode (%s), pad %d is %d" % ("falling" if e else "rising", k, p)
            if trig[k] != want:
                was, self.prev = self.prev, pads
                return "GPIO pad %d: trigger=%d, expected %d (%s; all pads were %#x, are %#x)" % (
                    k, trig[k], want, why, was, pads)
        self.prev = pads
        return None


class GpioSyncInst(GpioInst):
    """GPIOIn / GPIOTristate with_irq against the Lean `gpioSync` model (MultiReg + `_GPIOIRQ` + EventManager): the model
    gets the RAW pad values of the letter (before the synchroniser) and computes `_in.status`, the triggers and all
    event-manager outputs itself; only the mode/edge configuration registers are fed from the real storage."""

    def __init__(self, name, core, npads, dw, stim, gen_stim, ordering="big", pads_alphabet=None, masks=(0, 1),
                 edge_ops=True):
        GpioInst.__init__(self, name + "/raw pads" + ("/exhaustive" if pads_alphabet is not None else ""), core, npads,
                          dw, stim, gen_stim, ordering)
        self.lean_open = "gpiosync %d %d %d" % (dw, 1 if ordering == "little" else 0, npads)
        self.qual = [None] * 7
        self.npads = npads
        if pads_alphabet is not None:           # mode A: letters without the cycle number
            v = self.view
            ids = [id(c) for c in self.top.bank.simple_csrs]
            mode = ids.index(id(core._mode.simple_csrs[0]))
            edge = ids.index(id(core._edge.simple_csrs[0]))
            full = (1 << npads) - 1
            ops = [(v.idle_adr(), 0, 0, 0)]
            ops += [(v.bus_adr(v.local_index(1, 0)), 1, m, 0) for m in masks if m]
            ops += [(v.bus_adr(v.local_index(2, 0)), 1, full, 0)]
            ops += [(mode, 1, m, 0) for m in (0, full)]
            if edge_ops:
                ops += [(edge, 1, m, 0) for m in (0, full)]
            self.alphabet = [(0, p) + op for p in pads_alphabet for op in ops]

    def apply(self, letter):
        ClientInst.apply(self, letter)
        n, c = self.netlist, self.core
        self.cur = (letter[1], n.getu(c._mode.storage), n.getu(c._edge.storage))
        self.trig_log[letter[0]] = self.cur

    def sample(self):
        outs = GpioInst.sample(self)
        self.last_in_status = self.netlist.getu(self.core._in.status)
        return outs + [self.last_in_status]

    def model_letter(self, letter):
        l, we, dat = self.bus_of(letter)
        i, m, e = self.cur if self.alphabet else self.trig_log[letter[0]]
        return (i, m, e, l, we, dat)


class SyncDelayMonitor:
    """Oracle for the synchroniser in front of the GPIO event logic, on top of the lost-event monitor: `_in.status` is
    the raw pad vector of two cycles earlier (0 during the first two cycles), independent of everything else."""

    def __init__(self, inst):
        self.inst = inst
        self.base = GpioPadOracle(inst)
        self.hist = [0, 0]

    def observe(self, letter, outs):
        m = self.base.observe(letter, outs)
        if m:
            return m
        got = self.inst.last_in_status
        if got != self.hist[0]:
            return "_in.status=%#x but the pads were %#x two cycles earlier" % (got, self.hist[0])
        self.hist = [self.hist[1], letter[1]]
        return None


GpioSyncInst.monitor = lambda self: SyncDelayMonitor(self)


class TimerInst(ClientInst):
    """Timer against the Lean `timer` model (down counter + ev.zero + EventManager): the model computes the trigger
    `value == 0` itself from the `_en` / `_load` / `_reload` storage values of every cycle (fed from the real
    registers); the real trigger is an additional compared output."""

    def __init__(self, name, core, dw, gen_bus=None, ordering="big", small=None):
        ClientInst.__init__(self, name + "/counter modelled" + ("/exhaustive" if small is not None else ""), core, ["r"],
                            dw, [], lambda rng, t: (), gen_bus, ordering)
        self.lean_open = "timer %d %d" % (dw, 1 if ordering == "little" else 0)
        self.qual = [None] * 6
        self.cur = None
        if small is not None:                   # mode A
            v = self.view
            ids = [id(c) for c in self.top.bank.simple_csrs]
            ix = lambda reg: ids.index(id(reg.simple_csrs[0]))
            ops = [(v.idle_adr(), 0, 0, 0), (v.bus_adr(v.local_index(1, 0)), 1, 1, 0), (v.bus_adr(v.local_index(2, 0)), 1, 1, 0)]
            ops += [(ix(core._en), 1, m, 0) for m in (0, 1)]
            ops += [(ix(core._load), 1, m, 0) for m in small] + [(ix(core._reload), 1, m, 0) for m in small]
            self.alphabet = [(0,) + op for op in ops]

    def apply(self, letter):
        ClientInst.apply(self, letter)
        n, c = self.netlist, self.core
        self.cur = (n.getu(c._en.storage), n.getu(c._load.storage), n.getu(c._reload.storage))
        self.trig_log[letter[0]] = self.cur

    def sample(self):
        outs = ClientInst.sample(self)
        return outs + [vec(self.last_obs["trig"])]

    def model_letter(self, letter):
        l, we, dat = self.bus_of(letter)
        en, ld, rl = self.cur if self.alphabet else self.trig_log[letter[0]]
        return (en, ld, rl, l, we, dat)


class TimerZeroMonitor:
    """Timer oracle on top of the lost-event monitor: a reference down counter (reset 0; enabled: 0 -> reload, else
    minus one; disabled: load) driven by the values of the real `_en`/`_load`/`_reload` registers; the zero trigger
    must be high exactly when the reference counter is 0."""

    def __init__(self, inst):
        self.inst = inst
        self.base = LostEventMonitor(inst.view, lambda: inst.last_obs, inst.bus_of, strict=True, foreign_reads=True)
        self.val = 0

    def observe(self, letter, outs):
        m = self.base.observe(letter, outs)
        if m:
            return m
        trig = self.inst.last_obs["trig"][0]
        if trig != (1 if self.val == 0 else 0):
            return "zero trigger = %d but the reference counter holds %d" % (trig, self.val)
        en, ld, rl = self.inst.cur
        self.val = ((rl if self.val == 0 else self.val - 1) if en else ld)
        return None


TimerInst.monitor = lambda self: TimerZeroMonitor(self)


class UartRxMonitor:
    """UART client oracle on top of the lost-event monitor: the rx event is "the rx FIFO has a character"; writing a
    one to its pending bit pops exactly one character one cycle later (with rx_fifo_rx_we also a bus read of rxtx).
    Scoreboard: characters accepted at the sink are presented at rxtx in order, each until it is popped; an accepted
    character shows up within a few cycles."""

    def __init__(self, inst, rx_we):
        self.inst, self.rx_we = inst, rx_we
        self.base = LostEventMonitor(inst.view, lambda: inst.last_obs, inst.bus_of, strict=True, foreign_reads=True)
        self.q = []
        self.wait = 0
        ids = [id(c) for c in inst.top.bank.simple_csrs]
        self.rxtx = ids.index(id(inst.core._rxtx))

    def observe(self, letter, outs):
        m = self.base.observe(letter, outs)
        if m:
            return m
        inst, n, core = self.inst, self.inst.netlist, self.inst.core
        u = inst.last_uart
        t, sv, sd, sr, adr, we, dat, re = letter
        if u["rx_valid"]:
            self.wait = 0
            if not self.q:
                return "rx FIFO presents a character although none is outstanding"
            if u["rxtx_w"] != self.q[0]:
                return "rxtx shows %#x, the oldest unread character is %#x" % (u["rxtx_w"], self.q[0])
        elif self.q:
            self.wait += 1
            if self.wait > 8:
                return "an accepted character was not presented at rxtx within 8 cycles"
        if inst.last_obs["trig"][1] != u["rx_valid"]:
            return "rx trigger = %d but rx FIFO valid = %d" % (inst.last_obs["trig"][1], u["rx_valid"])
        pop = 1 in self.base.acting_now or (self.rx_we and re and adr == self.rxtx)
        if pop and u["rx_valid"]:
            self.q.pop(0)
        if sv and u["sink_ready"]:
            self.q.append(sd & 0xff)
        return None


class UartInst(ClientInst):
    def __init__(self, name, core, dw, stim, gen_stim, gen_bus, rx_we, ordering="big"):
        ClientInst.__init__(self, name, core, ["r", "r"], dw, stim, gen_stim, gen_bus, ordering)
        self.rx_we = rx_we
        self.last_uart = None

    def sample(self):
        outs = ClientInst.sample(self)
        n, c = self.netlist, self.core
        self.last_uart = {"rx_valid": n.getu(c.rx_fifo.source.valid), "rxtx_w": n.getu(c._rxtx.w),
                          "sink_ready": n.getu(c.sink.ready)}
        return outs

    def monitor(self):
        return UartRxMonitor(self, self.rx_we)


class UartFullInst(UartInst):
    """UART against the Lean `uart` model (tx/rx FIFO levels + ev.tx/ev.rx + EventManager): the model computes both
    triggers, the rx pop, `sink.ready`, `source.valid` and the FIFO levels itself from the stimulus (sink.valid,
    source.ready) and the bus letter (`_rxtx.re` = bus write to rxtx, `_rxtx.we` = bus read strobe on rxtx, derived
    here from the address of rxtx in the bank)."""

    def __init__(self, name, core, dw, stim, gen_stim, gen_bus, rx_we, txd, rxd, ordering="big", small=False):
        tag = "/fifos modelled" + ("" if not small else "/exhaustive" + ("" if small is True else " " + small + " path"))
        UartInst.__init__(self, name + tag, core, dw, stim, gen_stim, gen_bus, rx_we, ordering)
        self.lean_open = "uart %d %d %d %d %d" % (dw, 1 if ordering == "little" else 0, txd, rxd, 1 if rx_we else 0)
        self.qual = [None] * 11
        ids = [id(c) for c in self.top.bank.simple_csrs]
        self.rxtx = ids.index(id(core._rxtx))
        if small:                               # mode A: data always 0 (stale FIFO memory would multiply states)
            v = self.view
            ops = [(v.idle_adr(), 0, 0, 0), (self.rxtx, 1, 0, 0), (v.bus_adr(v.local_index(1, 0)), 1, 2, 0),
                   (v.bus_adr(v.local_index(1, 0)), 1, 1, 0), (v.bus_adr(v.local_index(2, 0)), 1, 3, 0)]
            if rx_we:
                ops.append((self.rxtx, 0, 0, 1))
            srs = (0, 1)
            if small == "rx":                   # receive path only: characters arrive, software acknowledges rx
                ops = [ops[0], ops[2], (v.bus_adr(v.local_index(2, 0)), 1, 2, 0)] + ops[5:]
                srs = (0,)
            elif small == "tx":                 # transmit path only: software sends, the PHY takes characters
                ops = [ops[0], ops[1], ops[3], (v.bus_adr(v.local_index(2, 0)), 1, 1, 0)]
            svs = (0,) if small == "tx" else (0, 1)
            self.alphabet = [(0, sv, 0, sr) + op for sv in svs for sr in srs for op in ops]

    def sample(self):
        outs = UartInst.sample(self)
        n, c = self.netlist, self.core
        return outs + [vec(self.last_obs["trig"]), n.getu(c.sink.ready), n.getu(c.source.valid),
                       n.getu(c.rx_fifo.source.ready), n.getu(c.tx_fifo.level), n.getu(c.rx_fifo.level)]

    def model_letter(self, letter):
        t, sv, sd, sr, adr, we, dat, re = letter
        l, _, _ = self.bus_of(letter)
        hit = adr == self.rxtx
        return (sv, sr, 1 if (hit and we) else 0, 1 if (hit and re) else 0, l, we, dat)


# ---------------------------------------------------------------------------------------------------------
# the way an SoC builds it: peripherals as attributes, CSRBankArray + address map, one Interconnect, SharedIRQ

class EvPeriph(Module, AutoCSR):
    """A user peripheral: AutoCSR module with an EventManager attribute `ev`.  The sources are created without
    name= in a frame with no assignment, so their name is None and `do_finalize` falls back to `event<i>`."""
    def __init__(self, kinds):
        make = {"p": lambda: evm.EventSourcePulse(), "r": lambda: evm.EventSourceProcess(edge="rising"),
                "f": lambda: evm.EventSourceProcess(), "l": lambda: evm.EventSourceLevel()}
        self.ev = evm.EventManager()
        self.made_sources = [make[kind]() for kind in kinds]
        for k, src in enumerate(self.made_sources):
            setattr(self.ev, "src%d" % k, src)
        self.submodules += self.ev
        self.ev.finalize()


class GlueTop(Module):
    def __init__(self, kinds_list, pages, dw, ordering="big"):
        self.periphs = []
        for j, kinds in enumerate(kinds_list):
            p = EvPeriph(kinds)
            setattr(self, "periph%d" % j, p)
            self.submodules += p
            self.periphs.append(p)
        page_of = {"periph%d" % j: pages[j] for j in range(len(kinds_list))}
        self.master = csr_bus.Interface(data_width=dw, address_width=14)
        self.banks = csr_bus.CSRBankArray(self, lambda name, memory: page_of.get(name) if memory is None else None,
                                          data_width=dw, address_width=14, paging=0x800, ordering=ordering)
        self.submodules += self.banks
        self.submodules += csr_bus.Interconnect(self.master, self.banks.get_buses())
        self.shared = evm.SharedIRQ(*[p.ev for p in self.periphs])
        self.submodules += self.shared


class GlueMonitor:
    def __init__(self, inst):
        self.inst = inst
        nv = len(inst.views)
        self.mons = [LostEventMonitor(v, (lambda j=j: inst.last_obs[j]),
                                      (lambda l, v=v: (v.model_adr(l[nv]), l[nv + 1], l[nv + 2])))
                     for j, v in enumerate(inst.views)]

    def observe(self, letter, outs):
        inst = self.inst
        irqs = [o["irq"] for o in inst.last_obs]
        if outs[0] != (1 if any(irqs) else 0):
            return "shared irq=%d but the managers' irq lines are %s" % (outs[0], irqs)
        exp = 0
        for o in inst.last_obs:
            exp |= o["dat_r"]
        if inst.last_master_dat_r != exp:
            return "master dat_r=%#x but the banks return %s" % (inst.last_master_dat_r, [o["dat_r"] for o in inst.last_obs])
        for j, m in enumerate(self.mons):
            r = m.observe(letter, None)
            if r:
                return "manager %d: %s" % (j, r)
        return None


class GlueInst:
    """letter = (trig_0, …, trig_{m-1}, master.adr, master.we, master.dat_w).  Model: `shared`, every manager sees the
    same bus access translated into its own bank-local index.  outputs as SharedInst."""

    def __init__(self, kinds_list, pages, dw, ordering="big"):
        self.top = GlueTop(kinds_list, pages, dw, ordering)
        self.netlist = Netlist(self.top)
        rmap = {name: bank for name, csrs, mapaddr, bank in self.top.banks.banks}
        self.views = []
        for j, (p, kinds) in enumerate(zip(self.top.periphs, kinds_list)):
            bank = rmap["periph%d" % j]
            self.views.append(EvView(p.ev, bank, bank.bus, kinds, pages[j], ordering, dw=dw, srcs=p.made_sources))
        self.dw = dw
        self.name = "CSRBankArray+Interconnect+SharedIRQ[%s]@pages%s/csr%d" % (
            " | ".join(kinds_text(ks) for ks in kinds_list), list(pages), dw)
        self.lean_open = "shared " + " | ".join("%d %d %s" % (dw, 1 if ordering == "little" else 0, " ".join(ks))
                                                for ks in kinds_list)
        self.qual = [None] * (1 + 5 * len(self.views))
        self.inputs = self.outputs = None
        self.alphabet = []
        self.last_obs = None
        self.last_master_dat_r = 0
        self._queue = []

    def apply(self, letter):
        n, nv = self.netlist, len(self.views)
        for j, v in enumerate(self.views):
            for k, s in enumerate(v.srcs):
                n.set(s.trigger, (letter[j] >> k) & 1)
        m = self.top.master
        n.set(m.adr, letter[nv])
        n.set(m.we, letter[nv + 1])
        n.set(m.dat_w, letter[nv + 2])
        n.settle()

    def sample(self):
        n = self.netlist
        self.last_obs = [v.observe(n) for v in self.views]
        self.last_master_dat_r = n.getu(self.top.master.dat_r)
        outs = [n.getu(self.top.shared.irq)]
        for v, o in zip(self.views, self.last_obs):
            outs += v.outs(o)
        return outs

    def model_letter(self, letter):
        nv = len(self.views)
        out = []
        for j, v in enumerate(self.views):
            out += [letter[j], v.model_adr(letter[nv]), letter[nv + 1], letter[nv + 2]]
        return tuple(out)

    def nontrivial(self, letter, outs):
        return bool(outs[0] or letter[len(self.views) + 1])

    def monitor(self):
        return GlueMonitor(self)

    def gen(self, rng, t):
        if t == 0:
            self._queue = []
        trigs = tuple(rng.getrandbits(v.n) if rng.random() < 0.4 else 0 for v in self.views)
        x = rng.random()
        v = rng.choice(self.views)
        if self._queue:
            if rng.random() < 0.7:
                adr, dat = self._queue.pop(0)
                return trigs + (adr, 1, dat)
            return trigs + (v.idle_adr(), 0, 0)
        if x < 0.35:
            bus = (v.idle_adr(), 0, 0)
        elif x < 0.5:
            bus = (v.bus_adr(rng.randrange(3 * v.nw)), 0, 0)
        elif x < 0.55:
            # anything anywhere, except single words of a multi-word `pending` (accessor discipline, strict monitor)
            adr = rng.getrandbits(14)
            hits = any(w.nw > 1 and w.model_adr(adr) != w.unmapped and w.doc_decode(w.model_adr(adr))[0] == 1
                       for w in self.views)
            bus = (v.idle_adr(), 0, 0) if hits else (adr, rng.randint(0, 1), rng.getrandbits(self.dw))
        elif x < 0.75 or v.nw == 1:
            l = rng.randrange(v.nw, 3 * v.nw) if v.nw == 1 else rng.randrange(2 * v.nw, 3 * v.nw)
            bus = (v.bus_adr(l), 1, rng.getrandbits(self.dw))
        else:
            value = rng.choice([1 << rng.randrange(v.n), rng.getrandbits(v.n), (1 << v.n) - 1])
            seq = []
            for l in range(v.nw, 2 * v.nw):
                _, w = v.doc_decode(l)
                seq.append((v.bus_adr(l), (value >> (w * v.bw)) & ((1 << v.bw) - 1)))
            adr, dat = seq.pop(0)
            self._queue = seq
            bus = (adr, 1, dat)
        return trigs + bus


# ---------------------------------------------------------------------------------------------------------
# SoC level: a REAL `SoCCore` with a stub CPU (an `interrupt` vector, a wishbone master, reserved lines), peripherals
# with event managers registered through `soc.irq.add`, `SoC.do_finalize` wiring `cpu.interrupt[loc] = ev.irq`

_STUB = {}


def stub_cpu_class():
    """A CPU for `SoC.add_cpu` that is only its interface (no netlist): interrupt vector, one wishbone master."""
    if "cls" in _STUB:
        return _STUB["cls"]
    from litex.soc.cores import cpu as CPUM
    from litex.soc.interconnect import wishbone

    class C15StubCPU(CPUM.CPU):
        category, family, name, human_name = "softcore", "stub", "c15stub", "c15stub"
        variants = ["standard"]
        data_width = 32
        endianness = "little"
        gcc_triple, linker_output_format, nop = "none", "none", "nop"
        io_regions = {0x8000_0000: 0x8000_0000}
        mem_map = {"csr": 0xf000_0000}
        reset_address_check = False
        RESERVED = {}

        def __init__(self, platform, variant="standard"):
            self.platform, self.variant = platform, variant
            self.reset = Signal()
            self.interrupt = Signal(32)
            self.ibus = wishbone.Interface(data_width=32, address_width=32, addressing="word")
            self.periph_buses = [self.ibus]
            self.memory_buses = []
            self.interrupts = {}
            self.reserved_interrupts = dict(C15StubCPU.RESERVED)

        def set_reset_address(self, a):
            self.reset_address = a

    CPUM.CPUS["c15stub"] = C15StubCPU
    _STUB["cls"] = C15StubCPU
    return C15StubCPU


class SocPeriph(Module, AutoCSR):
    def __init__(self, kinds):
        self.ev = evm.EventManager()
        self.made_sources = [make_source(kind, "e%d" % k) for k, kind in enumerate(kinds)]
        for k, src in enumerate(self.made_sources):
            setattr(self.ev, "e%d" % k, src)
        self.submodules += self.ev
        self.ev.finalize()


def expected_irq_numbers(n_irqs, reserved, reqs):
    """The documented numbering, recomputed here independently of /repo and of the Lean model: CPU lines first, a
    requested number as given, otherwise the lowest free number."""
    used = set(reserved)
    out = []
    for r in reqs:
        if r is None:
            r = min(x for x in range(n_irqs) if x not in used)
        used.add(r)
        out.append(r)
    return out


class SocMonitor:
    """cpu.interrupt bit `expected number of peripheral j` == that manager's irq (== OR(pending & enable) of its real
    registers, checked by its lost-event monitor); every other bit is 0."""

    def __init__(self, inst):
        self.inst = inst
        self.mons = [LostEventMonitor(v, (lambda j=j: inst.last_obs[j]), (lambda l, j=j: inst.cur_bus[j]))
                     for j, v in enumerate(inst.views)]

    def observe(self, letter, outs):
        inst = self.inst
        vecv = outs[0]
        exp = 0
        for j, o in enumerate(inst.last_obs):
            p, e = o["pstat"], o["en"]
            if (p & e) != 0:
                exp |= 1 << inst.want_locs[j]
        if vecv != exp:
            return "cpu.interrupt=%#x but pending&enable of the managers at lines %s gives %#x" % (vecv, inst.want_locs, exp)
        for j, m in enumerate(self.mons):
            r = m.observe(letter, None)
            if r:
                return "manager %d (line %d): %s" % (j, inst.want_locs[j], r)
        return None


class SocIrqInst:
    """letter = (trig_0 … trig_{m-1}, wb.adr, wb.we, wb.dat_w, wb.stb): the triggers of every peripheral and the stub
    CPU's wishbone master (through the real interconnect, CSR bridge, CSR interconnect and banks).  Model `socIrq`:
    every manager gets the access that its own CSR bank sees in that cycle (sampled at the bank's bus port), and the
    interrupt numbers come from the model's own `irqAlloc` on the same request list."""

    def __init__(self, kinds_list, reqs, reserved=None, csr_dw=32, n_irqs=32, names=None, ordering="big"):
        from litex.soc.integration.soc_core import SoCCore
        from litex.build.sim.platform import SimPlatform
        from litex.build.generic_platform import Pins
        cls = stub_cpu_class()
        reserved = dict(reserved or {})
        cls.RESERVED = reserved
        plat = SimPlatform("SIM", [("sys_clk", 0, Pins(1)), ("sys_rst", 0, Pins(1))])
        soc = SoCCore(plat, clk_freq=int(1e6), cpu_type="c15stub", integrated_rom_size=0x100,
                      integrated_sram_size=0x100, with_uart=False, with_timer=False, with_ctrl=False,
                      csr_data_width=csr_dw, csr_ordering=ordering, irq_n_irqs=n_irqs)
        cls.RESERVED = {}
        names = names or ["p%d" % j for j in range(len(kinds_list))]
        self.periphs = []
        for name, kinds, r in zip(names, kinds_list, reqs):
            p = SocPeriph(kinds)
            setattr(soc, name, p)
            if r is None:
                soc.irq.add(name)
            else:
                soc.irq.add(name, r)
            self.periphs.append(p)
        soc.finalize()
        self.soc, self.top = soc, soc
        self.netlist = Netlist(soc)
        self.want_locs = expected_irq_numbers(n_irqs, reserved.values(), reqs)
        rmap = {name: bank for name, csrs, mapaddr, bank in soc.csr_bankarray.banks}
        self.views = []
        self.pages = []
        for name, p, kinds in zip(names, self.periphs, kinds_list):
            bank = rmap[name]
            page = soc.csr.locs[name]
            self.pages.append(page)
            self.views.append(EvView(p.ev, bank, bank.bus, kinds, page, ordering, dw=csr_dw, srcs=p.made_sources))
        self.csr_base = soc.bus.regions["csr"].origin
        self.name = "SoCCore+stub CPU[%s] irq requests %s reserved %s/csr%d" % (
            " | ".join(kinds_text(ks) for ks in kinds_list), list(reqs), sorted(reserved.values()), csr_dw)
        self.reqs, self.reserved, self.n_irqs = list(reqs), reserved, n_irqs
        self.cfg_text = " | ".join("%d %d %s" % (csr_dw, 1 if ordering == "little" else 0, " ".join(ks))
                                   for ks in kinds_list)
        self.lean_open = None            # set by `prepare` (needs the model's own numbering)
        self.qual = [None] * (1 + 5 * len(self.views))
        self.inputs = self.outputs = None
        self.alphabet = []
        self.last_obs = None
        self.cur_bus = None
        self.bus_log = {}
        self._op = None
        self._t = 0

    def alloc_request(self):
        return "irqalloc %d %s / %s" % (self.n_irqs, " ".join(str(x) for x in self.reserved.values()),
                                        " ".join("a" if r is None else str(r) for r in self.reqs))

    def set_locs(self, locs):
        self.model_locs = list(locs)
        self.lean_open = "soc 32 %s | %s" % (" ".join(str(x) for x in locs), self.cfg_text)

    def wb_adr(self, view, local):
        return (self.csr_base + view.page * 0x800 + view.index_of_local[local] * 4) >> 2

    def apply(self, letter):
        n, nv = self.netlist, len(self.views)
        for j, v in enumerate(self.views):
            for k, s in enumerate(v.srcs):
                n.set(s.trigger, (letter[j] >> k) & 1)
        wb = self.soc.cpu.ibus
        adr, we, dat, stb = letter[nv:nv + 4]
        n.set(wb.adr, adr)
        n.set(wb.we, we)
        n.set(wb.dat_w, dat)
        n.set(wb.sel, 0xf)
        n.set(wb.stb, stb)
        n.set(wb.cyc, stb)
        n.settle()
        self.cur_bus = [(v.model_adr(n.getu(v.bus.adr)), n.getu(v.bus.we), n.getu(v.bus.dat_w)) for v in self.views]
        self.ack = n.getu(wb.ack)

    def sample(self):
        n = self.netlist
        self.last_obs = [v.observe(n) for v in self.views]
        outs = [n.getu(self.soc.cpu.interrupt)]
        for v, o in zip(self.views, self.last_obs):
            outs += v.outs(o)
        self.bus_log[self._t] = self.cur_bus
        self._t += 1
        return outs

    def model_letter(self, letter):
        nv = len(self.views)
        t = letter[nv + 4]
        out = []
        for j in range(nv):
            l, we, dat = self.bus_log[t][j]
            out += [letter[j], l, we, dat]
        return tuple(out)

    def nontrivial(self, letter, outs):
        return bool(outs[0] or any(b[1] for b in self.cur_bus))

    def monitor(self):
        return SocMonitor(self)

    def gen(self, rng, t):
        if t == 0:
            self._op, self._t, self.ack, self.bus_log = None, 0, 0, {}
        trigs = tuple(rng.getrandbits(v.n) if rng.random() < 0.3 else 0 for v in self.views)
        if self._op is not None and self.ack:
            self._op = None                       # the access of the previous cycle was acknowledged
            return trigs + (0, 0, 0, 0, t)
        if self._op is None and rng.random() < 0.6:
            v = rng.choice(self.views)
            x = rng.random()
            if x < 0.25:
                self._op = (self.wb_adr(v, rng.randrange(3 * v.nw)), 0, 0, 1)
            elif x < 0.3:
                self._op = ((self.csr_base >> 2) + rng.getrandbits(12), rng.randint(0, 1), rng.getrandbits(8), 1)
            else:
                reg = 1 if rng.random() < 0.55 else 2
                value = rng.choice([1 << rng.randrange(v.n), rng.getrandbits(v.n), (1 << v.n) - 1])
                self._op = (self.wb_adr(v, v.local_index(reg, 0)), 1, value, 1)
        return trigs + (self._op or (0, 0, 0, 0)) + (t,)
