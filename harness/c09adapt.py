"""C09 — differential tie of the Lean model of `SoCBusHandler.add_adapter` (lean/LitexModel/Bridge/Adapter.lean) to the
real selection glue, over ALL combinations of interface standard / width / address width / addressing, bus standard /
width / address width and direction of a grid (no sampling: the grid is enumerated).

For every combination the real `add_adapter` is executed on a fresh `SoCBusHandler`; the interfaces its three helper
functions create are recorded (constructor hook keyed on the calling helper's name, harness-side only), the inserted
submodules are read back from the bus handler, and everything is compared with the answer of `call chain …`:
   * raised exception class (KeyError / AssertionError) or success,
   * the elements in creation order: kind, master-side and slave-side interface (standard, data width, byte-address
     width taken from len(address signal), addressing),
   * the adapted interface returned.
Model-independent oracle of the same run (`glue_oracle`): the interface handed back must be of the bus's standard and
data width (and, when anything was inserted, address width and addressing).
The combinational addressing glue (no submodule) and `wishbone.Converter` (model: C07; here only its byte map) are
exercised on the real netlist with directed single-lane accesses and compared with `call chainbyte …`.
"""
import sys, logging, random
from explore import Disagreement
from netlist import Netlist
from litex.soc.interconnect import wishbone, ahb
from litex.soc.interconnect import axi
from litex.soc.integration import soc as soc_mod

STD = {"wishbone": 0, "axi-lite": 1, "axi": 2, "ahb": 3}
STD_NAME = {v: k for k, v in STD.items()}
KIND = {"Converter": 0, "AXILiteConverter": 1, "AXIConverter": 2, "addressing": 3, "Wishbone2AXILite": 4,
        "AXILite2Wishbone": 5, "Wishbone2AXI": 6, "AXILite2AXI": 7, "AXI2AXILite": 8, "AXI2Wishbone": 9,
        "AHB2Wishbone": 10}
KIND_NAME = {v: k for k, v in KIND.items()}
HELPERS = ("bus_data_width_convert", "bus_addressing_convert", "bus_standard_convert")
CLASSES = (wishbone.Interface, axi.AXILiteInterface, axi.AXIInterface)


def log2(n):
    return n.bit_length() - 1


def mk_interface(std, dw, aw, byte_addr):
    addr = "byte" if byte_addr else "word"
    if std == "wishbone":
        return wishbone.Interface(data_width=dw, address_width=aw, addressing=addr)
    if std == "axi-lite":
        return axi.AXILiteInterface(data_width=dw, address_width=aw, addressing=addr)
    if std == "axi":
        return axi.AXIInterface(data_width=dw, address_width=aw, addressing=addr)
    return ahb.AHBInterface(data_width=dw, address_width=aw, addressing=addr)


def desc(i):
    """(standard, data width, byte-address width, byte addressed) from the signals, not from the attributes."""
    if isinstance(i, wishbone.Interface):
        byte = i.addressing == "byte"
        return (0, len(i.dat_w), len(i.adr) + (0 if byte else log2(len(i.dat_w) // 8)), int(byte))
    if isinstance(i, axi.AXILiteInterface):
        return (1, len(i.w.data), len(i.aw.addr), int(i.addressing == "byte"))
    if isinstance(i, axi.AXIInterface):
        return (2, len(i.w.data), len(i.aw.addr), int(i.addressing == "byte"))
    return (3, len(i.wdata), len(i.addr), int(i.addressing == "byte"))


class _Recorder:
    """Records the interfaces created by the helper functions of add_adapter (and only those)."""

    def __init__(self):
        self.created = []
        self.orig = {}

    def __enter__(self):
        rec = self
        for cls in CLASSES:
            orig = cls.__init__
            self.orig[cls] = orig

            def init(self_, *a, _orig=orig, **kw):
                _orig(self_, *a, **kw)
                f = sys._getframe(1)
                if f.f_code.co_name in HELPERS:
                    rec.created.append((f.f_code.co_name, self_))
            cls.__init__ = init
        return self

    def __exit__(self, *a):
        for cls, orig in self.orig.items():
            cls.__init__ = orig


def real_chain(combo):
    """combo = (std, dw, aw, byte_addr, bus_std, bus_dw, bus_aw, m2s) -> ("ok", elems, out_desc, bus, itf, created)
    | (exception class name,)."""
    std, dw, aw, ba, bstd, bdw, baw, m2s = combo
    itf = mk_interface(std, dw, aw, ba)
    bus = soc_mod.SoCBusHandler(standard=bstd, data_width=bdw, address_width=baw)
    with _Recorder() as rec:
        try:
            out = bus.add_adapter("probe", itf, "m2s" if m2s else "s2m")
        except (KeyError, AssertionError) as e:
            return (type(e).__name__,)
    subs = [m for _, m in bus._submodules]
    elems = []
    cur = itf
    k = 0
    for helper, ad in rec.created:
        if helper == "bus_addressing_convert":
            kind = KIND["addressing"]
        else:
            kind = KIND.get(type(subs[k]).__name__, 99) if k < len(subs) else 98
            k += 1
        m, s = (cur, ad) if m2s else (ad, cur)
        elems.append((kind,) + desc(m) + desc(s))
        cur = ad
    if k != len(subs):
        elems.append((97, len(subs)))
    return ("ok", elems, desc(out), bus, itf, rec.created, out)


def model_chain(lean, combos):
    lines = ["chain %d %d %d %d %d %d %d %d" % (STD[c[0]], c[1], c[2], int(c[3]), STD[c[4]], c[5], c[6], int(c[7]))
             for c in combos]
    out = []
    for r in lean.call_batch(lines):
        w = r.split()
        if w[0] != "ok":
            out.append((w[0],))
            continue
        n = int(w[1])
        nums = list(map(int, w[2:]))
        out.append(("ok", [tuple(nums[9 * j:9 * j + 9]) for j in range(n)], tuple(nums[9 * n:9 * n + 4])))
    return out


def converter_variant(conv):
    """What a converter wrapper instantiated: 0 nothing (direct connection), 1 down-converter, 2 up-converter."""
    names = [type(m).__name__ for _, m in getattr(conv, "_submodules", [])]
    if any("Down" in n for n in names):
        return 1
    if any("Up" in n for n in names):
        return 2
    return 0


def glue_oracle(combo, real):
    """Model-independent requirements on the real glue; returns a message or None."""
    std, dw, aw, ba, bstd, bdw, baw, m2s = combo
    if real[0] != "ok":
        return None
    want = (STD[bstd], bdw, baw, int(bstd != "wishbone"))
    got = real[2]
    # (an interface of the bus's own standard and width is handed back as it is, whatever its address width)
    if (got[0], got[1]) != (want[0], want[1]) or (real[1] and got != want):
        return "add_adapter returned an interface %r that is not the bus's %r" % (got, want)
    return None


def grid(tier):
    dws = (32, 64) if tier == "quick" else (32, 64, 128, 256)
    aws = (32, 64)
    ifs = [("wishbone", False), ("wishbone", True), ("axi-lite", True), ("axi", True), ("ahb", True)]
    g = []
    for std, ba in ifs:
        for dw in dws:
            for aw in aws:
                for bstd in ("wishbone", "axi-lite", "axi"):
                    for bdw in dws:
                        for baw in aws:
                            for m2s in (True, False):
                                g.append((std, dw, aw, ba, bstd, bdw, baw, m2s))
    return g


def combo_name(c):
    return "add_adapter[%s/%d aw=%d %s %s %s/%d aw=%d]" % (c[0], c[1], c[2], "byte" if c[3] else "word",
                                                          "->" if c[7] else "<-", c[4], c[5], c[6])


def mk_dis(name, kind, impl=None, model=None, combo=None):
    d = Disagreement(None, [], 0, impl, model, kind=kind)
    d.inst_name = name
    d.combo = list(combo) if combo else None
    return d


# ---- byte maps on the real netlist ------------------------------------------------------------------------

def addressing_glue_bytes(real, m2s, rng, n=6):
    """[(master desc, slave desc, adr_m, adr_s, other signals pass)] of the combinational addressing glue.  Only the
    comb statements that drive the slave end's `adr` are executed (with the master end's `adr` forced), so the glue is
    observed also where a converter / bridge of the chain drives its master end."""
    from migen.fhdl.tools import list_targets
    bus, itf, created = real[3], real[4], real[5]
    cur = itf
    res = []
    nl = None
    for helper, ad in created:
        if helper == "bus_addressing_convert":
            m, s = (cur, ad) if m2s else (ad, cur)
            nl = nl or Netlist(bus)
            stmts = [st for st in nl.comb if s.adr in list_targets(st)]
            free = not (m.adr in nl.comb_targets or m.cyc in nl.comb_targets or m.adr in nl.regs)
            for _ in range(n):
                x = rng.getrandbits(len(m.adr))
                same = True
                if free:
                    v = [(m.cyc, 1), (m.stb, 1), (m.we, rng.getrandbits(1)), (m.sel, rng.getrandbits(len(m.sel))),
                         (m.dat_w, rng.getrandbits(len(m.dat_w))), (m.adr, x)]
                    for sg, val in v:
                        nl.set(sg, val)
                    nl.settle()
                    same = all(nl.getu(getattr(s, f)) == nl.getu(getattr(m, f)) for f in ("cyc", "stb", "we", "sel", "dat_w"))
                nl.set(m.adr, x)
                nl.ev.execute(stmts)
                nl.ev.commit()
                res.append((desc(m), desc(s), x, nl.getu(s.adr), same))
                nl.settle()
        cur = ad
    return res


def wb_converter_bytes(dw_m, dw_s, aw, rng, n=4):
    """Single-lane writes through the real `wishbone.Converter` against an always-acknowledging slave:
    [(adr_m, lane_m, adr_s, lane_s)]."""
    m = wishbone.Interface(data_width=dw_m, address_width=aw, addressing="word")
    s = wishbone.Interface(data_width=dw_s, address_width=aw, addressing="word")
    conv = wishbone.Converter(m, s)
    nl = Netlist(conv)
    out = []
    for _ in range(n):
        x = rng.getrandbits(len(m.adr))
        lane = rng.randrange(dw_m // 8)
        tag = 0xA5
        for sg, val in ((m.cyc, 1), (m.stb, 1), (m.we, 1), (m.adr, x), (m.sel, 1 << lane), (m.dat_w, tag << (8 * lane)),
                        (s.ack, 0), (s.dat_r, 0), (s.err, 0)):
            nl.set(sg, val)
        hits = []
        for t in range(4 * max(dw_m // dw_s, 1) + 8):
            nl.settle()
            ack = nl.getu(s.cyc) & nl.getu(s.stb)
            nl.set(s.ack, ack)
            nl.settle()
            if ack and nl.getu(s.we) and nl.getu(s.sel):
                sel = nl.getu(s.sel)
                dat = nl.getu(s.dat_w)
                for j in range(dw_s // 8):
                    if (sel >> j) & 1:
                        hits.append((nl.getu(s.adr), j, (dat >> (8 * j)) & 0xFF))
            done = nl.getu(m.ack)
            nl.tick()
            if done:
                break
        nl.set(m.cyc, 0)
        nl.set(m.stb, 0)
        nl.set(s.ack, 0)
        for _ in range(3):
            nl.settle()
            nl.tick()
        out.append((x, lane, hits, tag))
    return out


def glue_flat_msg(dm, ds, x, xs, same):
    """Model-independent: both ends of the addressing glue name the same flat byte (word address * nb = aligned byte
    address) and the other signals pass unchanged; returns a message or None."""
    nb = dm[1] // 8
    flat_m = (x // nb * nb) if dm[3] else x * nb
    flat_s = (xs // nb * nb) if ds[3] else xs * nb
    mask = (1 << min(dm[2], ds[2])) - 1
    if (flat_m & mask) != (flat_s & mask) or not same:
        return ("addressing glue carries address 0x%x as 0x%x (flat byte 0x%x vs 0x%x) or alters cyc/stb/we/sel/dat_w"
                % (x, xs, flat_m, flat_s))
    return None


def replay_combo(combo, seed=0):
    """Re-run the model-independent oracles of one combination on the current tree; returns a message or None."""
    real = real_chain(tuple(combo))
    msg = glue_oracle(tuple(combo), real)
    if msg or real[0] != "ok":
        return msg
    if any(e[0] == KIND["addressing"] for e in real[1]):
        for (dm, ds, x, xs, same) in addressing_glue_bytes(real, combo[7], random.Random(seed), n=8):
            msg = glue_flat_msg(dm, ds, x, xs, same)
            if msg:
                return msg
    return None


def axsize_check(cls, w):
    """Model-independent: the AW/AR attributes a real AXILite2AXI / Wishbone2AXI drives on a `w`-bit AXI bus are those
    of a full-width single beat (size = log2(bus bytes) <= bus, len = 0).  Returns (message or None, observed)."""
    ax = axi.AXIInterface(data_width=w, address_width=32)
    try:
        if cls == "AXILite2AXI":
            mod = axi.AXILite2AXI(axi.AXILiteInterface(data_width=w, address_width=32), ax)
        else:
            mod = axi.Wishbone2AXI(wishbone.Interface(data_width=w, address_width=32, addressing="word"), ax)
    except Exception as ex:
        return "%s cannot be built on a %d-bit bus: %r" % (cls, w, ex), None
    nl = Netlist(mod)
    nl.settle()
    g4 = (nl.getu(ax.aw.size), nl.getu(ax.ar.size), nl.getu(ax.aw.len), nl.getu(ax.ar.len))
    if g4 != (log2(w // 8),) * 2 + (0, 0):
        return ("%s on a %d-bit bus drives aw.size/ar.size/aw.len/ar.len = %r (a full-width single beat is size %d, "
                "len 0; size %d would be %d-byte beats on a %d-byte bus)" % (cls, w, g4, log2(w // 8), g4[0], 1 << g4[0],
                                                                        w // 8)), g4
    return None, g4


def differential(ctx):
    """Returns the list of disagreements (empty on the unchanged tree)."""
    logging.getLogger("SoCBusHandler").setLevel(logging.CRITICAL)
    prev = logging.root.manager.disable
    logging.disable(logging.CRITICAL)
    try:
        return _differential(ctx)
    finally:
        logging.disable(prev)


def _real_worker(args):
    """Real side of one combination, reduced to plain data (runs in a forked worker)."""
    combo, n_glue, seed = args
    try:
        real = real_chain(combo)
    except Exception as ex:         # any other exception of a changed glue
        return ("exc", repr(ex))
    msg = glue_oracle(combo, real)
    if real[0] != "ok":
        return (real[0], None, None, msg, [])
    glue = []
    if any(e[0] == KIND["addressing"] for e in real[1]):
        glue = addressing_glue_bytes(real, combo[7], random.Random(seed), n=n_glue)
    return ("ok", real[1], real[2], msg, glue)


def _differential(ctx):
    import os
    import multiprocessing as mp
    dis = []
    g = grid(ctx.tier)
    models = model_chain(ctx.lean, g)
    n_ok = n_err = 0
    glue_cases = []
    rng = random.Random(ctx.seed * 7919 + 17)
    work = [(c, 3 if ctx.tier == "quick" else 8, ctx.seed * 100003 + k) for k, c in enumerate(g)]
    procs = int(os.environ.get("VERIF_PROCS", "0")) or (os.cpu_count() or 4)
    if procs > 1:
        with mp.get_context("fork").Pool(procs) as pool:
            reals = pool.map(_real_worker, work, chunksize=8)
    else:
        reals = [_real_worker(w) for w in work]
    for combo, mod, real in zip(g, models, reals):
        name = combo_name(combo)
        if real[0] == "exc":
            dis.append(mk_dis(name, "monitor:add_adapter raised %s" % real[1], combo=combo))
            continue
        if real[3]:
            dis.append(mk_dis(name, "monitor:" + real[3], combo=combo))
            continue
        if real[0] != mod[0]:
            dis.append(mk_dis(name, "adapter-glue: outcome", real[0], mod[0], combo))
            continue
        if real[0] != "ok":
            n_err += 1
            continue
        n_ok += 1
        if real[1] != mod[1] or real[2] != mod[2]:
            dis.append(mk_dis(name, "adapter-glue: chain", [list(e) for e in real[1]] + [list(real[2])],
                              [list(e) for e in mod[1]] + [list(mod[2])], combo))
            continue
        # addressing glue: real wiring vs the model's byte map of this element
        for (dm, ds, x, xs, same) in real[4]:
            glue_cases.append((name, combo, dm, ds, x, xs, same))
    if glue_cases:
        lines = ["chainbyte 1 3 %d %d %d %d %d %d %d %d %d 0" % (dm + ds + (x,)) for (_, _, dm, ds, x, _, _) in glue_cases]
        for (name, combo, dm, ds, x, xs, same), r in zip(glue_cases, ctx.lean.call_batch(lines)):
            nb = dm[1] // 8
            msg = glue_flat_msg(dm, ds, x, xs, same)
            if msg:
                dis.append(mk_dis(name, "monitor:" + msg, combo=combo))
            else:
                s_bits = ds[2] - (0 if ds[3] else log2(nb))
                if int(r.split()[0]) % (1 << s_bits) != xs:
                    dis.append(mk_dis(name, "adapter-glue: addressing byte map", [x, xs], r, combo))
    ctx.cov.add_cases("add_adapter selection glue (all combinations of the grid)", len(g), n_ok, exhaustive=True,
                      mode="differential")
    ctx.cov.add_cases("add_adapter addressing glue wiring", len(glue_cases), len(glue_cases), exhaustive=False,
                      mode="differential")
    # converter wrappers: down / up / direct choice
    pairs = [(a, b) for a in (8, 16, 32, 64, 128, 256) for b in (8, 16, 32, 64, 128, 256)]
    ans = ctx.lean.call_batch(["conv %d %d" % p for p in pairs])
    for (f, t), r in zip(pairs, ans):
        conv = axi.AXILiteConverter(axi.AXILiteInterface(data_width=f), axi.AXILiteInterface(data_width=t))
        v = converter_variant(conv)
        if v != int(r):
            dis.append(mk_dis("AXILiteConverter(%d->%d)" % (f, t), "adapter-glue: converter choice", v, r))
    ctx.cov.add_cases("AXILiteConverter down/up/direct choice", len(pairs), len(pairs), exhaustive=True,
                      mode="differential")
    # AxSIZE constant AXILite2AXI / Wishbone2AXI announce, all bus widths up to 1024 bits: real netlist vs `axsize`
    # (model) and vs the AXI rule size = log2(bus bytes) for full-width beats (model-independent)
    widths = [8, 16, 32, 64, 128, 256, 512, 1024]
    ans = ctx.lean.call_batch(["axsize %d" % w for w in widths])
    for w, r in zip(widths, ans):
        for cls in ("AXILite2AXI", "Wishbone2AXI"):
            if cls == "Wishbone2AXI" and w < 16:
                continue
            name = "%s(dw=%d)" % (cls, w)
            msg, g4 = axsize_check(cls, w)
            if msg:
                d = mk_dis(name, "monitor:" + msg)
                d.axsize = [cls, w]
                dis.append(d)
            elif g4[0] != int(r):
                dis.append(mk_dis(name, "adapter-glue: AxSIZE constant", list(g4), r))
    ctx.cov.add_cases("AxSIZE constant of AXILite2AXI / Wishbone2AXI, 8..1024 bits", 2 * len(widths), 2 * len(widths),
                      exhaustive=True, mode="differential")
    # wishbone.Converter byte map (element model of the composition theorem; the converter itself is C07's)
    wpairs = [(64, 32), (32, 64)] if ctx.tier == "quick" else [(64, 32), (32, 64), (128, 32), (32, 128), (64, 128)]
    cases = []
    for (f, t) in wpairs:
        for (x, lane, hits, tag) in wb_converter_bytes(f, t, 32, rng):
            cases.append((f, t, x, lane, hits, tag))
    lines = ["chainbyte 1 0 0 %d 32 0 0 %d 32 0 %d %d" % (f, t, x, lane) for (f, t, x, lane, _, _) in cases]
    for (f, t, x, lane, hits, tag), r in zip(cases, ctx.lean.call_batch(lines)):
        name = "wishbone.Converter(%d->%d)" % (f, t)
        flat_m = x * (f // 8) + lane
        good = [h for h in hits if h[2] == tag]
        if len(good) != 1 or good[0][0] * (t // 8) + good[0][1] != flat_m:
            dis.append(mk_dis(name, "monitor:single-lane write word 0x%x lane %d arrives as %r" % (x, lane, hits)))
        elif tuple(map(int, r.split())) != good[0][:2]:
            dis.append(mk_dis(name, "adapter-glue: wishbone converter byte map", list(good[0][:2]), r))
    ctx.cov.add_cases("wishbone.Converter byte map", len(cases), len(cases), exhaustive=False, mode="differential")
    ctx.log("add_adapter glue: %d combinations (%d chains, %d rejected) agree with the Lean model"
            % (len(g), n_ok, n_err))
    return dis
