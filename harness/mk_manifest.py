"""Regenerates /verif/MANIFEST.json from the table below (run after a property's check is green)."""
import json, os
VERIF = os.path.dirname(os.path.dirname(os.path.abspath(__file__)))

BASELINE = "cd /repo && /venv/bin/python -m pytest -ra -q -p no:cacheprovider --timeout=900 --continue-on-collection-errors"

# id -> (design_ref, level text, level note, technique)  -- only properties whose check is built and green
CLAIMED = {
 "C03": ("DESIGN.md §7.C03",
         "Lean 4 theorems: for every valid/ready schedule and token sequence (induction over the input list) each modelled stream element satisfies accepted = delivered ++ in-flight (no loss/dup/reorder/alteration); compositions by the generic comp_rel theorem. The models are tied to /repo on every run by exhaustive co-exploration of the reachable implementation x model product for small instances and seeded lock-step co-simulation for large ones; a break triggers a scoreboard-driven failing-input search on the real code.",
         "Trusted: Lean kernel + propext/Quot.sound/Classical.choice; theorem statements; harness + driver; litex.gen.sim.core.Evaluator as netlist semantics; Migen (fifo, Record) executed not verified. Models are hand-written; correspondence is complete only for the small instances listed in the evidence (exhaustive:true) and sampled for the large ones.",
         "Lean 4 proof (history-invariant induction) + checked model/implementation correspondence"),
}

REASON_PENDING = "check not built yet in this round (model/theorems in progress); no claim is made"


def main():
    props = [json.loads(l)["id"] for l in open(os.path.join(VERIF, "properties.jsonl"))]
    checks = []
    for p in props:
        if p in CLAIMED:
            ref, text, note, tech = CLAIMED[p]
            checks.append({
                "property_id": p,
                "quick_cmd": "./check %s --tier quick" % p,
                "thorough_cmd": "./check %s --tier thorough" % p,
                "evidence_file": "evidence/%s.json" % p,
                "replay_cmd_template": "./check %s --replay {path}" % p,
                "engine": "lean4+harness",
                "level_claimed": {"category": "proof", "text": text, "design_ref": ref},
                "level_note": note,
                "technique": tech,
            })
    man = {
        "version": 1,
        "setup_cmd": "./check --setup",
        "hooks": {"guard": "LITEX_VERIF",
                  "enable": "export LITEX_VERIF=1 (set by ./check; no source hooks are needed: the harness observes public attributes and drives the repository's own simulator)",
                  "baseline_off_cmd": BASELINE, "source_commits": [], "add_only": True},
        "engines": [{"name": "lean4+harness", "path": "lean/ + harness/", "serves_properties": sorted(CLAIMED),
                     "kind_free_text": "Lean 4 models and theorems (lake project lean/), compiled line-protocol drivers, Python harness driving the real LiteX code (litex.gen.sim.core.Evaluator / direct calls) for the model-implementation correspondence and failing-input search"}],
        "checks": checks,
        "notes": "Repairs of genuine defects are unguarded 'fix:' commits in /repo listed in known_findings.json (status fixed).",
        "not_applicable": [{"property_id": p, "reason": REASON_PENDING} for p in props if p not in CLAIMED],
    }
    with open(os.path.join(VERIF, "MANIFEST.json"), "w") as f:
        json.dump(man, f, indent=1)
    print("claimed:", sorted(CLAIMED))


main()
