"""Regenerates /verif/MANIFEST.json from the table below (run after a property's check is green)."""
import json, os
VERIF = os.path.dirname(os.path.dirname(os.path.abspath(__file__)))

BASELINE = "cd /repo && /venv/bin/python -m pytest -ra -q -p no:cacheprovider --timeout=900 --continue-on-collection-errors"

# id -> (design_ref, level text, level note, technique)  -- only properties whose check is built and green
CLAIMED = {
 "C03": ("DESIGN.md §7.C03",
         "Lean 4 theorems by induction over arbitrary per-cycle input lists (every valid/ready schedule, every token sequence, garbage on the lines while valid=0): every modelled stream element (pipes, buffers, sync FIFOs of any depth buffered or not, up/down/stride converters, Pack/Unpack, gearbox for all i,o, mux/demux/gate, cast, delay n, pipelines, BufferizeEndpoints, Shifter) relates accepted to delivered tokens by its documented function (identity, chunking with early last and OR-ed first/last, lane split, bit-stream regrouping, selection), with in-flight content and capacity; compositions by the generic comp_rel theorem. Tied to /repo on every run by exhaustive co-exploration of the reachable implementation x model product for 92 small instances and seeded lock-step co-simulation for 48 large ones; a break triggers a scoreboard-driven failing-input search on the real code.",
         "Trusted: Lean kernel + propext/Quot.sound/Classical.choice; theorem statements; harness + driver; Evaluator as netlist semantics; Migen (fifo, Record) executed not verified. Down-converting elements are proved under the stream producer contract (_partial, with a negative witness); the stride and reversed-cast bit maps and the down-converter's valid_token_count are validated by correspondence only; AsyncFIFO/ClockDomainCrossing are C05; stream.Crossbar container and the CSR Monitor are not modelled.",
         "Lean 4 proof (history-invariant induction, simulation and composition lemmas) + checked model/implementation correspondence"),
 "C06": ("DESIGN.md §7.C06",
         "Lean 4 theorems over every state and input, and by induction over every request/response schedule, for wishbone InterconnectShared and Crossbar of arbitrary size (n masters, m slaves, arbitrary decoders, registered or not): routing to the one matching slave or none, ack/err/read data to the owner only, ownership stable until the owner's cyc drops, terminations seen by a master equal the slave responses to its own strobes, grant within n-1 hand-overs (Migen round robin, both policies). Tied to /repo on every run by exhaustive co-exploration of 80 (quick) / 117 (thorough) small fabrics and seeded 32/64-bit co-simulation with a model-independent protocol monitor.",
         "Trusted: Lean kernel + propext/Quot.sound/Classical.choice; theorem statements; harness + driver; Evaluator as netlist semantics; Migen RoundRobin executed (and compared exhaustively for n<=4), not verified. Explicit hypotheses: disjoint decoders (C13) and slaves answering only presented strobes. register=True read data is _partial (known finding C06-registered-decoder-0-latency). Timeout is modelled here; its theorems are C11's.",
         "Lean 4 proof (per-cycle lemmas, potential-function induction for bounded waiting) + checked model/implementation correspondence"),
 "C17": ("DESIGN.md §7.C17",
         "Lean 4 theorems over the ten 8b/10b tables regenerated from the repository on every run: invertibility, per-word disparity bookkeeping and invalid detection are checked by the kernel over the whole finite domain (1024 encoder inputs, 1024 decoder inputs) and lifted by induction to symbol sequences of arbitrary length (running disparity +-1 at every boundary and within +-3 inside, no run of six, no false comma among data symbols); the multi-word Encoder for every ce pattern and the stream wrappers for every valid/ready schedule (token-exact round trip), stream DC balance under the no-bubble hypothesis (known finding outside it).",
         "Trusted: Lean kernel + the three standard axioms; theorem statements; harness and driver packing; Evaluator as netlist semantics. encode1/decode1 are hand transcriptions tied to the SingleEncoder and Decoder netlists by a complete comparison over all inputs; machines tied by exhaustive co-exploration for nwords <= 2 with a 4-symbol alphabet and by sampled co-simulation for nwords 1-4. A table change in /repo breaks a kernel `decide` directly.",
         "kernel decide over regenerated tables + induction over sequences + history-relation induction for the pipelines + exhaustive function/state-space correspondence"),
 "C18": ("DESIGN.md §7.C18",
         "Lean 4 theorems for every data width k >= 1 and every data word: code geometry (least m, check positions = powers of two, cover sets = bit-b positions, k data positions), encoder (syndrome 0, even parity), decoder corrects any single flipped bit including the parity bit with sec iff a data/check bit, flags any two flipped bits with ded=1 and sec=0, and is a wire-through with enable=0. Tied to /repo on every run: geometry helpers for all k in 1..512, netlists exhaustively over all inputs for k <= 6 (quick) / 8 (thorough), all single and sampled/all pair flips on the standard widths up to 128; a break triggers a model-independent round-trip + matrix-Hamming oracle search on the real code.",
         "Trusted: Lean kernel + the three standard axioms; theorem statements; harness and driver (number<->bit-list conversion proved); Evaluator as netlist semantics. The model is hand-written; the decoder tie is complete only for k <= 8 and sampled words for larger k.",
         "Lean 4 structural proof (GF(2) linearity of XOR folds, loop/closed-form equalities) + checked model/implementation correspondence"),
 "C02": ("DESIGN.md §7.C02",
         "Lean 4 theorems over all base-name assignments and all request sequences (any order, with repeats): SignalNamespace.get_name (as repaired by the fix: commit) never gives two different signals one identifier (full injectivity, no hypothesis), a named signal keeps its identifier, issued names are never reserved words (kernel decide over the keyword table regenerated from /repo on every run, which must contain the IEEE 1364-2005 list) and stay legal identifiers; the hierarchical name dictionary is order-independent and legal. Tied to /repo by an operation-sequence differential (exhaustive small domains, random, real Migen hierarchies, end-to-end convert()) with model-independent uniqueness/legality/stability oracles; cross-process reproducibility is validated by re-running convert() under different hash seeds.",
         "Trusted: Lean kernel + the three standard axioms; theorem statements; harness + driver; Python set/dict iteration order replaced by the order-independence theorem plus the re-run check; ClockSignal resolution, IO override step and sorted emission are harness monitors, not modelled. The former collision (x, x, x_1) is kept as a negative witness of the pre-fix method together with a conservativity theorem (fixed = old outside the collision region).",
         "Lean 4 proof (inductive invariants over request lists, kernel decide over regenerated table) + operation-sequence differential correspondence"),
 "C04": ("DESIGN.md §7.C04",
         "Lean 4 theorems: for every valid/ready schedule and token sequence, from every reachable state, each stream element (and the Buffer, Delay n, BufferizeEndpoints and PipeValid>>FIFO>>PipeReady compositions) repeats a stalled source token unchanged under a contract-keeping producer (one-cycle lemmas lifted by induction over input lists, closed under composition), and under cooperative inputs hands over a token at least every K' cycles with K' explicit and tight (decreasing measures, composed through >>); packet.Status first/ongoing/last as functions of the endpoint history. Tied to /repo by exhaustive co-exploration of (netlist state, model state, pending obligations) for the C03 instance grid and co-simulation with contract-obeying producers, with model-independent stability and progress-watchdog monitors.",
         "Trusted: Lean kernel + the three standard axioms; theorem statements; harness + driver; Evaluator as netlist semantics. Gate, Shifter, Mux and Demux carry the explicit hypothesis that enable/shift/sel is held while a token waits (negative witnesses show they retract otherwise, by design); AsyncFIFO is C05, PacketFIFO C16; general progress of a>>b is proved for the front/back classes only. The check reuses the C03 instance grid (props/c03.py).",
         "Lean 4 proof (invariants + one-cycle lemmas lifted by induction, decreasing measures) + checked model/implementation correspondence"),
 "C13": ("DESIGN.md §7.C13",
         "Sixteen Lean 4 theorems by induction over arbitrary call histories and arbitrary widths, sizes, n_locs and IO tables: region disjointness on power-of-two windows and unique names after any history, allocation soundness (aligned, inside the address space, overlapping nothing, inside an IO window when uncached), decoder exactness and at most one slave per address after a successful finalize, location uniqueness and range, IO-resource conservation (granted at most once). Tied to /repo by an operation-sequence differential: 20 k (quick) / 240 k (thorough) generated histories run on the real SoCBusHandler / SoCLocHandler / ConstraintManager and through the Lean driver, decoders evaluated on the real Migen expression (exhaustively on toy widths) and end-to-end through real InterconnectShared hardware; model-independent oracles drive the failing-input search with shrinking.",
         "Trusted: Lean kernel + the three standard axioms; theorem statements; harness + driver; Migen Evaluator for decoder expressions. Two _partial hypotheses key the open findings (IO size a power of two: C13-alloc-io-nonpow2; size_pow2 >= bus word bytes: C13-decoder-subword). alloc(size=0) (non-terminating in the real code) and the state left behind by a rejected op are outside the model (the harness rolls back). Bulk finalize stubs the interconnect hardware.",
         "Lean 4 proof (invariants by induction over operation lists) + operation-sequence differential correspondence"),
 "C10": ("DESIGN.md §7.C10",
         "Lean 4 theorems over all requests, all stall schedules on the beat stream, all capability sets and all address widths >= 12 for AXIBurst2Beat modelled line by line with its register truncations: for every run in which the offered bursts are legal per AMBA AXI A3.4.1 the delivered beats are exactly the len+1 beats of the specification (address at size granularity, first/last, id), nothing lost or accepted twice, the request consumed exactly with its last beat, the 13-bit signed offset never wraps, the wrap test fires exactly on the last slot of the window. Converter AW/AR arithmetic and W/R data paths are proved for the bursts the converters support (_partial). Tied to /repo by exhaustive product co-exploration over all 32768 requests of the (addr low 7 bits, len 0..15, size 0..3, burst) box under all ready letters, random co-simulation up to len 255 / size 7, arithmetic differential and independent A3.4.1 and byte-level oracles.",
         "Trusted: Lean kernel + the three standard axioms; theorem statements (incl. the A3.4.1 transcription axiSpecAddr); harness + driver; Evaluator. The b2b theorems assume the AXI master holds its request until accepted; converter theorems are _partial (INCR, full-width, aligned, length multiple of ratio / (len+1)*ratio <= 256) with four open known findings outside those regions and Lean negative witnesses; side-bands (resp/id/user) of the converters are not modelled.",
         "Lean 4 proof (closed-form register invariant with explicit truncations, case split discharged by omega, induction over runs) + checked model/implementation correspondence"),
 "C20": ("DESIGN.md §7.C20",
         "Lean 4 theorems over arbitrary device range tables (the real tables are regenerated from the clocking classes on every run and re-checked by the kernel), all input frequencies and all request lists, with frequencies as exact rationals: for the Xilinx (S6/S7/US/US+, all speed grades), ECP5, iCE40 and NX searches a returned configuration is Valid (every output within its margin when recomputed, every divider/multiplier/VCO inside the declared range), a refusal means no Valid configuration exists in the declared grid, the returned configuration is the first valid one in iteration order, and the parameters placed on the primitive are the configuration's numbers. Tied to /repo by a Python-level differential (3 k quick / 31 k thorough requests through compute_config, do_finalize and the emitted Instance parameters vs the compiled model) plus an exact-rational oracle with brute-force grid search on refusals.",
         "Trusted: Lean kernel + the three standard axioms; theorem statements; harness + driver. ECP5 completeness (all 4 outputs used), NX PFD soundness and NX input-divider placement are _partial with kernel-checked counter-witnesses (open known findings). Intel, Gowin GW1N/GW2A and the oscillators are tied by correspondence and oracle only (no theorems); GW5A, Efinix and CologneChip are not modelled. Float rounding is replaced by exact rationals: requests within 2^-40 relative of a threshold (about 17 %) are checked by the oracle only. Vendor primitives are not modelled.",
         "Lean 4 proof (searches as nested findSome? over exact rationals, proved sound/complete/first against a search-independent Valid) + Python-level differential correspondence"),
}

REASON_PENDING = "check not built yet in this round (model/theorems in progress); no claim is made"


def main():
    props = [json.loads(l)["id"] for l in open(os.path.join(VERIF, "properties.jsonl"))]
    checks = []
    for p in props:
        if p in CLAIMED:
            ref, text, note, tech = CLAIMED[p]
            checks.append({
                "property_id": p,
                "quick_cmd": "./check %s --tier quick" % p,
                "thorough_cmd": "./check %s --tier thorough" % p,
                "evidence_file": "evidence/%s.json" % p,
                "replay_cmd_template": "./check %s --replay {path}" % p,
                "engine": "lean4+harness",
                "level_claimed": {"category": "proof", "text": text, "design_ref": ref},
                "level_note": note,
                "technique": tech,
            })
    man = {
        "version": 1,
        "setup_cmd": "./check --setup",
        "hooks": {"guard": "LITEX_VERIF",
                  "enable": "export LITEX_VERIF=1 (set by ./check; no source hooks are needed: the harness observes public attributes and drives the repository's own simulator)",
                  "baseline_off_cmd": BASELINE, "source_commits": [], "add_only": True},
        "engines": [{"name": "lean4+harness", "path": "lean/ + harness/", "serves_properties": sorted(CLAIMED),
                     "kind_free_text": "Lean 4 models and theorems (lake project lean/), compiled line-protocol drivers, Python harness driving the real LiteX code (litex.gen.sim.core.Evaluator / direct calls) for the model-implementation correspondence and failing-input search"}],
        "checks": checks,
        "notes": "Repairs of genuine defects are unguarded 'fix:' commits in /repo listed in known_findings.json (status fixed).",
        "not_applicable": [{"property_id": p, "reason": REASON_PENDING} for p in props if p not in CLAIMED],
    }
    with open(os.path.join(VERIF, "MANIFEST.json"), "w") as f:
        json.dump(man, f, indent=1)
    print("claimed:", sorted(CLAIMED))


main()
