"""Instances and monitors for one-sink/one-source stream elements (C03/C04/C16/C17 share this)."""
import itertools
from netlist import Netlist


def flat_payload(ep):
    """Signals of payload then param, in layout order."""
    sigs = [s for s, _ in ep.payload.iter_flat()] + [s for s, _ in ep.param.iter_flat()]
    return sigs


class PackedField:
    """Several signals presented as one number (first signal in the low bits)."""
    def __init__(self, sigs):
        self.sigs = sigs
        self.widths = [len(s) for s in sigs]
        self.width = sum(self.widths)


class StreamInst:
    """One-sink/one-source element.  Protocol order:
       inputs : sink.valid, sink.data*, sink.first, sink.last, source.ready
       outputs: sink.ready, source.valid, source.data*, source.first, source.last
       (*) all payload+param signals packed into one number, first field lowest."""

    def __init__(self, name, module, lean_open, data_values=(0, 1), sink=None, source=None, extra_inputs=(),
                 extra_alphabet=((),), garbage=True, spec="identity", capacity=None, clocks=("sys",),
                 tokens=None):
        self.name = name
        self.module = module
        self.lean_open = lean_open
        self.sink = sink if sink is not None else module.sink
        self.source = source if source is not None else module.source
        self.netlist = Netlist(module, clocks=clocks)
        self.sdata = PackedField(flat_payload(self.sink))
        self.odata = PackedField(flat_payload(self.source))
        self.extra_inputs = list(extra_inputs)
        self.data_values = list(data_values)
        self.spec = spec
        self.capacity = capacity
        # qualifiers: source data/first/last compared only when source.valid
        self.qual = [None, None, 1, 1, 1]
        letters = []
        if tokens is None:
            tokens = [(d, f, l) for d in self.data_values for f in (0, 1) for l in (0, 1)]
        self.tokens = tokens
        for ex in extra_alphabet:
            for v in (0, 1):
                for r in (0, 1):
                    if v or garbage:
                        for (d, f, l) in tokens:
                            letters.append((v, d, f, l, r) + tuple(ex))
                    else:
                        letters.append((0, 0, 0, 0, r) + tuple(ex))
        self.alphabet = letters
        self.inputs = None  # custom impl_step below
        self.outputs = None

    # explore.impl_step is overridden through these two hooks
    def apply(self, letter):
        n = self.netlist
        v, d, f, l, r = letter[:5]
        n.set(self.sink.valid, v)
        sh = 0
        for s, w in zip(self.sdata.sigs, self.sdata.widths):
            n.set(s, (d >> sh) & ((1 << w) - 1))
            sh += w
        n.set(self.sink.first, f)
        n.set(self.sink.last, l)
        n.set(self.source.ready, r)
        for s, val in zip(self.extra_inputs, letter[5:]):
            n.set(s, val)
        n.settle()

    def sample(self):
        n = self.netlist
        d = 0
        sh = 0
        for s, w in zip(self.odata.sigs, self.odata.widths):
            d |= n.getu(s) << sh
            sh += w
        return [n.getu(self.sink.ready), n.getu(self.source.valid), d, n.getu(self.source.first),
                n.getu(self.source.last)]

    def nontrivial(self, letter, outs):
        return (letter[0] and outs[0]) or (outs[1] and letter[4])

    def gen(self, rng, t):
        # stall-probability regimes change every 64 cycles
        regime = (t // 64) % 5
        pv = (0.5, 0.9, 0.1, 1.0, 0.5)[regime]
        pr = (0.5, 0.1, 0.9, 1.0, 0.2)[regime]
        v = 1 if rng.random() < pv else 0
        r = 1 if rng.random() < pr else 0
        dmax = (1 << self.sdata.width) - 1
        d = rng.choice(self.data_values) if rng.random() < 0.3 else rng.randint(0, dmax)
        f = 1 if rng.random() < 0.2 else 0
        l = 1 if rng.random() < 0.2 else 0
        return (v, d, f, l, r) + tuple(rng.randint(0, (1 << len(s)) - 1) for s in self.extra_inputs)

    def monitor(self):
        return IdentityScoreboard(self.capacity) if self.spec == "identity" else self.spec()


class HoldingProducer:
    """Wraps a letter generator so that the producer obeys the stream contract (holds valid and its token
    until accepted).  Used for C04 stability checks."""
    def __init__(self, inst):
        self.inst = inst
        self.pending = None

    def gen(self, rng, t):
        l = list(self.inst.gen(rng, t))
        if self.pending is not None:
            l[0:4] = self.pending
        return tuple(l)

    def observe(self, letter, outs):
        if letter[0] and not outs[0]:
            self.pending = list(letter[0:4])
        else:
            self.pending = None


class IdentityScoreboard:
    """Property oracle for elements whose documented function is the identity on tokens:
    every delivered token must be the oldest accepted-and-not-yet-delivered token."""
    def __init__(self, capacity=None):
        self.q = []
        self.capacity = capacity

    def observe(self, letter, outs):
        v, d, f, l, r = letter[:5]
        sready, ovalid, od, of, ol = outs[:5]
        msg = None
        # delivery is checked against tokens accepted in earlier cycles or (comb path) this very cycle
        acc = (v and sready)
        if acc:
            self.q.append((d, f, l))
        if ovalid and r:
            if not self.q:
                msg = "delivered a token that was never accepted: %r" % ((od, of, ol),)
            else:
                exp = self.q.pop(0)
                if exp != (od, of, ol):
                    msg = "delivered %r, expected %r (loss/dup/reorder/alteration)" % ((od, of, ol), exp)
        if msg is None and self.capacity is not None and len(self.q) > self.capacity:
            msg = "more than %d tokens in flight" % self.capacity
        return msg
