"""Talks to a compiled Lean driver (lean/.lake/build/bin/drv_cXX) over the line protocol of
LitexModel/DriverLib.lean.  Requests are batched: write N lines + 'flush', then read N answers."""
import os, subprocess

VERIF = os.path.dirname(os.path.dirname(os.path.abspath(__file__)))
LEAN_DIR = os.path.join(VERIF, "lean")


class LeanError(Exception):
    pass


class LeanDriver:
    def __init__(self, prop):
        exe = os.path.join(LEAN_DIR, ".lake", "build", "bin", "drv_" + prop.lower())
        if not os.path.exists(exe):
            raise LeanError("driver not built: " + exe)
        self.p = subprocess.Popen([exe], stdin=subprocess.PIPE, stdout=subprocess.PIPE,
                                  text=True, bufsize=1 << 20)
        self.in_session = False

    def _send(self, lines):
        self.p.stdin.write("\n".join(lines) + "\nflush\n")
        self.p.stdin.flush()

    def _recv(self, n):
        out = []
        for _ in range(n):
            l = self.p.stdout.readline()
            if not l:
                raise LeanError("driver died")
            out.append(l.rstrip("\n"))
        return out

    def batch(self, lines):
        """Send requests in chunks small enough (< pipe capacity) that our write can never block while the
        driver is itself blocked writing answers."""
        if not lines:
            return []
        res = []
        chunk, size = [], 0
        for l in lines:
            if chunk and size + len(l) + 1 > 30000:
                self._send(chunk)
                res += self._recv(len(chunk))
                chunk, size = [], 0
            chunk.append(l)
            size += len(l) + 1
        if chunk:
            self._send(chunk)
            res += self._recv(len(chunk))
        return res

    def open(self, spec):
        if self.in_session:
            self.close_session()
        r = self.batch(["open " + spec])[0]
        if r != "ok":
            raise LeanError("open %r -> %r" % (spec, r))
        self.in_session = True

    def close_session(self):
        if self.in_session:
            r = self.batch(["close"])[0]
            self.in_session = False

    def step_batch(self, reqs):
        """reqs: list of (sid, [ints]) -> list of (sid', [ints])"""
        lines = ["step %d %s" % (sid, " ".join(map(str, ins))) for sid, ins in reqs]
        out = []
        for l in self.batch(lines):
            ws = l.split()
            if not ws or not ws[0].isdigit():
                raise LeanError("step -> %r" % l)
            out.append((int(ws[0]), [int(w) for w in ws[1:]]))
        return out

    def run(self, cycles):
        """cycles: list of [ints] -> list of [ints] (whole trace from reset)"""
        if not cycles:
            return []
        line = "run " + " ; ".join(" ".join(map(str, c)) for c in cycles)
        r = self.batch([line])[0]
        if r.startswith("bad"):
            raise LeanError("run -> %r" % r)
        return [[int(w) for w in part.split()] for part in r.split(";")]

    def call(self, fn, *args):
        if self.in_session:
            self.close_session()
        r = self.batch(["call %s %s" % (fn, " ".join(map(str, args)))])[0]
        return r

    def call_batch(self, lines):
        if self.in_session:
            self.close_session()
        return self.batch(["call " + l for l in lines])

    def quit(self):
        try:
            self.p.stdin.write("quit\n")
            self.p.stdin.flush()
            self.p.wait(timeout=5)
        except Exception:
            self.p.kill()
