"""Model/implementation correspondence engines.

A. `coexplore`: exhaustive breadth-first exploration of the *product* of implementation states (opaque
   register snapshots of the real netlist) and model states (ids handed out by the Lean driver), for every
   letter of a finite input alphabet.  Port-level outputs are compared on every transition.
B. `cosim`: seeded random lock-step co-simulation from reset for large parameterisations.

An *instance* is any object with:
   name         : str
   lean_open    : str                      -- argument of the driver's `open`
   netlist      : Netlist                  -- real code, built by the instance
   inputs       : [Signal]                 -- driven by the harness, in protocol order
   outputs      : [Signal]                 -- compared, in protocol order
   qual         : [int|None]               -- outputs[k] is compared only if outputs[qual[k]] == 1
   clocks(letter) -> tuple of clock domains ticking with this letter (default ("sys",))
   alphabet     : [tuple]                  -- letters for A (values for `inputs`, plus optional extras)
   gen(rng, t)  -> tuple                   -- letter generator for B
   nontrivial(letter, outs) -> bool        -- e.g. a handshake happened
   monitor()    -> object with .observe(letter, outs) -> None | str   (property oracle on the real code)
"""
import time
from collections import deque


class Disagreement:
    def __init__(self, inst, trace, cycle, impl_outs, model_outs, kind="correspondence"):
        self.inst = inst            # the instance object (None in the parent process of a parallel run)
        self.inst_name = inst.name if inst is not None else None
        self.lean_open = inst.lean_open if inst is not None else None
        self.job = None
        self.trace = trace          # list of letters from reset (inclusive of the disagreeing cycle)
        self.cycle = cycle
        self.impl_outs = impl_outs
        self.model_outs = model_outs
        self.kind = kind

    def to_json(self):
        return {"instance": self.inst_name, "lean_open": self.lean_open, "kind": self.kind,
                "trace": [list(l) for l in self.trace], "cycle": self.cycle,
                "impl_outs": self.impl_outs, "model_outs": self.model_outs}


def _masked_equal(inst, a, b):
    """Compare impl outputs `a` with model outputs `b`; outputs[k] with a qualifier are compared only when the
    qualifier (another output, itself compared unconditionally) is 1 on both sides."""
    if b is None or len(a) != len(b):
        return False
    q = inst.qual
    for k in range(len(a)):
        qk = q[k]
        if qk is None:
            pass
        elif callable(qk):
            if not qk(a):
                continue
        elif a[qk] != 1 or b[qk] != 1:
            continue
        if a[k] != b[k]:
            return False
    return True


def impl_step(inst, letter):
    """Apply one letter to the real netlist: returns outputs sampled before the edge."""
    n = inst.netlist
    if hasattr(inst, "apply"):
        inst.apply(letter)
        outs = inst.sample()
    else:
        for k, s in enumerate(inst.inputs):
            n.set(s, letter[k])
        n.settle()
        outs = [n.getu(s) for s in inst.outputs]
    n.tick(inst.clocks(letter) if hasattr(inst, "clocks") and callable(inst.clocks) else ("sys",))
    return outs


def coexplore(inst, lean, cov, max_states=200000, deadline=None):
    """Returns list of Disagreement (stops at the first few)."""
    n = inst.netlist
    t_start = time.time()
    lean.open(inst.lean_open)
    root_snap = n.snapshot()
    root_key = (n.state_key(), 0)
    seen = {root_key: (None, None)}   # pair -> (parent pair, letter)
    frontier = deque([(root_snap, 0, root_key)])
    alphabet = inst.alphabet
    transitions = 0
    nontriv = 0
    disagreements = []
    exhaustive = True
    mon_fail = None
    while frontier:
        if deadline is not None and time.time() > deadline:
            exhaustive = False
            break
        if len(seen) > max_states:
            exhaustive = False
            break
        batch = [frontier.popleft() for _ in range(min(len(frontier), 512))]
        reqs = []
        impl_res = []
        for snap, sid, pair in batch:
            for letter in alphabet:
                n.restore(snap)
                outs = impl_step(inst, letter)
                impl_res.append((pair, letter, outs, n.state_key(), n.snapshot()))
                reqs.append((sid, inst.model_letter(letter) if hasattr(inst, "model_letter") else letter))
        model_res = lean.step_batch(reqs)
        for (pair, letter, outs, key2, snap2), (sid2, mouts) in zip(impl_res, model_res):
            transitions += 1
            if inst.nontrivial(letter, outs):
                nontriv += 1
            if not _masked_equal(inst, outs, mouts):
                trace = _path(seen, pair) + [letter]
                disagreements.append(Disagreement(inst, trace, len(trace) - 1, outs, mouts))
                if len(disagreements) >= 3:
                    break
                continue
            p2 = (key2, sid2)
            if p2 not in seen:
                seen[p2] = (pair, letter)
                frontier.append((snap2, sid2, p2))
        if len(disagreements) >= 3:
            exhaustive = False
            break
    lean.close_session()
    cov.add_instance(inst.name, states=len(seen), transitions=transitions, nontrivial=nontriv,
                     exhaustive=exhaustive and not disagreements, mode="A")
    cov.instances[-1]["wall_s"] = round(time.time() - t_start, 1)
    if seen and len(cov.samples) < 6:
        # one sample path: the deepest discovered pair
        last = next(reversed(seen))
        cov.samples.append({"instance": inst.name, "mode": "A", "path_to_deepest_state":
                            [list(l) for l in _path(seen, last)][:40]})
    return disagreements


def _path(seen, pair):
    path = []
    while True:
        parent, letter = seen[pair]
        if parent is None:
            break
        path.append(letter)
        pair = parent
    path.reverse()
    return path


def cosim(inst, lean, cov, rng, cycles, runs=1, with_monitor=True):
    """Random lock-step co-simulation from reset.  Returns list of Disagreement."""
    n = inst.netlist
    root = n.snapshot()
    out = []
    for run in range(runs):
        n.restore(root)
        lean.open(inst.lean_open)
        letters = []
        impl_outs = []
        mon = inst.monitor() if (with_monitor and hasattr(inst, "monitor")) else None
        monmsg = None
        nontriv = 0
        distinct = set()
        for t in range(cycles):
            letter = inst.gen(rng, t)
            outs = impl_step(inst, letter)
            letters.append(letter)
            impl_outs.append(outs)
            if inst.nontrivial(letter, outs):
                nontriv += 1
                distinct.add((n.state_key(), tuple(letter)))
            if mon is not None and monmsg is None:
                m = mon.observe(letter, outs)
                if m:
                    monmsg = (t, m)
        mletters = [inst.model_letter(l) for l in letters] if hasattr(inst, "model_letter") else letters
        model_outs = lean.run(mletters)
        lean.close_session()
        bad = None
        for t in range(cycles):
            if not _masked_equal(inst, impl_outs[t], model_outs[t]):
                bad = t
                break
        cov.add_instance(inst.name, states=0, transitions=cycles, nontrivial=len(distinct),
                         exhaustive=False, mode="B")
        if len(cov.samples) < 6:
            cov.samples.append({"instance": inst.name, "mode": "B",
                                "first_cycles_in": [list(l) for l in letters[:12]],
                                "first_cycles_out": impl_outs[:12]})
        if bad is not None:
            out.append(Disagreement(inst, letters[:bad + 1], bad, impl_outs[bad], model_outs[bad]))
        if monmsg is not None:
            t, m = monmsg
            d = Disagreement(inst, letters[:t + 1], t, impl_outs[t], None, kind="monitor:" + m)
            out.append(d)
        if out:
            break
    n.restore(root)
    return out


def replay_with_monitor(inst, trace):
    """Run a trace on the real code with the property monitor armed; returns (cycle, msg) or None."""
    n = inst.netlist
    root = n.snapshot()
    mon = inst.monitor()
    res = None
    for t, letter in enumerate(trace):
        outs = impl_step(inst, letter)
        m = mon.observe(letter, outs)
        if m:
            res = (t, m)
            break
    n.restore(root)
    return res


def search_failing_input(inst, rng, seeds, ext_len=40, tries=300, deadline=None):
    """Failing-input search on the real code: extend each seed trace (typically the disagreement traces,
    plus the empty trace) with random continuations and watch the property monitor."""
    if not hasattr(inst, "monitor"):
        return None
    for seed in seeds:
        r = replay_with_monitor(inst, seed)
        if r:
            return seed[:r[0] + 1], r[1]
    for k in range(tries):
        if deadline is not None and time.time() > deadline:
            break
        seed = seeds[k % len(seeds)] if seeds else []
        ext = [inst.gen(rng, t) for t in range(ext_len if k % 3 else ext_len * 5)]
        tr = list(seed) + ext
        r = replay_with_monitor(inst, tr)
        if r:
            return shrink(inst, tr[:r[0] + 1]), r[1]
    return None


def shrink(inst, trace):
    """Delta-debug a failing trace: drop cycles while the monitor still fires."""
    cur = list(trace)
    changed = True
    budget = 400
    while changed and budget > 0:
        changed = False
        k = 0
        while k < len(cur) and budget > 0:
            cand = cur[:k] + cur[k + 1:]
            budget -= 1
            r = replay_with_monitor(inst, cand)
            if r:
                cur = cand[:r[0] + 1]
                changed = True
            else:
                k += 1
    return cur


# ---------------------------------------------------------------------------------------------------------
# Parallel job runner: each job builds its instance inside a forked worker with its own Lean driver.

_JOBS = None
_CTXINFO = None


class Job:
    """mode 'A' (coexplore) or 'B' (cosim); `make` builds the instance (inside the worker)."""
    def __init__(self, mode, make, **kw):
        self.mode = mode
        self.make = make
        self.kw = kw


def _worker(idx):
    import random
    from runner import Coverage
    from leanproc import LeanDriver
    prop, seed, tier = _CTXINFO
    job = _JOBS[idx]
    cov = Coverage()
    lean = LeanDriver(prop)
    try:
        inst = job.make()
        if job.mode == "A":
            dis = coexplore(inst, lean, cov, **job.kw)
        else:
            rng = random.Random(seed * 7919 + idx)
            dis = cosim(inst, lean, cov, rng, **job.kw)
    finally:
        lean.quit()
    return idx, cov.__dict__, [(d.trace, d.cycle, d.impl_outs, d.model_outs, d.kind, d.inst_name, d.lean_open)
                               for d in dis]


def run_jobs(ctx, jobs, procs=None):
    """Run jobs in parallel; merge coverage into ctx.cov; return (disagreements, job indexes with some)."""
    global _JOBS, _CTXINFO
    import multiprocessing as mp
    import os
    _JOBS = jobs
    _CTXINFO = (ctx.prop, ctx.seed, ctx.tier)
    procs = procs or min(len(jobs), int(os.environ.get("VERIF_PROCS", "0")) or (os.cpu_count() or 4))
    results = []
    if procs <= 1 or len(jobs) <= 1:
        results = [_worker(i) for i in range(len(jobs))]
    else:
        with mp.get_context("fork").Pool(procs) as pool:
            results = pool.map(_worker, range(len(jobs)), chunksize=1)
    dis = []
    bad_jobs = []
    for idx, covd, ds in sorted(results):
        ctx.cov.instances += covd["instances"]
        for s in covd["samples"]:
            if len(ctx.cov.samples) < 8:
                ctx.cov.samples.append(s)
        ctx.cov.evaluations += covd["evaluations"]
        ctx.cov.nontrivial += covd["nontrivial"]
        ctx.cov.states += covd["states"]
        ctx.cov.transitions += covd["transitions"]
        for k, v in covd["hist"].items():
            ctx.cov.count(k, v)
        ctx.cov.notes += covd["notes"]
        if ds:
            bad_jobs.append(idx)
            for (trace, cycle, io, mo, kind, iname, lopen) in ds:
                d = Disagreement(None, trace, cycle, io, mo, kind)
                d.inst_name, d.lean_open, d.job = iname, lopen, idx
                dis.append(d)
    return dis, bad_jobs


def generic_search(ctx, disagreements, all_jobs, letter_format, quick_s=60, thorough_s=600):
    """Failing-input search used by machine-style properties: (1) a monitor that already fired during
    co-simulation, (2) disagreement traces replayed and randomly extended with the monitor armed,
    (3) random runs of every instance with the monitor armed."""
    import time as _t
    deadline = _t.time() + (quick_s if ctx.tier == "quick" else thorough_s)
    for d in disagreements:
        if getattr(d, "kind", "").startswith("monitor:"):
            return {"instance": d.inst_name, "trace": [list(l) for l in d.trace], "monitor": d.kind[8:],
                    "letter_format": letter_format}
    by_job = {}
    for d in disagreements:
        by_job.setdefault(getattr(d, "job", None), []).append(d)
    order = [j for j in by_job if j is not None] + [j for j in range(len(all_jobs)) if j not in by_job]
    for j in order:
        if _t.time() > deadline:
            break
        try:
            inst = all_jobs[j].make()
        except Exception:
            continue
        if not hasattr(inst, "monitor"):
            continue
        seeds = [d.trace for d in by_job.get(j, [])] or [[]]
        r = search_failing_input(inst, ctx.rng, seeds, deadline=deadline,
                                 tries=300 if j in by_job else 40)
        if r:
            trace, msg = r
            return {"instance": inst.name, "trace": [list(l) for l in trace], "monitor": msg,
                    "letter_format": letter_format}
    return None


def generic_replay(ctx, payload, all_jobs):
    """`./check Cxx --replay FILE`: re-execute the failing input of a replay file on the real code with the
    property monitor armed.  Exit 1 (and a VIOLATION line) if the monitor still fires."""
    fi = payload.get("failing_input") or {}
    name = fi.get("instance")
    trace = [tuple(l) for l in fi.get("trace", [])]
    if not name:
        print("replay file carries no failing input (no-failing-input-found); disagreements were:")
        for d in payload.get("disagreements", [])[:3]:
            print("  ", d)
        return 1
    for job in all_jobs:
        inst = job.make()
        if inst.name == name:
            r = replay_with_monitor(inst, trace)
            if r:
                print("cycle %d: %s" % r)
                print("VIOLATION property=%s replay=(replayed)" % ctx.prop)
                return 1
            print("trace no longer violates the property on the current tree")
            return 0
    print("instance %r not found" % name)
    return 2
