"""C05 — clock-domain crossings never corrupt, drop, duplicate or reorder data."""
import os, json, glob
from explore import Job, run_jobs, generic_search, generic_replay, Disagreement, impl_step, _masked_equal
import c05lib
from c05lib import (UartBoneInst, AFifoRst2Inst, AFifoSyncRstInst, PulseGapInst, MonitorInst, AFifoTokInst, AFifoInst, BusSyncInst, BusSync1Inst, PulseSyncInst, AxiLiteCdcInst, AFifoRstInst, UartFifoInst,
                    same_domain_inst, run_jobs_safe, CrossScoreboard)
from litex.soc.interconnect import stream

L1 = [("data", 1)]
L8 = [("data", 8)]
L32 = [("data", 32)]
FMT = "per instance, see c05lib: AFifoInst.FMT / BusSyncInst.FMT / PulseSyncInst.FMT / AxiLiteCdcInst.FMT"
TA, TB = 0, 7       # two fifo words that differ in every field (data, first, last); 0 is the memory reset value
CORPUS = os.path.join(os.path.dirname(os.path.dirname(os.path.dirname(os.path.abspath(__file__)))), "corpus", "C05")


def _cdc(layout, depth, buffered=False, cd_from="usb", cd_to="eth"):
    return stream.ClockDomainCrossing(layout, cd_from=cd_from, cd_to=cd_to, depth=depth, buffered=buffered)


def _uart_fifo(depth, sink_cd, source_cd):
    from litex.soc.cores import uart
    return uart._get_uart_fifo(depth, sink_cd=sink_cd, source_cd=source_cd)


L64 = [("data", 64)]
WIDE_P = [("data", 128), ("keep", 16)]      # payload wider than 32/64 bits ...
WIDE_Q = [("id", 5)]                        # ... plus a param field (packed into the fifo word after the payload)


def _wide_fifo(depth, buffered):
    return stream.AsyncFIFO(stream.EndpointDescription(WIDE_P, WIDE_Q), depth, buffered=buffered)


def jobs(tier):
    quick = tier == "quick"
    J = []
    A = lambda mk, **kw: J.append(Job("A", mk, max_states=60000 if quick else 3000000, **kw))

    def B(mk, cycles=6000, **kw):
        J.append(Job("B", mk, cycles=cycles if quick else cycles * 6, runs=1 if quick else 3, **kw))
    alt = dict(tokens=(TA, TB), alternate=True, layout=L1)
    # -- A: complete reachable product, all interleavings {w, r, both} x handshakes x resolutions ------------
    A(lambda: AFifoInst("AsyncFIFO(4)/1b/alt", stream.AsyncFIFO(L1, 4), 2, **alt))
    A(lambda: AFifoInst("AsyncFIFO(4,buffered)/1b/alt", stream.AsyncFIFO(L1, 4, buffered=True), 2, buffered=True, **alt))
    # default depth (depth=None must mean 4), renamed domains
    A(lambda: AFifoInst("ClockDomainCrossing(depth=None,usb->eth)/1b/alt", _cdc(L1, None), 2, cd_w="usb", cd_r="eth",
                        **alt))
    # same-domain crossings: a wire / a Buffer, also in a renamed domain
    A(lambda: same_domain_inst("ClockDomainCrossing(sys->sys)/1b", L1, "sys", False))
    A(lambda: same_domain_inst("ClockDomainCrossing(sys->sys,buffered)/1b", L1, "sys", True))
    A(lambda: same_domain_inst("ClockDomainCrossing(usb->usb,buffered)/1b", L1, "usb", True))
    A(lambda: AFifoTokInst("AsyncFIFO(4)/1b payload, 1b param/alt",
                           stream.AsyncFIFO(stream.EndpointDescription(L1, [("p", 1)]), 4), 2, L1, [("p", 1)],
                           tokens=(0, 15), alternate=True))
    A(lambda: BusSyncInst("BusSynchronizer(2,t=8)/i=3", 2, 8, values=(3,)))
    A(lambda: BusSyncInst("BusSynchronizer(2,t=16)/i=3", 2, 16, values=(3,)))
    A(lambda: BusSyncInst("BusSynchronizer(3,t=5)/i=7", 3, 5, values=(7,)))
    A(lambda: MonitorInst("Monitor(count_width=1, clock_domain=phy)", 1))
    A(lambda: BusSync1Inst("BusSynchronizer(1)"))
    A(lambda: PulseSyncInst("PulseSynchronizer"))
    if not quick:
        A(lambda: AFifoInst("ClockDomainCrossing(4,buffered,usb->eth)/1b/alt", _cdc(L1, 4, True), 2, buffered=True,
                            cd_w="usb", cd_r="eth", **alt))
        A(lambda: AFifoInst("AsyncFIFO(4)/1b/free", stream.AsyncFIFO(L1, 4), 2, tokens=(TA, TB), layout=L1))
        A(lambda: AFifoInst("AsyncFIFO(4,buffered)/1b/free/eager", stream.AsyncFIFO(L1, 4, buffered=True), 2,
                            buffered=True, tokens=(TA, TB), eager=True, layout=L1))
        A(lambda: AFifoInst("ClockDomainCrossing(8,usb->eth)/1b/alt", _cdc(L1, 8), 3, cd_w="usb", cd_r="eth", **alt))
        A(lambda: AFifoInst("ClockDomainCrossing(8,buffered,usb->eth)/1b/alt/eager", _cdc(L1, 8, True), 3,
                            buffered=True, cd_w="usb", cd_r="eth", eager=True, **alt))
        A(lambda: BusSyncInst("BusSynchronizer(2,t=8)/i=0,3", 2, 8, values=(0, 3)))
        A(lambda: BusSyncInst("BusSynchronizer(2,t=16)/i=0,3", 2, 16, values=(0, 3)))
    # -- B: realistic sizes, clock ratios 1:1 .. 1:7 both ways with drifting phase ---------------------------
    B(lambda: AFifoInst("AsyncFIFO(depth=None)/8b", stream.AsyncFIFO(L8), 2, layout=L8))
    B(lambda: AFifoInst("AsyncFIFO(8)/8b", stream.AsyncFIFO(L8, 8), 3, layout=L8))
    B(lambda: AFifoInst("AsyncFIFO(16,buffered)/32b", stream.AsyncFIFO(L32, 16, buffered=True), 4, buffered=True,
                        layout=L32))
    # endpoint token field by field (payload AND param through _FIFOWrapper): model `afifo_tok`
    B(lambda: AFifoTokInst("AsyncFIFO(8,buffered)/128b+16b payload, 5b param", _wide_fifo(8, True), 3, WIDE_P, WIDE_Q,
                           buffered=True), cycles=4000)
    B(lambda: AFifoTokInst("AsyncFIFO(4)/128b+16b payload, 5b param", _wide_fifo(4, False), 2, WIDE_P, WIDE_Q),
      cycles=4000)
    B(lambda: AFifoTokInst("ClockDomainCrossing(16,usb->eth)/8b payload, 3b+4b param",
                           stream.ClockDomainCrossing(stream.EndpointDescription(L8, [("id", 3), ("dest", 4)]),
                                                      cd_from="usb", cd_to="eth", depth=16), 4, L8,
                           [("id", 3), ("dest", 4)], cd_w="usb", cd_r="eth"), cycles=4000)
    B(lambda: AFifoInst("ClockDomainCrossing(64,sys->phy)/32b", _cdc(L32, 64, cd_from="sys", cd_to="phy"), 6,
                        cd_w="sys", cd_r="phy", layout=L32))
    B(lambda: AFifoInst("ClockDomainCrossing(32,buffered)/8b", _cdc(L8, 32, True), 5, buffered=True,
                        cd_w="usb", cd_r="eth", layout=L8))
    B(lambda: AFifoInst("ClockDomainCrossing(128,eth->sys)/64b", _cdc(L64, 128, cd_from="eth", cd_to="sys"), 7,
                        cd_w="eth", cd_r="sys", layout=L64))
    # the UART FIFO pair: through the selection helper, and through the UART class the way SoCs get it
    B(lambda: AFifoInst("uart._get_uart_fifo(16, sys->phy)", _uart_fifo(16, "sys", "phy"), 4, cd_w="sys", cd_r="phy",
                        layout=L8))
    B(lambda: AFifoInst("uart._get_uart_fifo(16, phy->sys)", _uart_fifo(16, "phy", "sys"), 4, cd_w="phy", cd_r="sys",
                        layout=L8))
    B(lambda: UartFifoInst("UART(phy_cd=phy, depth 16): CSR -> tx fifo -> phy", "tx", 4), cycles=4000)
    B(lambda: UartFifoInst("UART(phy_cd=phy, depth 8): phy -> rx fifo -> CSR", "rx", 3), cycles=4000)
    B(lambda: AxiLiteCdcInst("AXILiteClockDomainCrossing(sys->phy)/32b data, 32b addr"), cycles=900)
    B(lambda: AxiLiteCdcInst("AXILiteClockDomainCrossing(phy->sys)/64b data, 40b addr", cd_from="phy", cd_to="sys",
                             data_width=64, address_width=40), cycles=600)
    # common-reset variant: reset pulses of either domain; long pulses (flush) with the scoreboard armed,
    # arbitrary short pulses for model/code agreement only
    B(lambda: AFifoRstInst("ClockDomainCrossing(8,common_rst)/8b/long resets", L8, 3))
    B(lambda: AFifoRstInst("ClockDomainCrossing(16,buffered,common_rst)/8b/long resets", L8, 4, buffered=True))
    B(lambda: AFifoRstInst("ClockDomainCrossing(8,common_rst)/8b/short resets", L8, 3, long_resets=False))
    B(lambda: AFifoRstInst("ClockDomainCrossing(8,buffered,common_rst)/8b/short resets", L8, 3, buffered=True,
                           long_resets=False))
    # per-domain resets (plain crossing, the two user resets independent): model/code agreement
    B(lambda: AFifoRst2Inst("ClockDomainCrossing(8)/8b/independent domain resets", L8, 3), cycles=4000)
    B(lambda: AFifoRst2Inst("ClockDomainCrossing(4,buffered)/8b/independent domain resets", L8, 2, buffered=True),
      cycles=4000)
    # common reset through the REAL reset synchronisers (vendor FDPE pair interpreted): pulses of any length
    B(lambda: AFifoSyncRstInst("ClockDomainCrossing(8,common_rst)/8b/real reset synchronisers", L8, 3), cycles=5000)
    B(lambda: AFifoSyncRstInst("ClockDomainCrossing(4,buffered,common_rst)/8b/real reset synchronisers", L8, 2,
                               buffered=True), cycles=5000)
    # BusSynchronizer: clocks with drift ratio <= 3 (the property's quantifier), coherence + convergence monitors
    B(lambda: BusSyncInst("BusSynchronizer(8,t=128)/R<=3", 8, 128, ratio_max=3), cycles=20000)
    B(lambda: BusSyncInst("BusSynchronizer(5,t=19)/R<=3", 5, 19, ratio_max=3), cycles=20000)
    B(lambda: BusSyncInst("BusSynchronizer(32,t=11)/R<=1", 32, 11, ratio_max=1), cycles=20000)
    B(lambda: BusSyncInst("BusSynchronizer(64,t=128)/R<=3", 64, 128, ratio_max=3), cycles=12000)
    B(lambda: BusSyncInst("BusSynchronizer(3,t=15)/R<=2", 3, 15, ratio_max=2), cycles=12000)
    B(lambda: BusSyncInst("BusSynchronizer(2,t=19)/R<=3", 2, 19, ratio_max=3), cycles=12000)
    # free-running clocks with a fixed phase offset, output clock faster than the input clock
    B(lambda: BusSyncInst("BusSynchronizer(8,t=128)/i:o=30:10 phase 1", 8, 128, pattern=(30, 10, 1)), cycles=12000)
    B(lambda: BusSyncInst("BusSynchronizer(4,t=19)/i:o=14:10 phase 2", 4, 19, pattern=(14, 10, 2)), cycles=12000)
    B(lambda: BusSyncInst("BusSynchronizer(8,t=19)/i:o=10:30 phase 7", 8, 19, pattern=(10, 30, 7)), cycles=12000)
    # the default time-out at the limit of bussync_coherent_default: i clock 30 times faster than the o clock
    B(lambda: BusSyncInst("BusSynchronizer(8,t=128)/i:o=10:300 phase 7 (R=30)", 8, 128, ratio_max=30,
                          pattern=(10, 300, 7)), cycles=8000)
    B(lambda: MonitorInst("Monitor(count_width=4, clock_domain=phy)", 4), cycles=15000)
    B(lambda: MonitorInst("Monitor(count_width=32, clock_domain=phy)", 32), cycles=8000)
    B(lambda: PulseSyncInst("PulseSynchronizer/spaced pulses"), cycles=20000)
    # minimum spacing allowed by pulsesync_spacing under drift bound R
    B(lambda: PulseGapInst("PulseSynchronizer/R=1, period R+2", 1), cycles=8000)
    B(lambda: PulseGapInst("PulseSynchronizer/R=3, period R+2", 3), cycles=8000)
    return J


def corner_checks(ctx):
    """Constructor corners named by the quantifier ("depths"): only powers of two >= 4 are legal depths.  Anything
    else must be refused; if a changed constructor builds such a FIFO anyway it is driven with the scoreboard."""
    import random
    dis = []
    for what, mk in [("AsyncFIFO(depth=%d)" % d, (lambda d=d: stream.AsyncFIFO(L8, d))) for d in (2, 3, 5, 6, 12)] + \
                    [("ClockDomainCrossing(depth=%d)" % d, (lambda d=d: _cdc(L8, d))) for d in (3, 6)]:
        try:
            m = mk()
        except (AssertionError, ValueError):
            ctx.cov.add_cases("corner:" + what + " refused", 1, 1, exhaustive=True)
            continue
        depth = int(what.split("=")[1].rstrip(")"))
        kk = max(2, (depth - 1).bit_length())
        cdw, cdr = ("usb", "eth") if what.startswith("Clock") else ("write", "read")
        inst = AFifoInst(what + " (accepted by the constructor)", m, kk, cd_w=cdw, cd_r=cdr, layout=L8)
        mon = CrossScoreboard(1 << kk)
        rng = random.Random(ctx.seed + depth)
        trace = []
        for t in range(3000):
            l = inst.gen(rng, t)
            o = impl_step(inst, l)
            trace.append(l)
            msg = mon.observe(l, o)
            if msg:
                dis.append(Disagreement(inst, trace, t, o, None, kind="monitor:" + msg))
                break
        ctx.cov.add_cases("corner:" + what + " built, scoreboard run", len(trace), len(trace))
    return dis


def pulse_tight_checks(ctx):
    """The Lean witness `psTight R` (pulsesync_spacing_tight) is fetched from the driver and replayed on the real
    PulseSynchronizer: model and code agree instant by instant, and on the real module both pulses are lost."""
    dis = []
    for R in (0, 1, 2, 3, 6):
        ans = ctx.lean.call_batch(["ps_tight %d" % R])[0]
        trace = [tuple(int(v) for v in l.split()) for l in ans.split(";")]
        inst = PulseSyncInst("PulseSynchronizer / psTight %d" % R)
        impl_outs = [impl_step(inst, l) for l in trace]
        ctx.lean.open(inst.lean_open)
        model_outs = ctx.lean.run([list(l) for l in trace])
        ctx.lean.close_session()
        for t in range(len(trace)):
            if not _masked_equal(inst, impl_outs[t], model_outs[t]):
                dis.append(Disagreement(inst, trace[:t + 1], t, impl_outs[t], model_outs[t]))
                break
        sent = sum(1 for l in trace if l[0] and l[3])
        seen = sum(1 for l, o in zip(trace, impl_outs) if l[1] and o[0])
        if (sent, seen) != (2, 0):
            ctx.cov.notes.append("psTight %d on the real PulseSynchronizer: %d sent, %d seen (the theorem's witness "
                                 "says 2 sent, 0 seen)" % (R, sent, seen))
        ctx.cov.add_cases("witness: psTight %d (pulse spacing one below the bound)" % R, len(trace), len(trace),
                          exhaustive=False)
    return dis


def _user_sites():
    """Every in-tree place where a crossing primitive is paired with domain-assignment glue, built through its real
    constructor with cd != sys: (name, make() -> (module, clocks))."""
    from litex.soc.cores import uart
    from migen import Record, Signal, Module
    from litex.soc.interconnect.axi import AXILiteInterface, AXILiteClockDomainCrossing

    def bridge(cd):
        pads = Record([("tx", 1), ("rx", 1)])
        return uart.UARTWishboneBridge(pads, clk_freq=1e6, baudrate=250000, cd=cd), ("sys", cd)

    def axil():
        m, sl = AXILiteInterface(32, 32), AXILiteInterface(32, 32)
        return AXILiteClockDomainCrossing(m, sl, "sys", "phy"), ("sys", "phy")

    def monitor():
        ep = stream.Endpoint([("data", 8)])
        return stream.Monitor(ep, count_width=8, clock_domain="phy", with_tokens=True, with_overflows=True), ("sys", "phy")

    def bus():
        from litex.gen.genlib.cdc import BusSynchronizer
        return BusSynchronizer(8, "i", "o"), ("i", "o")

    return [
        ("UARTBone(cd=uart)", lambda: (uart.UARTBone(c05lib._HarnessPHY(), 1e6, cd="uart"), ("sys", "uart"))),
        ("UARTBone(cd=sys)", lambda: (uart.UARTBone(c05lib._HarnessPHY(), 1e6, cd="sys"), ("sys",))),
        ("UARTWishboneBridge(cd=uart)", lambda: bridge("uart")),
        ("UART(phy_cd=phy)", lambda: (uart.UART(phy=None, phy_cd="phy"), ("sys", "phy"))),
        ("ClockDomainCrossing(usb->eth)", lambda: (_cdc(L8, None), ("usb", "eth"))),
        ("ClockDomainCrossing(usb->eth,buffered,common_rst)",
         lambda: (c05lib._RstWrap(L8, 8, True, "usb", "eth"), ("usb", "eth"))),
        ("AXILiteClockDomainCrossing(sys->phy)", axil),
        ("Monitor(clock_domain=phy)", monitor),
        ("BusSynchronizer(8)", bus),
    ]


def _measured_bone_domains(cd):
    """The domains UARTBone really puts its parts in, read off the lowered fragment."""
    from litex.soc.cores import uart
    phy = c05lib._HarnessPHY()
    m = uart.UARTBone(phy, 1e6, cd=cd)
    n = c05lib.CdcNetlist(m, clocks=tuple(dict.fromkeys(("sys", cd))))
    off, dom, sources = c05lib.domain_audit(n, m)
    one = lambda sigs: "/".join(sorted({dom[r] for s_ in sigs for r in sources(s_)})) or "?"
    d_phy = one([phy.source.valid, phy.tx_valid])
    d_bridge = dom.get(m.fsm.state, "?")      # the bridge's FSM state register

    def side(cdc):
        if cdc is None:
            return "none"
        af = c05lib.find_afifo(cdc)
        if af is None:
            return "no-fifo"
        # (source domain, sampling domain) of the two pointer synchronisers
        pairs = []
        for sp in c05lib.own_multiregs(af):
            impl = n.mr[id(sp)][1]
            pairs.append(("/".join(sorted({dom[r] for r in sources(impl.i)})), impl.odomain))
        if len(pairs) != 2:
            return "?"
        (s1, o1), (s2, o2) = pairs
        from migen.fhdl.specials import Memory
        mem = [sp for sp in af._fragment.specials if isinstance(sp, Memory)][0]
        wdom = "/".join(sorted({dom[w_] for w_ in n.ev.replaced_memories[mem] if w_ in dom}))
        rdom = o1 if s1 == wdom else o2
        return "%s>%s" % (wdom, rdom)
    return "phy=%s bridge=%s rx=%s tx=%s" % (d_phy, d_bridge, side(getattr(m, "rx_cdc", None)),
                                             side(getattr(m, "tx_cdc", None)))


def user_checks(ctx):
    """Round-5 class: the USERS of the crossings.  (1) domain audit of every user site's lowered fragment, (2) the
    Lean domain-assignment glue of UARTBone against the measured domains, (3) UARTBone(cd=uart) end to end with
    unrelated clocks and the byte-order oracle."""
    import random
    dis = []
    for name, mk in _user_sites():
        try:
            m, clocks = mk()
            n = c05lib.CdcNetlist(m, clocks=clocks)
        except Exception as e:
            ctx.cov.notes.append("user site %s does not elaborate here: %r" % (name, e))
            continue
        off = c05lib.domain_audit(n, m)[0]
        ctx.cov.add_cases("domain audit: " + name, len(n.regs), len(n.regs), exhaustive=True)
        for o in off[:3]:
            d = Disagreement(None, [[name]], 0, [o], ["no cross-domain read outside synchronisers"],
                             kind="structure: %s: %s" % (name, o))
            d.inst_name, d.lean_open = name, None
            dis.append(d)
    cds = ["sys", "uart", "phy"]
    answers = ctx.lean.call_batch(["uartbone_domains %s" % c for c in cds])
    for c, model in zip(cds, answers):
        try:
            got = _measured_bone_domains(c)
        except Exception as e:
            got = "exception:" + repr(e)
        ctx.cov.count("glue:uartbone_domains")
        if got != model:
            d = Disagreement(None, [["uartbone_domains", c]], 0, [got], [model],
                             kind="glue: UARTBone(cd=%s) domains: code %s, model %s" % (c, got, model))
            d.inst_name, d.lean_open = "UARTBone domain assignment", None
            dis.append(d)
    for j in range(2 if ctx.tier == "quick" else 8):
        inst = UartBoneInst("UARTBone(cd=uart)/end to end, unrelated clocks")
        rng = random.Random(ctx.seed * 101 + j)
        mon = inst.monitor()
        trace = []
        steps = 5000 if ctx.tier == "quick" else 20000
        nt = 0
        for t in range(steps):
            l = inst.gen(rng, t)
            o = impl_step(inst, l)
            trace.append(l)
            nt += 1 if inst.nontrivial(l, o) else 0
            msg = mon.observe(l, o)
            if msg:
                dis.append(Disagreement(inst, trace, t, o, None, kind="monitor:" + msg))
                break
        ctx.cov.add_cases("end to end: " + inst.name, len(trace), nt)
        if any(getattr(d, "kind", "").startswith("monitor:") for d in dis):
            break
    return dis


def _has(module, cls):
    seen, todo = set(), [module]
    while todo:
        m = todo.pop()
        if id(m) in seen:
            continue
        seen.add(id(m))
        if isinstance(m, cls):
            return m
        todo += [sub for _, sub in getattr(m, "_submodules", [])]
    return None


def _classify_fifo(m):
    """What a constructor/selection helper really built, read off the object structure."""
    from migen.genlib import fifo as mfifo
    af = _has(m, mfifo.AsyncFIFO)
    if af is not None:
        return "async %d" % af.depth
    sb = _has(m, mfifo.SyncFIFOBuffered)
    if sb is not None:
        return "sync_buffered %d" % sb.depth
    return "other:" + type(m).__name__


def _classify_cdc(m):
    from migen.genlib import fifo as mfifo
    af = _has(m, mfifo.AsyncFIFO)
    if af is not None:
        return "afifo %d %d" % (af.depth.bit_length() - 1, 1 if _has(m, mfifo.AsyncFIFOBuffered) is not None else 0)
    if _has(m, stream.Buffer) is not None:
        return "buffer"
    return "wire"


def _classify_ctor(depth, buffered):
    """What `stream.AsyncFIFO(layout, depth, buffered)` really builds: `refused` or
    `built <pointer bits - 1> <storage words> <tokens it takes with the consumer idle>` (the last one measured by
    driving the real module with write-clock edges only — plus, when buffered, the read edges that move one word
    into the output register — until sink.ready falls)."""
    from migen.genlib import fifo as mfifo
    from migen.fhdl.specials import Memory
    try:
        m = stream.AsyncFIFO(L8, depth, buffered=bool(buffered))
    except (AssertionError, ValueError):
        return "refused"
    af = _has(m, mfifo.AsyncFIFO)
    if af is None:
        return "other:" + type(m).__name__
    ptr_bits = {len(sp.o) for sp in c05lib.own_multiregs(af)}
    mems = [sp for sp in af._fragment.specials if isinstance(sp, Memory)]
    kk = (ptr_bits.pop() - 1) if len(ptr_bits) == 1 else -1
    words = mems[0].depth if len(mems) == 1 else -1
    if not (0 <= kk <= 8):
        return "built %d %d ?" % (kk, words)
    inst = AFifoInst("ctor probe", m, kk, buffered=bool(buffered), layout=L8)
    taken = 0
    for t in range(3 * (1 << kk) + 12):
        # write edge offering a token; for the buffered variant also read edges (consumer never ready) so that the
        # output register fills
        o = impl_step(inst, (1, 1 if buffered else 0, 0, 0, 1, t & 0xff, 0))
        taken += 1 if o[0] else 0
    return "built %d %d %d" % (kk, words, taken)


def glue_checks(ctx):
    """Mode C for the selection glue: the Lean decision functions (`cdcKind`, `uartFifoKind`, `uartTxFifo`,
    `uartRxFifo`) against what the real constructors build, over a grid of domain names, depths and options."""
    from litex.soc.cores import uart
    cases = []
    doms = ["sys", "phy", "usb"]
    for a in doms:
        for b in doms:
            for depth in (None, 4, 8, 64):
                for buf in (0, 1):
                    cases.append(("cdc_kind %s %s %s %d" % (a, b, "none" if depth is None else depth.bit_length() - 1, buf),
                                  lambda a=a, b=b, depth=depth, buf=buf: _classify_cdc(
                                      stream.ClockDomainCrossing(L8, cd_from=a, cd_to=b, depth=depth, buffered=bool(buf)))))
            for depth in (8, 16):
                cases.append(("uart_fifo_kind %d %s %s" % (depth, a, b),
                              lambda a=a, b=b, depth=depth: _classify_fifo(uart._get_uart_fifo(depth, sink_cd=a, source_cd=b))))
    cases.append(("uart_fifo_kind 16 sys sys", lambda: _classify_fifo(uart._get_uart_fifo(16))))     # default arguments
    # constructor arithmetic: which requested depths are built (no rounding), pointer width, storage, capacity
    for depth in [None] + list(range(0, 19)) + [31, 32, 33, 48, 64, 100, 128, 255, 256]:
        for buf in (0, 1):
            if buf and depth not in (None, 3, 4, 8, 12, 16):
                continue
            cases.append(("afifo_ctor %s %d" % ("none" if depth is None else depth, buf),
                          lambda depth=depth, buf=buf: _classify_ctor(depth, buf)))
    for p in doms:
        for (dt, dr) in ((16, 16), (8, 32)):
            mk = lambda p=p, dt=dt, dr=dr: uart.UART(phy=None, tx_fifo_depth=dt, rx_fifo_depth=dr, phy_cd=p)
            cases.append(("uart_tx %d %s" % (dt, p), lambda mk=mk: _classify_fifo(mk().tx_fifo)))
            cases.append(("uart_rx %d %s" % (dr, p), lambda mk=mk: _classify_fifo(mk().rx_fifo)))
    # the periodic-clock schedules of the mode-B BusSynchronizer jobs are the ones `bussync_coherent_periodic` talks
    # about: harness generator vs Lean `perClocks`
    def _per(pat, n=60):
        c = c05lib.PeriodicClocks(*pat)
        return ";".join("%d %d" % c.next() for _ in range(n))
    for pat in c05lib.PeriodicClocks.PATTERNS:
        cases.append(("per_clocks %d %d 0 %d 60" % pat, lambda pat=pat: _per(pat)))
    answers = ctx.lean.call_batch([c[0] for c in cases])
    dis = []
    for (q, real), model in zip(cases, answers):
        try:
            got = real()
        except Exception as e:
            got = "exception:" + repr(e)
        ctx.cov.count("glue:" + q.split()[0])
        if got != model:
            d = Disagreement(None, [q.split()], 0, [got], [model], kind="glue: %s -> code %s, model %s" % (q, got, model))
            d.inst_name, d.lean_open = "selection glue", None
            dis.append(d)
    ctx.cov.add_cases("glue: ClockDomainCrossing / _get_uart_fifo / UART fifo selection", len(cases),
                      len(cases), exhaustive=False)
    return dis


def _corpus_instance(spec):
    if spec["kind"] == "bussync":
        return BusSyncInst(spec["name"], spec["width"], spec["timeout"])
    if spec["kind"] == "monitor":
        return MonitorInst(spec["name"], spec["w"])
    if spec["kind"] == "afifo_rst":
        return AFifoRstInst(spec["name"], [("data", spec["data_width"])], spec["k"], buffered=spec["buffered"])
    raise ValueError(spec)


def run_corpus(ctx):
    """Stored witnesses are replayed first: model and code must agree on every instant, and the recorded
    verdict of the property oracle must be unchanged (a *negative witness* of an excluded region is expected to
    make the oracle fire; that is not a violation, it documents why the theorem carries its hypothesis)."""
    dis = []
    for path in sorted(glob.glob(os.path.join(CORPUS, "*.json"))):
        w = json.load(open(path))
        inst = _corpus_instance(w["instance"])
        trace = [tuple(l) for l in w["trace"]]
        # a negative witness lies outside the region in which the instance arms its monitors: use the bare oracle
        mon = c05lib.CoherenceMonitor() if w["instance"]["kind"] == "bussync" else inst.monitor()
        fired = None
        impl_outs = []
        for t, letter in enumerate(trace):
            outs = impl_step(inst, letter)
            impl_outs.append(outs)
            m = mon.observe(letter, outs)
            if m and fired is None:
                fired = (t, m)
        ctx.lean.open(inst.lean_open)
        ml = inst.model_letter if hasattr(inst, "model_letter") else list
        model_outs = ctx.lean.run([list(ml(l)) for l in trace])
        ctx.lean.close_session()
        for t in range(len(trace)):
            if not _masked_equal(inst, impl_outs[t], model_outs[t]):
                dis.append(Disagreement(inst, trace[:t + 1], t, impl_outs[t], model_outs[t]))
                break
        if "expect_final_outputs" in w and impl_outs and impl_outs[-1] != w["expect_final_outputs"]:
            ctx.cov.notes.append("corpus witness %s: final outputs %r, recorded %r" % (
                os.path.basename(path), impl_outs[-1], w["expect_final_outputs"]))
        ok = (fired is not None) == bool(w.get("oracle_fires"))
        ctx.cov.add_cases("corpus:" + os.path.basename(path), len(trace), len(trace), exhaustive=False)
        if not ok:
            if w.get("oracle_fires"):
                ctx.cov.notes.append("corpus witness %s no longer makes the oracle fire" % os.path.basename(path))
            else:
                dis.append(Disagreement(inst, trace[:fired[0] + 1], fired[0], impl_outs[fired[0]], None,
                                        kind="monitor:" + fired[1]))
    return dis


def correspond(ctx):
    dis = run_corpus(ctx) + corner_checks(ctx) + glue_checks(ctx) + pulse_tight_checks(ctx) + user_checks(ctx)
    ctx.jobs = jobs(ctx.tier)
    d2, bad = run_jobs_safe(ctx, ctx.jobs, timeout_s=600 if ctx.tier == "quick" else 3000)
    return dis + d2


def search(ctx, disagreements, proof_info):
    return generic_search(ctx, disagreements, getattr(ctx, "jobs", None) or jobs(ctx.tier), FMT)


def replay(ctx, payload):
    fi = payload.get("failing_input") or {}
    if str(fi.get("instance", "")).startswith("UARTBone(cd=uart)/end to end"):
        from explore import replay_with_monitor
        r = replay_with_monitor(UartBoneInst(fi["instance"]), [tuple(l) for l in fi.get("trace", [])])
        if r:
            print("cycle %d: %s" % r)
            print("VIOLATION property=%s replay=(replayed)" % ctx.prop)
            return 1
        print("trace no longer violates the property on the current tree")
        return 0
    return generic_replay(ctx, payload, jobs("thorough"))
