"""C05 — clock-domain crossings never corrupt, drop, duplicate or reorder data."""
import os, json, glob
from explore import Job, run_jobs, generic_search, generic_replay, Disagreement, impl_step, _masked_equal
import c05lib
from c05lib import AFifoInst, BusSyncInst, BusSync1Inst, PulseSyncInst, AxiLiteCdcInst, AFifoRstInst
from litex.soc.interconnect import stream

L1 = [("data", 1)]
L8 = [("data", 8)]
L32 = [("data", 32)]
FMT = "per instance, see c05lib: AFifoInst.FMT / BusSyncInst.FMT / PulseSyncInst.FMT / AxiLiteCdcInst.FMT"
TA, TB = 0, 7       # two fifo words that differ in every field (data, first, last); 0 is the memory reset value
CORPUS = os.path.join(os.path.dirname(os.path.dirname(os.path.dirname(os.path.abspath(__file__)))), "corpus", "C05")


def _cdc(layout, depth, buffered=False, cd_from="usb", cd_to="eth"):
    return stream.ClockDomainCrossing(layout, cd_from=cd_from, cd_to=cd_to, depth=depth, buffered=buffered)


def _uart_fifo(depth, sink_cd, source_cd):
    from litex.soc.cores import uart
    return uart._get_uart_fifo(depth, sink_cd=sink_cd, source_cd=source_cd)


def jobs(tier):
    quick = tier == "quick"
    J = []
    A = lambda mk, **kw: J.append(Job("A", mk, max_states=60000 if quick else 3000000, **kw))

    def B(mk, cycles=6000, **kw):
        J.append(Job("B", mk, cycles=cycles if quick else cycles * 6, runs=1 if quick else 3, **kw))
    alt = dict(tokens=(TA, TB), alternate=True)
    # -- A: complete reachable product, all interleavings {w, r, both} x handshakes x resolutions ------------
    A(lambda: AFifoInst("AsyncFIFO(4)/1b/alt", stream.AsyncFIFO(L1, 4), 2, **alt))
    A(lambda: AFifoInst("AsyncFIFO(4,buffered)/1b/alt", stream.AsyncFIFO(L1, 4, buffered=True), 2, buffered=True, **alt))
    A(lambda: AFifoInst("ClockDomainCrossing(4,usb->eth)/1b/alt", _cdc(L1, 4), 2, cd_w="usb", cd_r="eth", **alt))
    A(lambda: BusSyncInst("BusSynchronizer(2,t=8)/i=3", 2, 8, values=(3,)))
    A(lambda: BusSyncInst("BusSynchronizer(2,t=16)/i=3", 2, 16, values=(3,)))
    A(lambda: BusSync1Inst("BusSynchronizer(1)"))
    A(lambda: PulseSyncInst("PulseSynchronizer"))
    if not quick:
        A(lambda: AFifoInst("ClockDomainCrossing(4,buffered,usb->eth)/1b/alt", _cdc(L1, 4, True), 2, buffered=True,
                            cd_w="usb", cd_r="eth", **alt))
        A(lambda: AFifoInst("AsyncFIFO(4)/1b/free", stream.AsyncFIFO(L1, 4), 2, tokens=(TA, TB)))
        A(lambda: AFifoInst("AsyncFIFO(4,buffered)/1b/free/eager", stream.AsyncFIFO(L1, 4, buffered=True), 2,
                            buffered=True, tokens=(TA, TB), eager=True))
        A(lambda: AFifoInst("ClockDomainCrossing(8,usb->eth)/1b/alt", _cdc(L1, 8), 3, cd_w="usb", cd_r="eth", **alt))
        A(lambda: AFifoInst("ClockDomainCrossing(8,buffered,usb->eth)/1b/alt/eager", _cdc(L1, 8, True), 3,
                            buffered=True, cd_w="usb", cd_r="eth", eager=True, **alt))
        A(lambda: BusSyncInst("BusSynchronizer(2,t=8)/i=0,3", 2, 8, values=(0, 3)))
        A(lambda: BusSyncInst("BusSynchronizer(2,t=16)/i=0,3", 2, 16, values=(0, 3)))
    # -- B: realistic sizes, clock ratios 1:1 .. 1:7 both ways with drifting phase ---------------------------
    B(lambda: AFifoInst("AsyncFIFO(8)/8b", stream.AsyncFIFO(L8, 8), 3))
    B(lambda: AFifoInst("AsyncFIFO(16,buffered)/32b", stream.AsyncFIFO(L32, 16, buffered=True), 4, buffered=True))
    B(lambda: AFifoInst("ClockDomainCrossing(64,sys->phy)/32b", _cdc(L32, 64, cd_from="sys", cd_to="phy"), 6,
                        cd_w="sys", cd_r="phy"))
    B(lambda: AFifoInst("ClockDomainCrossing(32,buffered)/8b", _cdc(L8, 32, True), 5, buffered=True,
                        cd_w="usb", cd_r="eth"))
    B(lambda: AFifoInst("uart tx fifo (16, sys->phy)", _uart_fifo(16, "sys", "phy"), 4, cd_w="sys", cd_r="phy"))
    B(lambda: AFifoInst("uart rx fifo (16, phy->sys)", _uart_fifo(16, "phy", "sys"), 4, cd_w="phy", cd_r="sys"))
    B(lambda: AxiLiteCdcInst("AXILiteClockDomainCrossing(sys->phy)"), cycles=1200)
    # common-reset variant: reset pulses of either domain; long pulses (flush) with the scoreboard armed,
    # arbitrary short pulses for model/code agreement only
    B(lambda: AFifoRstInst("ClockDomainCrossing(8,common_rst)/8b/long resets", L8, 3))
    B(lambda: AFifoRstInst("ClockDomainCrossing(16,buffered,common_rst)/8b/long resets", L8, 4, buffered=True))
    B(lambda: AFifoRstInst("ClockDomainCrossing(8,common_rst)/8b/short resets", L8, 3, long_resets=False))
    B(lambda: AFifoRstInst("ClockDomainCrossing(8,buffered,common_rst)/8b/short resets", L8, 3, buffered=True,
                           long_resets=False))
    # BusSynchronizer: clocks with drift ratio <= 3 (the property's quantifier), coherence monitor armed
    B(lambda: BusSyncInst("BusSynchronizer(8,t=128)/R<=3", 8, 128, ratio_max=3), cycles=20000)
    B(lambda: BusSyncInst("BusSynchronizer(5,t=19)/R<=3", 5, 19, ratio_max=3), cycles=20000)
    B(lambda: BusSyncInst("BusSynchronizer(32,t=11)/R<=1", 32, 11, ratio_max=1), cycles=20000)
    # free-running clocks with a fixed phase offset, output clock faster than the input clock
    B(lambda: BusSyncInst("BusSynchronizer(8,t=128)/i:o=30:10 phase 1", 8, 128, pattern=(30, 10, 1)), cycles=12000)
    B(lambda: BusSyncInst("BusSynchronizer(4,t=19)/i:o=14:10 phase 2", 4, 19, pattern=(14, 10, 2)), cycles=12000)
    B(lambda: BusSyncInst("BusSynchronizer(8,t=19)/i:o=10:30 phase 7", 8, 19, pattern=(10, 30, 7)), cycles=12000)
    B(lambda: PulseSyncInst("PulseSynchronizer/spaced pulses"), cycles=20000)
    return J


def _corpus_instance(spec):
    if spec["kind"] == "bussync":
        return BusSyncInst(spec["name"], spec["width"], spec["timeout"])
    if spec["kind"] == "afifo_rst":
        return AFifoRstInst(spec["name"], [("data", spec["data_width"])], spec["k"], buffered=spec["buffered"])
    raise ValueError(spec)


def run_corpus(ctx):
    """Stored witnesses are replayed first: model and code must agree on every instant, and the recorded
    verdict of the property oracle must be unchanged (a *negative witness* of an excluded region is expected to
    make the oracle fire; that is not a violation, it documents why the theorem carries its hypothesis)."""
    dis = []
    for path in sorted(glob.glob(os.path.join(CORPUS, "*.json"))):
        w = json.load(open(path))
        inst = _corpus_instance(w["instance"])
        trace = [tuple(l) for l in w["trace"]]
        mon = inst.monitor()
        fired = None
        impl_outs = []
        for t, letter in enumerate(trace):
            outs = impl_step(inst, letter)
            impl_outs.append(outs)
            m = mon.observe(letter, outs)
            if m and fired is None:
                fired = (t, m)
        ctx.lean.open(inst.lean_open)
        ml = inst.model_letter if hasattr(inst, "model_letter") else list
        model_outs = ctx.lean.run([list(ml(l)) for l in trace])
        ctx.lean.close_session()
        for t in range(len(trace)):
            if not _masked_equal(inst, impl_outs[t], model_outs[t]):
                dis.append(Disagreement(inst, trace[:t + 1], t, impl_outs[t], model_outs[t]))
                break
        ok = (fired is not None) == bool(w.get("oracle_fires"))
        ctx.cov.add_cases("corpus:" + os.path.basename(path), len(trace), len(trace), exhaustive=False)
        if not ok:
            if w.get("oracle_fires"):
                ctx.cov.notes.append("corpus witness %s no longer makes the oracle fire" % os.path.basename(path))
            else:
                dis.append(Disagreement(inst, trace[:fired[0] + 1], fired[0], impl_outs[fired[0]], None,
                                        kind="monitor:" + fired[1]))
    return dis


def correspond(ctx):
    dis = run_corpus(ctx)
    ctx.jobs = jobs(ctx.tier)
    d2, bad = run_jobs(ctx, ctx.jobs)
    return dis + d2


def search(ctx, disagreements, proof_info):
    return generic_search(ctx, disagreements, getattr(ctx, "jobs", None) or jobs(ctx.tier), FMT)


def replay(ctx, payload):
    return generic_replay(ctx, payload, jobs("thorough"))
