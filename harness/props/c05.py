"""C05 — clock-domain crossings never corrupt, drop, duplicate or reorder data."""
from explore import Job, run_jobs, generic_search, generic_replay
import c05lib
from c05lib import AFifoInst
from litex.soc.interconnect import stream

L1 = [("data", 1)]
L8 = [("data", 8)]
L32 = [("data", 32)]
FMT = AFifoInst.FMT
TA, TB = 0, 7       # two fifo words that differ in every field (data, first, last); 0 is the memory reset value


def _cdc(layout, depth, buffered=False, cd_from="usb", cd_to="eth"):
    return stream.ClockDomainCrossing(layout, cd_from=cd_from, cd_to=cd_to, depth=depth, buffered=buffered)


def jobs(tier):
    quick = tier == "quick"
    J = []
    A = lambda mk, **kw: J.append(Job("A", mk, max_states=60000 if quick else 2000000, **kw))
    B = lambda mk, **kw: J.append(Job("B", mk, cycles=6000 if quick else 40000, runs=1 if quick else 3, **kw))
    # -- A: complete reachable product, all interleavings {w, r, both} x handshakes x resolutions ------------
    A(lambda: AFifoInst("AsyncFIFO(4)/1b/alt", stream.AsyncFIFO(L1, 4), 2, tokens=(TA, TB), alternate=True))
    A(lambda: AFifoInst("AsyncFIFO(4,buffered)/1b/alt", stream.AsyncFIFO(L1, 4, buffered=True), 2, buffered=True,
                        tokens=(TA, TB), alternate=True))
    A(lambda: AFifoInst("ClockDomainCrossing(4,usb->eth)/1b/alt", _cdc(L1, 4), 2, cd_w="usb", cd_r="eth",
                        tokens=(TA, TB), alternate=True))
    A(lambda: AFifoInst("ClockDomainCrossing(4,buffered,usb->eth)/1b/alt", _cdc(L1, 4, True), 2, buffered=True,
                        cd_w="usb", cd_r="eth", tokens=(TA, TB), alternate=True))
    if not quick:
        A(lambda: AFifoInst("ClockDomainCrossing(8,buffered,usb->eth)/1b/alt/eager", _cdc(L1, 8, True), 3,
                            buffered=True, cd_w="usb", cd_r="eth", tokens=(TA, TB), alternate=True, eager=True))
        A(lambda: AFifoInst("ClockDomainCrossing(8,usb->eth)/1b/alt", _cdc(L1, 8), 3, cd_w="usb", cd_r="eth",
                            tokens=(TA, TB), alternate=True))
        A(lambda: AFifoInst("AsyncFIFO(4)/1b/free", stream.AsyncFIFO(L1, 4), 2, tokens=(TA, TB)))
        A(lambda: AFifoInst("AsyncFIFO(4,buffered)/1b/free", stream.AsyncFIFO(L1, 4, buffered=True), 2,
                            buffered=True, tokens=(TA, TB)))
        A(lambda: AFifoInst("ClockDomainCrossing(8,buffered,usb->eth)/1b/alt", _cdc(L1, 8, True), 3, buffered=True,
                            cd_w="usb", cd_r="eth", tokens=(TA, TB), alternate=True))
    # -- B: realistic sizes, clock ratios 1:1 .. 1:7 both ways with drifting phase ---------------------------
    B(lambda: AFifoInst("AsyncFIFO(8)/8b", stream.AsyncFIFO(L8, 8), 3))
    B(lambda: AFifoInst("AsyncFIFO(16,buffered)/32b", stream.AsyncFIFO(L32, 16, buffered=True), 4, buffered=True))
    B(lambda: AFifoInst("ClockDomainCrossing(64,sys->phy)/32b", _cdc(L32, 64, cd_from="sys", cd_to="phy"), 6,
                        cd_w="sys", cd_r="phy"))
    B(lambda: AFifoInst("ClockDomainCrossing(32,buffered)/8b", _cdc(L8, 32, True), 5, buffered=True,
                        cd_w="usb", cd_r="eth"))
    return J


def correspond(ctx):
    ctx.jobs = jobs(ctx.tier)
    dis, bad = run_jobs(ctx, ctx.jobs)
    return dis


def search(ctx, disagreements, proof_info):
    return generic_search(ctx, disagreements, getattr(ctx, "jobs", None) or jobs(ctx.tier), FMT)


def replay(ctx, payload):
    return generic_replay(ctx, payload, jobs("thorough"))
